#!/usr/bin/env python3
"""Import seeded changes delivered by independent sub-agents (/tmp/mut/<P>/out/<X>) into /verif/seeded/<P>-<X>/."""
import json
import os
import shutil
import sys

SRC = "/tmp/mut"
DST = "/verif/seeded"
for prop in sorted(os.listdir(SRC)):
    out = os.path.join(SRC, prop, "out")
    if not os.path.isdir(out):
        continue
    for x in sorted(os.listdir(out)):
        d = os.path.join(out, x)
        if not (os.path.exists(os.path.join(d, "patch.diff")) and os.path.exists(os.path.join(d, "meta.json"))):
            continue
        sid = f"{prop}-{x}"
        dst = os.path.join(DST, sid)
        if os.path.exists(dst):
            continue
        os.makedirs(dst)
        for f in os.listdir(d):
            shutil.copy(os.path.join(d, f), os.path.join(dst, f))
        try:
            meta = json.load(open(os.path.join(dst, "meta.json")))
        except Exception as e:  # noqa
            meta = {"parse_error": str(e)}
        meta["property"] = prop
        meta["origin"] = "independent sub-agent given only the property text and its own worktree"
        json.dump(meta, open(os.path.join(dst, "meta.json"), "w"), indent=1)
        print("imported", sid)
