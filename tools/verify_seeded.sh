#!/bin/bash
# Independently confirm a seeded change: applies, builds (default, cli, simd), the repository's own
# suite still passes with it, the demonstration fails with it and passes without it.
# usage: tools/verify_seeded.sh <seeded-id>   (writes /verif/seeded/<id>/verified.json)
set -u
ID=$1; D=/verif/seeded/$ID; W=/tmp/sv/wt; T=/tmp/sv/target
export CARGO_NET_OFFLINE=true RUST_BACKTRACE=0 CARGO_TARGET_DIR=$T
mkdir -p /tmp/sv
[ -d $W ] || git -C /repo worktree add --detach $W HEAD >/dev/null 2>&1
git -C $W checkout -q --detach $(git -C /repo rev-parse HEAD); git -C $W checkout -q -- . ; git -C $W clean -fdq
cd $W
demo=$(ls $D/demo.* | head -1); ext=${demo##*.}
run_demo() {
  if [ "$ext" = "rs" ]; then cp $demo tests/seeded_demo.rs; cargo test --offline --features cli --test seeded_demo >/tmp/sv/demo.log 2>&1; rc=$?; rm -f tests/seeded_demo.rs; return $rc
  else bash $demo >/tmp/sv/demo.log 2>&1; return $?; fi
}
run_demo; base_rc=$?
git apply --whitespace=nowarn $D/patch.diff || { echo "{\"id\":\"$ID\",\"applies\":false}" > $D/verified.json; exit 1; }
b1=0; cargo build --offline >/dev/null 2>&1 || b1=1
b2=0; cargo build --offline --features cli --bin succinctly >/dev/null 2>&1 || b2=1
b3=0; cargo build --offline --features simd >/dev/null 2>&1 || b3=1
run_demo; mut_rc=$?
if [ "${LITE:-0}" = "1" ]; then suite_rc=-1; summary="not re-run by the maintainer of /verif (time); the sub-agent's own full-suite result is in meta.json tests_result";
else cargo nextest run --workspace --no-fail-fast --test-threads 8 --offline >/tmp/sv/suite.log 2>&1; suite_rc=$?
summary=$(grep -E "Summary" /tmp/sv/suite.log | tail -1 | sed 's/"/'"'"'/g'); fi
git checkout -q -- . ; git clean -fdq
cat > $D/verified.json <<JSON
{"id":"$ID","applies":true,"repo_head":"$(git -C /repo rev-parse --short HEAD)","builds":{"default":$((1-b1)),"cli":$((1-b2)),"simd":$((1-b3))},
 "demo_rc_without_change":$base_rc,"demo_rc_with_change":$mut_rc,"suite_rc_with_change":$suite_rc,"suite_summary":"$summary"}
JSON
cat $D/verified.json
