#!/usr/bin/env python3
"""Print a markdown table of /verif/seeded/* (what each change needs to manifest, which checks caught it)."""
import json
import os

D = os.path.join(os.path.dirname(os.path.dirname(os.path.abspath(__file__))), "seeded")
print("| id | property | what the change does / what it needs to manifest | suite with change | caught by (quick tier) |")
print("|---|---|---|---|---|")
for sid in sorted(os.listdir(D)):
    p = os.path.join(D, sid)
    try:
        meta = json.load(open(os.path.join(p, "meta.json")))
    except Exception:  # noqa
        continue
    res = {}
    if os.path.exists(os.path.join(p, "result.json")):
        res = json.load(open(os.path.join(p, "result.json"))).get("results", {})
    ver = {}
    if os.path.exists(os.path.join(p, "verified.json")):
        try:
            ver = json.load(open(os.path.join(p, "verified.json")))
        except Exception:  # noqa
            ver = {}
    caught = ", ".join(f"{c} ({'caught' if r.get('caught') else 'MISSED exit ' + str(r.get('exit'))})" for c, r in res.items()) or "not run"
    summ = (str(meta.get("summary", "")) + " — needs: " + str(meta.get("needs", ""))).replace("|", "/").replace("\n", " ")
    suite = ver.get("suite_summary") or str(meta.get("tests_result", ""))[:60]
    print(f"| {sid} | {meta.get('property')} | {summ[:420]} | {str(suite)[:70].replace('|','/')} | {caught} |")
