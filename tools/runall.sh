#!/bin/bash
# usage: tools/runall.sh <seed> [tier]   -> one summary line per check
S=${1:-1}; T=${2:-quick}
cd /verif
for i in $(seq -w 1 32); do
  c=C$i; t0=$(date +%s)
  out=$(VERIF_SEED=$S ./check $c --tier $T 2>&1); rc=$?
  echo "$c seed=$S tier=$T rc=$rc $(( $(date +%s) - t0 ))s :: $(echo "$out" | grep -a -E "^(VIOLATION|HARNESS|INCONCLUSIVE-RUN)" | head -3 | tr '\n' ' ' | cut -c1-300)"
  if [ $rc -ne 0 ]; then echo "$out" | grep -a -A1 "^VIOLATION" | head -12 | cut -c1-400; fi
done
