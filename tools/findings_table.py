#!/usr/bin/env python3
"""Markdown tables of /verif/known_findings.json (fixed / known) for DESIGN.md section 9.3."""
import json
import os

V = os.path.dirname(os.path.dirname(os.path.abspath(__file__)))
F = json.load(open(os.path.join(V, "known_findings.json")))["findings"]


def esc(s):
    return str(s).replace("|", "\\|").replace("\n", " ")


print("Repaired by `fix:` commits in /repo (a `fixed` entry suppresses nothing):\n")
print("| property | commit | what failed | signature |")
print("|---|---|---|---|")
for e in sorted((e for e in F if e["status"] == "fixed"), key=lambda e: (e["property"], e["commit"])):
    print(f"| {e['property']} | {e['commit']} | {esc(e['what'])[:330]} | `{esc(e.get('sig_regex') or e['sig'])[:90]}` |")
print("\nRecorded as known findings (check prints `KNOWN-FINDING:` and exits 0 for exactly these signatures):\n")
print("| property | finding | why it is not repaired | signature |")
print("|---|---|---|---|")
for e in sorted((e for e in F if e["status"] == "known"), key=lambda e: e["property"]):
    print(f"| {e['property']} | {esc(e['what'])[:420]} | {esc(e.get('why_not_fixed',''))[:300]} | `{esc(e.get('sig_regex') or e['sig'])[:90]}` |")
