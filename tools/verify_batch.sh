#!/bin/bash
# LITE=1 tools/verify_batch.sh  -> verify every seeded change that has no verified.json yet
cd /verif
for d in seeded/*/; do id=$(basename $d); [ -f $d/verified.json ] || tools/verify_seeded.sh $id; done
