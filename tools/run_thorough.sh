#!/bin/bash
# usage: tools/run_thorough.sh <seed> C31 C19 ...   (thorough tier, one summary line per check)
S=$1; shift; cd /verif
for c in "$@"; do
  t0=$(date +%s)
  out=$(VERIF_SEED=$S ./check $c --tier thorough 2>&1); rc=$?
  echo "$c seed=$S tier=thorough rc=$rc $(( $(date +%s) - t0 ))s :: $(echo "$out" | grep -a -E "^C[0-9]+ tier=" | tail -1) $(echo "$out" | grep -a -E "^(VIOLATION|HARNESS|INCONCLUSIVE-RUN)" | head -3 | tr '\n' ' ' | cut -c1-300)"
  if [ $rc -ne 0 ]; then echo "$out" | grep -a -A1 "^VIOLATION" | head -8 | cut -c1-400; fi
done
