#!/bin/bash
# Run the repository's pinned baseline test suite (guard OFF) in <dir> (default /repo) and summarise.
# usage: tools/baseline.sh [repo_dir] [target_dir]
D=${1:-/repo}; T=${2:-$D/target}
cd "$D" || exit 2
export CARGO_NET_OFFLINE=true RUST_BACKTRACE=0 CARGO_TARGET_DIR="$T"
cargo nextest run --workspace --no-fail-fast --test-threads 8 --offline 2>&1 | tail -40 | grep -E "Summary|FAIL|passed|failed|error" | head -30
exit ${PIPESTATUS[0]}
