#!/usr/bin/env python3
"""Markdown table from tools/run_thorough.sh logs given on the command line (last line per check wins)."""
import re
import sys

rows = {}
for path in sys.argv[1:]:
    for line in open(path, errors="replace"):
        m = re.match(r"(C\d+) seed=(\d+) tier=thorough rc=(\d+) (\d+)s :: .*?evaluations=(\d+) distinct_nontrivial=(\d+) legs=(\d+)", line)
        if m:
            rows[m.group(1)] = m.groups()
print("| check | seed | exit | wall | evaluations | distinct non-trivial (capped per shard) | leg shards |")
print("|---|---|---|---|---|---|---|")
for c in sorted(rows):
    _, seed, rc, wall, ev, dn, legs = rows[c]
    print(f"| {c} | {seed} | {rc} | {wall} s | {int(ev):,} | {int(dn):,} | {legs} |")
