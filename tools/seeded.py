#!/usr/bin/env python3
"""Run registered checks against a seeded (property-breaking) patch and record which catch it.

  tools/seeded.py <seeded-id> [--checks C01,C04] [--tier quick]

Applies /verif/seeded/<id>/patch.diff to /repo (git apply), runs the checks named in meta.json
("property" plus optional "also_check"), restores /repo (git checkout -- . ; git clean for new files
listed by the patch) and writes /verif/seeded/<id>/result.json. Never commits anything in /repo.
"""
import argparse
import json
import os
import subprocess
import sys
import time

VERIF = os.path.dirname(os.path.dirname(os.path.abspath(__file__)))
REPO = "/repo"


def sh(cmd, **kw):
    return subprocess.run(cmd, stdout=subprocess.PIPE, stderr=subprocess.STDOUT, text=True, **kw)


def main():
    ap = argparse.ArgumentParser()
    ap.add_argument("sid")
    ap.add_argument("--checks")
    ap.add_argument("--tier", default="quick")
    ap.add_argument("--seed", default="1")
    a = ap.parse_args()
    d = os.path.join(VERIF, "seeded", a.sid)
    meta = json.load(open(os.path.join(d, "meta.json")))
    checks = a.checks.split(",") if a.checks else [meta["property"]] + meta.get("also_check", [])
    st = sh(["git", "-C", REPO, "status", "--porcelain"]).stdout.strip()
    if st:
        print("refusing: /repo has uncommitted changes:\n" + st)
        return 2
    patch = os.path.join(d, "patch.diff")
    r = sh(["git", "-C", REPO, "apply", "--whitespace=nowarn", patch])
    if r.returncode != 0:
        print("patch does not apply:\n" + r.stdout)
        return 2
    results = {}
    try:
        for c in checks:
            t0 = time.time()
            env = dict(os.environ, VERIF_SEED=a.seed)
            p = sh([os.path.join(VERIF, "check"), c, "--tier", a.tier], cwd=VERIF, env=env)
            lines = [l for l in p.stdout.splitlines() if l.startswith(("VIOLATION", "  sig=", "HARNESS-ERROR", "INCONCLUSIVE-RUN", "KNOWN-FINDING"))]
            results[c] = {"exit": p.returncode, "caught": p.returncode == 1, "wall_s": round(time.time() - t0, 1), "lines": lines[:12]}
            print(f"{a.sid}: check {c} exit={p.returncode} ({'CAUGHT' if p.returncode == 1 else 'not caught'}) {results[c]['wall_s']}s")
            for l in lines[:6]:
                print("   " + l[:260])
    finally:
        sh(["git", "-C", REPO, "checkout", "--", "."])
        sh(["git", "-C", REPO, "clean", "-fdq", "src", "tests", "benches"])
    # evidence files were rewritten by runs on the patched tree: they must not be kept
    sh(["git", "-C", VERIF, "checkout", "--", "evidence"])
    out = {"seeded": a.sid, "tier": a.tier, "seed": a.seed, "results": results, "when": time.strftime("%Y-%m-%dT%H:%M:%SZ", time.gmtime())}
    json.dump(out, open(os.path.join(d, "result.json"), "w"), indent=1)
    return 0


if __name__ == "__main__":
    sys.exit(main())
