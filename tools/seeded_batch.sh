#!/bin/bash
# usage: tools/seeded_batch.sh id1 id2 ...   (sequential; skips ids that already have result.json)
cd /verif
for id in "$@"; do [ -f seeded/$id/result.json ] || tools/seeded.py $id; done
