//! The value tree used as ground truth by the JSON / YAML / jq monitors.

use serde_json::{json, Value};

/// A JSON-like value. Numbers keep their literal spelling (the double is derived with
/// `str::parse::<f64>`), objects keep source order and duplicate keys.
#[derive(Clone, Debug, PartialEq)]
pub enum Val {
    Null,
    Bool(bool),
    Num(String),
    Str(String),
    Arr(Vec<Val>),
    Obj(Vec<(String, Val)>),
}

impl Val {
    pub fn int(i: i64) -> Val {
        Val::Num(i.to_string())
    }
    pub fn is_container(&self) -> bool {
        matches!(self, Val::Arr(_) | Val::Obj(_))
    }
    pub fn kind(&self) -> &'static str {
        match self {
            Val::Null => "null",
            Val::Bool(_) => "bool",
            Val::Num(_) => "num",
            Val::Str(_) => "str",
            Val::Arr(_) => "arr",
            Val::Obj(_) => "obj",
        }
    }
    pub fn depth(&self) -> usize {
        // iterative to survive very deep trees
        let mut max = 0usize;
        let mut stack: Vec<(&Val, usize)> = vec![(self, 1)];
        while let Some((v, d)) = stack.pop() {
            max = max.max(d);
            match v {
                Val::Arr(xs) => stack.extend(xs.iter().map(|x| (x, d + 1))),
                Val::Obj(kv) => stack.extend(kv.iter().map(|(_, x)| (x, d + 1))),
                _ => {}
            }
        }
        max
    }
    pub fn node_count(&self) -> usize {
        let mut n = 0usize;
        let mut stack: Vec<&Val> = vec![self];
        while let Some(v) = stack.pop() {
            n += 1;
            match v {
                Val::Arr(xs) => stack.extend(xs.iter()),
                Val::Obj(kv) => stack.extend(kv.iter().map(|(_, x)| x)),
                _ => {}
            }
        }
        n
    }
    pub fn has_dup_keys(&self) -> bool {
        let mut stack: Vec<&Val> = vec![self];
        while let Some(v) = stack.pop() {
            match v {
                Val::Arr(xs) => stack.extend(xs.iter()),
                Val::Obj(kv) => {
                    let mut seen = std::collections::HashSet::new();
                    for (k, x) in kv {
                        if !seen.insert(k.as_str()) {
                            return true;
                        }
                        stack.push(x);
                    }
                }
                _ => {}
            }
        }
        false
    }

    /// jq-style duplicate collapse: first position, last value (recursively).
    pub fn collapse_dups(&self) -> Val {
        match self {
            Val::Arr(xs) => Val::Arr(xs.iter().map(|x| x.collapse_dups()).collect()),
            Val::Obj(kv) => {
                let mut out: Vec<(String, Val)> = Vec::new();
                for (k, v) in kv {
                    let c = v.collapse_dups();
                    if let Some(slot) = out.iter_mut().find(|(k2, _)| k2 == k) {
                        slot.1 = c;
                    } else {
                        out.push((k.clone(), c));
                    }
                }
                Val::Obj(out)
            }
            v => v.clone(),
        }
    }

    /// Tagged JSON form that preserves duplicates and number spelling, for the Python side:
    /// `["z"]`, `["b",true]`, `["n","1e3"]`, `["s","x"]`, `["a",[..]]`, `["o",[[k,v],..]]`.
    pub fn to_tagged(&self) -> Value {
        match self {
            Val::Null => json!(["z"]),
            Val::Bool(b) => json!(["b", b]),
            Val::Num(t) => json!(["n", t]),
            Val::Str(s) => json!(["s", s]),
            Val::Arr(xs) => json!(["a", xs.iter().map(|x| x.to_tagged()).collect::<Vec<_>>()]),
            Val::Obj(kv) => json!([
                "o",
                kv.iter()
                    .map(|(k, v)| json!([k, v.to_tagged()]))
                    .collect::<Vec<_>>()
            ]),
        }
    }

    pub fn from_tagged(v: &Value) -> Option<Val> {
        let a = v.as_array()?;
        Some(match a.first()?.as_str()? {
            "z" => Val::Null,
            "b" => Val::Bool(a.get(1)?.as_bool()?),
            "n" => Val::Num(a.get(1)?.as_str()?.to_string()),
            "s" => Val::Str(a.get(1)?.as_str()?.to_string()),
            "a" => Val::Arr(
                a.get(1)?
                    .as_array()?
                    .iter()
                    .map(Val::from_tagged)
                    .collect::<Option<Vec<_>>>()?,
            ),
            "o" => Val::Obj(
                a.get(1)?
                    .as_array()?
                    .iter()
                    .map(|kv| {
                        let kv = kv.as_array()?;
                        Some((kv.first()?.as_str()?.to_string(), Val::from_tagged(kv.get(1)?)?))
                    })
                    .collect::<Option<Vec<_>>>()?,
            ),
            _ => return None,
        })
    }

    /// Canonical compact JSON text (numbers by literal, minimal escaping). Duplicates kept.
    pub fn to_json_text(&self) -> String {
        let mut s = String::new();
        self.write_json(&mut s);
        s
    }
    fn write_json(&self, out: &mut String) {
        match self {
            Val::Null => out.push_str("null"),
            Val::Bool(b) => out.push_str(if *b { "true" } else { "false" }),
            Val::Num(t) => out.push_str(t),
            Val::Str(s) => write_json_string(s, out),
            Val::Arr(xs) => {
                out.push('[');
                for (i, x) in xs.iter().enumerate() {
                    if i > 0 {
                        out.push(',');
                    }
                    x.write_json(out);
                }
                out.push(']');
            }
            Val::Obj(kv) => {
                out.push('{');
                for (i, (k, v)) in kv.iter().enumerate() {
                    if i > 0 {
                        out.push(',');
                    }
                    write_json_string(k, out);
                    out.push(':');
                    v.write_json(out);
                }
                out.push('}');
            }
        }
    }

    /// Structural equality where numbers compare as doubles (bitwise except -0 == 0).
    pub fn eq_num_as_f64(&self, other: &Val) -> bool {
        match (self, other) {
            (Val::Num(a), Val::Num(b)) => match (a.parse::<f64>(), b.parse::<f64>()) {
                (Ok(x), Ok(y)) => x == y || (x.is_nan() && y.is_nan()),
                _ => a == b,
            },
            (Val::Arr(a), Val::Arr(b)) => {
                a.len() == b.len() && a.iter().zip(b).all(|(x, y)| x.eq_num_as_f64(y))
            }
            (Val::Obj(a), Val::Obj(b)) => {
                a.len() == b.len()
                    && a.iter()
                        .zip(b)
                        .all(|((ka, va), (kb, vb))| ka == kb && va.eq_num_as_f64(vb))
            }
            (a, b) => a == b,
        }
    }

    /// Convert from serde_json (objects in serde's order; numbers by serde's spelling).
    pub fn from_serde(v: &Value) -> Val {
        match v {
            Value::Null => Val::Null,
            Value::Bool(b) => Val::Bool(*b),
            Value::Number(n) => Val::Num(n.to_string()),
            Value::String(s) => Val::Str(s.clone()),
            Value::Array(xs) => Val::Arr(xs.iter().map(Val::from_serde).collect()),
            Value::Object(m) => Val::Obj(m.iter().map(|(k, v)| (k.clone(), Val::from_serde(v))).collect()),
        }
    }
}

pub fn write_json_string(s: &str, out: &mut String) {
    out.push('"');
    for ch in s.chars() {
        match ch {
            '"' => out.push_str("\\\""),
            '\\' => out.push_str("\\\\"),
            '\n' => out.push_str("\\n"),
            '\r' => out.push_str("\\r"),
            '\t' => out.push_str("\\t"),
            c if (c as u32) < 0x20 => out.push_str(&format!("\\u{:04x}", c as u32)),
            c => out.push(c),
        }
    }
    out.push('"');
}
