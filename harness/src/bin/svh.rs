//! svh <monitor> [--seed N] [--tier quick|thorough] [--scale native|tiny|small]
//!     [--shard i/n] [--replay FILE] [--out FILE] [--key value ...]
//! svh list
//!
//! Exit status: 0 = report written (violations are *data* in the report; the Python driver
//! decides), 2 = usage / harness error. A panic inside succinctly that a monitor did not
//! contain propagates as exit 101, which the driver treats as a harness error for library
//! monitors unless the monitor is a crash monitor run in subprocess mode.

use std::collections::BTreeMap;
use std::time::Instant;
use svh::report::{install_panic_hook, Ctx, Scale, Tier};

fn main() {
    let args: Vec<String> = std::env::args().collect();
    if args.len() < 2 {
        eprintln!("usage: svh <monitor|list> [options]");
        std::process::exit(2);
    }
    if args[1] == "list" {
        for (n, _) in svh::mon::registry() {
            println!("{n}");
        }
        return;
    }
    let mut seed = 1u64;
    let mut tier = Tier::Quick;
    let mut scale = Scale::Native;
    let mut shard = 0usize;
    let mut shards = 1usize;
    let mut replay = None;
    let mut out: Option<String> = None;
    let mut extra = BTreeMap::new();
    let mut i = 2;
    while i < args.len() {
        let a = args[i].as_str();
        let v = args.get(i + 1).cloned().unwrap_or_default();
        match a {
            "--seed" => seed = v.parse().unwrap_or(1),
            "--tier" => tier = if v == "thorough" { Tier::Thorough } else { Tier::Quick },
            "--scale" => {
                scale = match v.as_str() {
                    "tiny" => Scale::Tiny,
                    "small" => Scale::Small,
                    _ => Scale::Native,
                }
            }
            "--shard" => {
                let mut p = v.split('/');
                shard = p.next().and_then(|s| s.parse().ok()).unwrap_or(0);
                shards = p.next().and_then(|s| s.parse().ok()).unwrap_or(1);
            }
            "--replay" => {
                let txt = std::fs::read_to_string(&v).unwrap_or_else(|e| {
                    eprintln!("cannot read replay {v}: {e}");
                    std::process::exit(2)
                });
                let val: serde_json::Value = serde_json::from_str(&txt).unwrap_or_else(|e| {
                    eprintln!("bad replay json: {e}");
                    std::process::exit(2)
                });
                // replay files written by the driver wrap the monitor's object in {"replay": ...}
                replay = Some(val.get("replay").cloned().unwrap_or(val));
            }
            "--out" => out = Some(v),
            k if k.starts_with("--") => {
                extra.insert(k[2..].to_string(), v);
            }
            _ => {
                eprintln!("unexpected argument {a}");
                std::process::exit(2);
            }
        }
        i += 2;
    }
    let name = args[1].clone();
    if name.starts_with("gen-") {
        let res = match &out {
            Some(p) => {
                let mut f = std::io::BufWriter::new(std::fs::File::create(p).expect("create out"));
                svh::gen::emit::run(&name, seed, &extra, &mut f)
            }
            None => {
                let so = std::io::stdout();
                let mut l = std::io::BufWriter::new(so.lock());
                svh::gen::emit::run(&name, seed, &extra, &mut l)
            }
        };
        if let Err(e) = res {
            eprintln!("svh {name}: {e}");
            std::process::exit(2);
        }
        return;
    }
    let Some(f) = svh::mon::find(&name) else {
        eprintln!("unknown monitor {name}");
        std::process::exit(2);
    };
    let ctx = Ctx { seed, tier, scale, shard, shards, replay, args: extra, start: Instant::now() };
    install_panic_hook();
    // Big stack: generators and deep-document walks recurse.
    let stack = if scale == Scale::Tiny { 64 << 20 } else { 1 << 30 };
    let handle = std::thread::Builder::new()
        .stack_size(stack)
        .spawn(move || {
            let rep = f(&ctx);
            rep.to_json(&ctx)
        })
        .expect("spawn");
    let json = match handle.join() {
        Ok(j) => j,
        Err(_) => {
            eprintln!("svh: monitor {name} panicked outside a guarded call (harness error)");
            std::process::exit(3);
        }
    };
    let text = serde_json::to_string(&json).expect("serialize report");
    match out {
        Some(p) => std::fs::write(&p, text).expect("write report"),
        None => {
            println!("SVH-REPORT-BEGIN");
            println!("{text}");
            println!("SVH-REPORT-END");
        }
    }
}
