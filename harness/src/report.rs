//! Run context, verdict bookkeeping and the JSON report every monitor produces.
//!
//! A monitor never decides the process exit status itself: it records evaluations,
//! distinct non-trivial cases, branch counters, samples, violations (with a stable
//! signature and a replay object) and inconclusive cases. The Python driver merges the
//! reports of all legs (build configurations, sanitizer legs, shards), matches violation
//! signatures against /verif/known_findings.json, writes the evidence file and decides.

use serde_json::{json, Map, Value};
use std::cell::RefCell;
use std::collections::{BTreeMap, HashSet};
use std::panic::{catch_unwind, AssertUnwindSafe};
use std::time::Instant;

#[derive(Clone, Copy, Debug, PartialEq, Eq)]
pub enum Tier {
    Quick,
    Thorough,
}

#[derive(Clone, Copy, Debug, PartialEq, Eq)]
pub enum Scale {
    /// Native release build.
    Native,
    /// Interpreted (Miri) or otherwise very slow: a few hundred monitored operations.
    Tiny,
    /// ASan / valgrind: ~5-25x slower than native.
    Small,
}

pub struct Ctx {
    pub seed: u64,
    pub tier: Tier,
    pub scale: Scale,
    pub shard: usize,
    pub shards: usize,
    pub replay: Option<Value>,
    pub args: BTreeMap<String, String>,
    pub start: Instant,
}

impl Ctx {
    /// Workload size by tier/scale.
    pub fn n(&self, quick: usize, thorough: usize, tiny: usize) -> usize {
        match self.scale {
            Scale::Tiny => tiny,
            Scale::Small => match self.tier {
                Tier::Quick => (quick / 8).max(tiny),
                Tier::Thorough => (thorough / 8).max(tiny),
            },
            Scale::Native => match self.tier {
                Tier::Quick => quick,
                Tier::Thorough => thorough,
            },
        }
    }
    pub fn thorough(&self) -> bool {
        self.tier == Tier::Thorough
    }
    pub fn tiny(&self) -> bool {
        self.scale == Scale::Tiny
    }
    pub fn elapsed(&self) -> f64 {
        self.start.elapsed().as_secs_f64()
    }
    /// Seed for this shard (independent streams per shard).
    pub fn shard_seed(&self) -> u64 {
        crate::rng::mix(self.seed, self.shard as u64 + 1)
    }
    pub fn arg(&self, k: &str) -> Option<&str> {
        self.args.get(k).map(|s| s.as_str())
    }
}

#[derive(Clone, Debug)]
pub struct Violation {
    /// Stable signature: identifies the *kind* of failing call site / input class. Used to
    /// match known findings; must not contain random data.
    pub sig: String,
    pub msg: String,
    /// Everything needed to re-run just this case (`svh <mon> --replay file`).
    pub replay: Value,
}

pub struct Report {
    pub property: String,
    pub monitor: String,
    pub evaluations: u64,
    distinct: HashSet<u64>,
    pub counters: BTreeMap<String, u64>,
    pub samples: Vec<Value>,
    pub violations: Vec<Violation>,
    pub violations_total: u64,
    sig_counts: BTreeMap<String, u64>,
    pub inconclusive: Vec<Value>,
    pub inconclusive_total: u64,
    pub rule: String,
    pub notes: Vec<String>,
    /// (counter name, minimum) — a run that does not reach a minimum decided nothing.
    pub required: Vec<(String, u64)>,
    /// name -> digest, compared across build configurations by the driver.
    pub digests: BTreeMap<String, String>,
    pub exhaustive: Vec<String>,
    pub assumptions: Vec<String>,
    pub max_samples: usize,
}

impl Report {
    pub fn new(property: &str, monitor: &str) -> Self {
        Report {
            property: property.to_string(),
            monitor: monitor.to_string(),
            evaluations: 0,
            distinct: HashSet::new(),
            counters: BTreeMap::new(),
            samples: Vec::new(),
            violations: Vec::new(),
            violations_total: 0,
            sig_counts: BTreeMap::new(),
            inconclusive: Vec::new(),
            inconclusive_total: 0,
            rule: String::new(),
            notes: Vec::new(),
            required: Vec::new(),
            digests: BTreeMap::new(),
            exhaustive: Vec::new(),
            assumptions: Vec::new(),
            max_samples: 6,
        }
    }

    /// One oracle evaluation (a compared answer / executed case).
    #[inline]
    pub fn eval(&mut self) {
        self.evaluations += 1;
    }
    #[inline]
    pub fn evals(&mut self, n: u64) {
        self.evaluations += n;
    }
    /// Register a distinct non-trivial case by key (hash of the case's content).
    #[inline]
    pub fn nontrivial(&mut self, key: u64) {
        self.distinct.insert(key);
    }
    pub fn distinct_nontrivial(&self) -> u64 {
        self.distinct.len() as u64
    }
    #[inline]
    pub fn count(&mut self, name: &str) {
        *self.counters.entry(name.to_string()).or_insert(0) += 1;
    }
    #[inline]
    pub fn add(&mut self, name: &str, n: u64) {
        *self.counters.entry(name.to_string()).or_insert(0) += n;
    }
    pub fn get(&self, name: &str) -> u64 {
        self.counters.get(name).copied().unwrap_or(0)
    }
    pub fn require(&mut self, counter: &str, min: u64) {
        self.required.push((counter.to_string(), min));
    }
    pub fn sample(&mut self, v: Value) {
        if self.samples.len() < self.max_samples {
            self.samples.push(v);
        }
    }
    pub fn note(&mut self, s: impl Into<String>) {
        self.notes.push(s.into());
    }
    pub fn digest(&mut self, name: &str, d: u64) {
        self.digests.insert(name.to_string(), format!("{d:016x}"));
    }

    pub fn violation(&mut self, sig: impl Into<String>, msg: impl Into<String>, replay: Value) {
        let sig = sig.into();
        self.violations_total += 1;
        let c = self.sig_counts.entry(sig.clone()).or_insert(0);
        *c += 1;
        // keep at most 3 witnesses per signature and 60 overall
        if *c <= 3 && self.violations.len() < 60 {
            self.violations.push(Violation {
                sig,
                msg: msg.into(),
                replay,
            });
        }
    }

    /// True while fewer than three witnesses are stored for `sig` (building a replay object can be
    /// expensive; monitors on violation-heavy runs check this before rendering one).
    pub fn wants_witness(&self, sig: &str) -> bool {
        self.sig_counts.get(sig).copied().unwrap_or(0) < 3 && self.violations.len() < 60
    }

    /// Count a violation without storing a witness (use when `wants_witness` is false).
    pub fn violation_counted(&mut self, sig: &str) {
        self.violations_total += 1;
        *self.sig_counts.entry(sig.to_string()).or_insert(0) += 1;
    }

    /// Like `violation`, but message and replay are only rendered when a witness is still wanted.
    pub fn violation_lazy(&mut self, sig: impl Into<String>, f: impl FnOnce() -> (String, Value)) {
        let sig = sig.into();
        if self.wants_witness(&sig) {
            let (msg, replay) = f();
            self.violation(sig, msg, replay);
        } else {
            self.violation_counted(&sig);
        }
    }

    pub fn inconclusive(&mut self, what: Value) {
        self.inconclusive_total += 1;
        if self.inconclusive.len() < 20 {
            self.inconclusive.push(what);
        }
    }

    pub fn to_json(&self, ctx: &Ctx) -> Value {
        let mut sigc = Map::new();
        for (k, v) in &self.sig_counts {
            sigc.insert(k.clone(), json!(v));
        }
        json!({
            "property": self.property,
            "monitor": self.monitor,
            "seed": ctx.seed,
            "shard": ctx.shard,
            "shards": ctx.shards,
            "tier": match ctx.tier { Tier::Quick => "quick", Tier::Thorough => "thorough" },
            "scale": match ctx.scale { Scale::Native => "native", Scale::Tiny => "tiny", Scale::Small => "small" },
            "evaluations": self.evaluations,
            "distinct_nontrivial": self.distinct.len(),
            "distinct_keys": self.distinct.iter().take(50_000).map(|k| format!("{k:x}")).collect::<Vec<_>>(),
            "rule": self.rule,
            "counters": self.counters,
            "required": self.required.iter().map(|(k, m)| json!([k, m])).collect::<Vec<_>>(),
            "samples": self.samples,
            "violations_total": self.violations_total,
            "violation_sig_counts": Value::Object(sigc),
            "violations": self.violations.iter().map(|v| json!({"sig": v.sig, "msg": v.msg, "replay": v.replay})).collect::<Vec<_>>(),
            "inconclusive_total": self.inconclusive_total,
            "inconclusive": self.inconclusive,
            "notes": self.notes,
            "digests": self.digests,
            "exhaustive": self.exhaustive,
            "assumptions": self.assumptions,
            "wall_s": ctx.elapsed(),
        })
    }
}

thread_local! {
    static LAST_PANIC: RefCell<Option<String>> = const { RefCell::new(None) };
}

/// Install a silent panic hook that records the message + location (call once).
pub fn install_panic_hook() {
    std::panic::set_hook(Box::new(|info| {
        let msg = if let Some(s) = info.payload().downcast_ref::<&str>() {
            s.to_string()
        } else if let Some(s) = info.payload().downcast_ref::<String>() {
            s.clone()
        } else {
            "<non-string panic>".to_string()
        };
        let loc = info
            .location()
            .map(|l| format!("{}:{}", l.file(), l.line()))
            .unwrap_or_default();
        LAST_PANIC.with(|p| *p.borrow_mut() = Some(format!("{msg} @ {loc}")));
    }));
}

/// Run `f`, turning a panic into `Err(message @ file:line)`.
pub fn catch<R>(f: impl FnOnce() -> R) -> Result<R, String> {
    match catch_unwind(AssertUnwindSafe(f)) {
        Ok(r) => Ok(r),
        Err(_) => Err(LAST_PANIC
            .with(|p| p.borrow_mut().take())
            .unwrap_or_else(|| "<panic>".into())),
    }
}

/// Strip the variable parts of a panic message so it can be used in a signature:
/// keeps `file:line` and the message with digits collapsed.
pub fn panic_sig(msg: &str) -> String {
    let mut out = String::new();
    let mut last_digit = false;
    let (m, loc) = match msg.rfind(" @ ") {
        Some(i) => (&msg[..i], &msg[i + 3..]),
        None => (msg, ""),
    };
    for ch in m.chars().take(80) {
        if ch.is_ascii_digit() {
            if !last_digit {
                out.push('#');
            }
            last_digit = true;
        } else {
            last_digit = false;
            out.push(ch);
        }
    }
    // location: strip absolute prefix up to "src/"
    let loc = match loc.find("src/") {
        Some(i) => &loc[i..],
        None => loc,
    };
    format!("{out} @ {loc}")
}

/// Hex helper for byte inputs in replays/samples (bounded).
pub fn hex(bytes: &[u8]) -> String {
    let mut s = String::with_capacity(bytes.len() * 2);
    for b in bytes {
        s.push_str(&format!("{b:02x}"));
    }
    s
}

pub fn unhex(s: &str) -> Vec<u8> {
    (0..s.len() / 2)
        .map(|i| u8::from_str_radix(&s[2 * i..2 * i + 2], 16).unwrap_or(0))
        .collect()
}

/// Bounded, readable rendering of a byte string for samples.
pub fn show_bytes(bytes: &[u8]) -> Value {
    let cut = &bytes[..bytes.len().min(160)];
    json!({
        "len": bytes.len(),
        "lossy": String::from_utf8_lossy(cut),
        "hex": hex(&bytes[..bytes.len().min(96)]),
    })
}
