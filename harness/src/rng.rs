//! Deterministic PRNG (SplitMix64-seeded xoshiro256**). No external crates so the
//! same streams are produced natively, under Miri and under ASan.

#[derive(Clone, Debug)]
pub struct Rng {
    s: [u64; 4],
}

fn splitmix(x: &mut u64) -> u64 {
    *x = x.wrapping_add(0x9E37_79B9_7F4A_7C15);
    let mut z = *x;
    z = (z ^ (z >> 30)).wrapping_mul(0xBF58_476D_1CE4_E5B9);
    z = (z ^ (z >> 27)).wrapping_mul(0x94D0_49BB_1331_11EB);
    z ^ (z >> 31)
}

impl Rng {
    pub fn new(seed: u64) -> Self {
        let mut x = seed ^ 0x5EED_5EED_5EED_5EED;
        let s = [
            splitmix(&mut x),
            splitmix(&mut x),
            splitmix(&mut x),
            splitmix(&mut x),
        ];
        Rng { s }
    }

    /// Independent child stream: `Rng::new(seed).fork(tag)`.
    pub fn fork(&self, tag: u64) -> Rng {
        let mut x = self.s[0] ^ tag.wrapping_mul(0xA24B_AED4_963E_E407) ^ self.s[3].rotate_left(17);
        let s = [
            splitmix(&mut x),
            splitmix(&mut x),
            splitmix(&mut x),
            splitmix(&mut x),
        ];
        Rng { s }
    }

    pub fn u64(&mut self) -> u64 {
        let r = self.s[1].wrapping_mul(5).rotate_left(7).wrapping_mul(9);
        let t = self.s[1] << 17;
        self.s[2] ^= self.s[0];
        self.s[3] ^= self.s[1];
        self.s[1] ^= self.s[2];
        self.s[0] ^= self.s[3];
        self.s[2] ^= t;
        self.s[3] = self.s[3].rotate_left(45);
        r
    }

    pub fn u32(&mut self) -> u32 {
        (self.u64() >> 32) as u32
    }

    /// Uniform in `0..n` (`n == 0` gives 0).
    pub fn below(&mut self, n: usize) -> usize {
        if n == 0 {
            return 0;
        }
        ((self.u64() as u128 * n as u128) >> 64) as usize
    }

    /// Uniform in `lo..=hi`.
    pub fn range(&mut self, lo: usize, hi: usize) -> usize {
        debug_assert!(lo <= hi);
        lo + self.below(hi - lo + 1)
    }

    pub fn range_i64(&mut self, lo: i64, hi: i64) -> i64 {
        let span = (hi as i128 - lo as i128 + 1) as u128;
        let r = (self.u64() as u128 * span) >> 64;
        (lo as i128 + r as i128) as i64
    }

    /// True with probability `num/den`.
    pub fn chance(&mut self, num: u32, den: u32) -> bool {
        (self.below(den as usize) as u32) < num
    }

    pub fn bool(&mut self) -> bool {
        self.u64() & 1 == 1
    }

    pub fn pick<'a, T>(&mut self, xs: &'a [T]) -> &'a T {
        &xs[self.below(xs.len())]
    }

    pub fn byte(&mut self) -> u8 {
        (self.u64() >> 56) as u8
    }

    pub fn bytes(&mut self, n: usize) -> Vec<u8> {
        (0..n).map(|_| self.byte()).collect()
    }

    /// A length biased towards small values but with a tail up to `max`.
    pub fn small_len(&mut self, max: usize) -> usize {
        match self.below(10) {
            0 => 0,
            1..=5 => self.below(max.min(8) + 1),
            6..=8 => self.below(max.min(64) + 1),
            _ => self.below(max + 1),
        }
    }

    pub fn shuffle<T>(&mut self, xs: &mut [T]) {
        for i in (1..xs.len()).rev() {
            let j = self.below(i + 1);
            xs.swap(i, j);
        }
    }
}

/// FNV-1a, used for distinct-case keys and digests.
pub fn fnv(bytes: &[u8]) -> u64 {
    let mut h = 0xcbf2_9ce4_8422_2325u64;
    for &b in bytes {
        h ^= b as u64;
        h = h.wrapping_mul(0x0000_0100_0000_01B3);
    }
    h
}

pub fn fnv_words(words: &[u64]) -> u64 {
    let mut h = 0xcbf2_9ce4_8422_2325u64;
    for &w in words {
        for b in w.to_le_bytes() {
            h ^= b as u64;
            h = h.wrapping_mul(0x0000_0100_0000_01B3);
        }
    }
    h
}

pub fn mix(a: u64, b: u64) -> u64 {
    let mut x = a ^ b.wrapping_mul(0x9E37_79B9_7F4A_7C15);
    splitmix(&mut x)
}
