//! svh — succinctly verification harness: generators, reference models and runtime monitors.
#![allow(clippy::needless_range_loop, clippy::too_many_arguments, clippy::type_complexity)]

pub mod gen;
pub mod model;
pub mod mon;
pub mod report;
pub mod rng;
pub mod val;
