//! C01 — BitVec access / rank / select / counts are exact.
//!
//! Oracle: `model::bits` (bit-at-a-time over the first `len` bits). Every G-BITS case is built
//! through `BitVec::with_config` at many select sample rates and in four storage variants
//! (clean, stray bits above `len` in the last used word, whole surplus words after it, both);
//! every answer of every build must equal the model's answer for the *clean* first `len` bits.
//! That one comparison covers the three claims of the property: exactness, no influence of
//! anything stored past `len`, independence of the sample rate. Independence of the popcount
//! strategy is decided by the driver comparing `digests.answers` of the default / `simd` /
//! `portable-popcount` builds (and by each of them being compared with the same model).
//!
//! Branch counters are derived from the data: for a select1(k) at rate r the scan starts in
//! the word holding one number floor(k/r)*r and ends in the word holding one number k, so
//! the number of words it crosses — and with it prologue / block loop / tail — is known.

use crate::gen::bits::{self as gb, BitsCase, Stray};
use crate::model::bits as mb;
use crate::report::{catch, panic_sig, Ctx, Report};
use crate::rng::{fnv_words, mix, Rng};
use serde_json::{json, Value};
use succinctly::{BitVec, Config, RankSelect};

/// The rates the design names; random rates in 1..=4096 are added per case.
const RATES: &[u32] = &[1, 2, 3, 7, 64, 255, 256, 257, 1000, 4096];
const HUGE: &[usize] = &[usize::MAX, usize::MAX - 1, 1 << 32, (1 << 32) - 1, 1 << 63, (1 << 63) - 1, u32::MAX as usize + 1];

/// Words a select scan handles one by one before the 8-word block loop starts, and the
/// block size (public constant `succinctly::bits::BLOCK`); used only to *classify* queries.
const SCAN_PROLOGUE: usize = 8;

#[derive(Default)]
struct Local {
    c: std::collections::BTreeMap<&'static str, u64>,
}
impl Local {
    #[inline]
    fn hit(&mut self, k: &'static str) {
        *self.c.entry(k).or_insert(0) += 1;
    }
    fn flush(self, rep: &mut Report) {
        for (k, v) in self.c {
            rep.add(k, v);
        }
    }
}

/// Fast per-query counters (a BTreeMap lookup per answer would dominate the run time).
#[derive(Default)]
struct Hot {
    scan_prologue: u64,
    scan_block_loop: u64,
    scan_skipped_block: u64,
    scan_skipped_8_blocks: u64,
    scan_tail: u64,
    scan_from_sample_not_at_k: u64,
    rank_block_edge: u64,
    rank_past_len: u64,
    select_none: u64,
    select0_some: u64,
    get_in_range: u64,
}

struct Queries {
    /// positions for get / rank1 / rank0 (may exceed len)
    pos: Vec<usize>,
    /// ranks for select1 / select0 (rate-independent part)
    ks1: Vec<usize>,
    ks0: Vec<usize>,
    full: bool,
}

fn full_queries(tab: &mb::BitTable) -> Queries {
    let mut pos: Vec<usize> = (0..=tab.len + 130).collect();
    pos.extend_from_slice(HUGE);
    let mut ks1: Vec<usize> = (0..=tab.ones() + 3).collect();
    ks1.extend_from_slice(HUGE);
    let mut ks0: Vec<usize> = (0..=tab.zeros() + 3).collect();
    ks0.extend_from_slice(HUGE);
    Queries { pos, ks1, ks0, full: true }
}

fn sampled_queries(r: &mut Rng, words: &[u64], tab: &mb::BitTable, n: usize) -> Queries {
    let len = tab.len;
    let mut pos = Vec::new();
    let mut ks1 = Vec::new();
    let mut ks0 = Vec::new();
    for _ in 0..n {
        pos.push(r.below(len + 1));
        ks1.push(r.below(tab.ones() + 1));
        ks0.push(r.below(tab.zeros() + 1));
    }
    // 64- and 512-bit edges
    for _ in 0..n / 2 {
        let p = r.below(len / 512 + 1) * 512;
        for d in [-1i64, 0, 1] {
            pos.push((p as i64 + d).max(0) as usize);
        }
        let p = r.below(len / 64 + 1) * 64;
        for d in [-1i64, 0, 1, 63] {
            pos.push((p as i64 + d).max(0) as usize);
        }
    }
    // run boundaries: words that differ from their predecessor
    let mut edges: Vec<usize> = (1..words.len()).filter(|&i| words[i] != words[i - 1] && (words[i] == 0 || words[i - 1] == 0 || words[i] == u64::MAX || words[i - 1] == u64::MAX)).collect();
    r.shuffle(&mut edges);
    edges.truncate(n / 2);
    for w in edges {
        for d in 0..4usize {
            let p = (w * 64 + d).saturating_sub(2).min(len);
            pos.push(p);
            let k = tab.rank1(p);
            ks1.extend_from_slice(&[k.saturating_sub(1), k, k + 1]);
            let z = tab.rank0(p);
            ks0.extend_from_slice(&[z.saturating_sub(1), z, z + 1]);
        }
    }
    for d in 0..140usize {
        pos.push((len + d).saturating_sub(4));
    }
    for d in 0..8usize {
        ks1.push((tab.ones() + d).saturating_sub(4));
        ks0.push((tab.zeros() + d).saturating_sub(4));
        ks1.push(d);
        ks0.push(d);
    }
    pos.extend_from_slice(HUGE);
    ks1.extend_from_slice(HUGE);
    ks0.extend_from_slice(HUGE);
    Queries { pos, ks1, ks0, full: false }
}

#[inline]
fn dig(h: &mut u64, x: u64) {
    *h = (*h ^ x).wrapping_mul(0x0000_0100_0000_01B3).rotate_left(23);
}
#[inline]
fn opt(x: Option<usize>) -> u64 {
    match x {
        Some(p) => p as u64,
        None => u64::MAX - 7,
    }
}

struct Plan {
    rate: u32,
    stray: Stray,
    rank_sweep: bool,
    select0_sweep: bool,
    via_clone: bool,
    oob_get: bool,
}

/// Check one build. `input` are the words handed to the library (with strays); `tab` is the
/// model of the clean first `len` bits. Returns the number of violations recorded.
fn check_build(
    rep: &mut Report,
    hot: &mut Hot,
    h: &mut u64,
    input: &[u64],
    len: usize,
    tab: &mb::BitTable,
    q: &Queries,
    plan: &Plan,
) -> u32 {
    let tag = plan.stray.tag();
    let rate = plan.rate;
    let mut bad = 0u32;
    let replay = json!({"kind": "bitvec", "words_rle": gb::words_to_rle(input), "len": len, "rate": rate, "stray": tag});
    macro_rules! fail {
        ($op:expr, $class:expr, $($arg:tt)*) => {{
            bad += 1;
            rep.violation(format!("C01:{}:{}:{}", $op, tag, $class), format!($($arg)*), replay.clone());
            if bad >= 4 {
                return bad;
            }
        }};
    }
    let built = catch(|| {
        let bv = BitVec::with_config(input.to_vec(), len, Config { select_sample_rate: rate });
        if plan.via_clone {
            let c = bv.clone();
            drop(bv);
            c
        } else {
            bv
        }
    });
    let bv = match built {
        Ok(b) => b,
        Err(p) => {
            fail!("with_config", format!("panic:{}", panic_sig(&p)), "construction panicked: {p} (len {len}, {} words, rate {rate})", input.len());
            return bad;
        }
    };
    rep.eval();
    if bv.len() != len || bv.is_empty() != (len == 0) {
        fail!("len", "mismatch", "len() = {}, is_empty() = {}, want len {len}", bv.len(), bv.is_empty());
    }
    rep.eval();
    dig(h, bv.count_ones() as u64);
    if bv.count_ones() != tab.ones() {
        fail!("count_ones", "mismatch", "count_ones() = {}, model {} (len {len}, {} words)", bv.count_ones(), tab.ones(), input.len());
    }
    rep.eval();
    match catch(|| bv.count_zeros()) {
        Ok(z) => {
            dig(h, z as u64);
            if z != tab.zeros() {
                fail!("count_zeros", "mismatch", "count_zeros() = {z}, model {} (len {len})", tab.zeros());
            }
        }
        Err(p) => fail!("count_zeros", format!("panic:{}", panic_sig(&p)), "count_zeros panicked: {p}"),
    }

    // ---- select1: every build (this is where the sample rate matters)
    let wl = input.len();
    let rate_us = rate.max(1) as usize;
    let mut rate_ks: Vec<usize> = Vec::new();
    if !q.full {
        // around every (sampled) multiple of the rate
        let ones = tab.ones();
        let groups = ones / rate_us + 1;
        let step = (groups / 600).max(1);
        let mut g = 0usize;
        while g <= groups {
            let k = g * rate_us;
            rate_ks.extend_from_slice(&[k.saturating_sub(1), k, k + 1, k + rate_us / 2]);
            g += step;
        }
    }
    for &k in q.ks1.iter().chain(rate_ks.iter()) {
        rep.eval();
        let want = tab.select1(k);
        match want {
            Some(p) => {
                let start = tab.ones_pos[(k / rate_us) * rate_us] as usize / 64;
                let target = p / 64;
                let d = target - start;
                if k % rate_us != 0 {
                    hot.scan_from_sample_not_at_k += 1;
                }
                if d < SCAN_PROLOGUE {
                    hot.scan_prologue += 1;
                } else {
                    let after = start + SCAN_PROLOGUE;
                    let blocks_end = after + ((wl - after) / succinctly::bits::BLOCK) * succinctly::bits::BLOCK;
                    if target >= blocks_end {
                        hot.scan_tail += 1;
                    } else {
                        hot.scan_block_loop += 1;
                    }
                    if d >= SCAN_PROLOGUE + succinctly::bits::BLOCK {
                        hot.scan_skipped_block += 1;
                    }
                    if d >= SCAN_PROLOGUE + 8 * succinctly::bits::BLOCK {
                        hot.scan_skipped_8_blocks += 1;
                    }
                }
            }
            None => hot.select_none += 1,
        }
        match catch(|| bv.select1(k)) {
            Ok(got) => {
                dig(h, opt(got));
                if got != want {
                    fail!("select1", "mismatch", "select1({k}) = {got:?}, model {want:?} (len {len}, ones {}, {} words, rate {rate})", tab.ones(), wl);
                }
            }
            Err(p) => fail!("select1", format!("panic:{}", panic_sig(&p)), "select1({k}) panicked: {p} (len {len}, rate {rate})"),
        }
    }

    // ---- get / rank1 / rank0
    let stride = if plan.rank_sweep { 1 } else { 7 };
    let mut i = 0usize;
    while i < q.pos.len() {
        let p = q.pos[i];
        i += stride;
        let w1 = tab.rank1(p);
        let w0 = tab.rank0(p);
        if p >= len {
            hot.rank_past_len += 1;
        } else if p % 512 == 0 || p % 512 == 511 {
            hot.rank_block_edge += 1;
        }
        rep.evals(2);
        match catch(|| (bv.rank1(p), bv.rank0(p))) {
            Ok((g1, g0)) => {
                dig(h, g1 as u64);
                dig(h, g0 as u64);
                if g1 != w1 {
                    let class = if p >= len { "mismatch_past_len" } else { "mismatch" };
                    fail!("rank1", class, "rank1({p}) = {g1}, model {w1} (len {len}, {} words)", wl);
                }
                if g0 != w0 {
                    let class = if p >= len { "mismatch_past_len" } else { "mismatch" };
                    fail!("rank0", class, "rank0({p}) = {g0}, model {w0} (len {len}, {} words)", wl);
                }
            }
            Err(e) => fail!("rank", format!("panic:{}", panic_sig(&e)), "rank1/rank0({p}) panicked: {e} (len {len})"),
        }
        if let Some(want) = tab.get(p) {
            rep.eval();
            hot.get_in_range += 1;
            match catch(|| bv.get(p)) {
                Ok(g) => {
                    dig(h, g as u64);
                    if g != want {
                        fail!("get", "mismatch", "get({p}) = {g}, model {want} (len {len})");
                    }
                }
                Err(e) => fail!("get", format!("panic:{}", panic_sig(&e)), "get({p}) panicked in range: {e} (len {len})"),
            }
        }
    }
    // documented panic: get(i >= len)
    if plan.oob_get {
        for p in [len, len + 1, len + 63, len + 64, (len / 64 + 1) * 64, wl * 64, wl * 64 + 1, usize::MAX] {
            if p < len {
                continue;
            }
            rep.eval();
            if let Ok(g) = catch(|| bv.get(p)) {
                fail!("get", "out_of_range_no_panic", "get({p}) returned {g} but the API documents a panic for i >= len ({len}); {} words", wl);
            }
        }
    }

    // ---- select0
    let stride0 = if plan.select0_sweep { 1 } else { 11 };
    let mut i = 0usize;
    while i < q.ks0.len() {
        let k = q.ks0[i];
        i += stride0;
        rep.eval();
        let want = tab.select0(k);
        if want.is_some() {
            hot.select0_some += 1;
        }
        match catch(|| bv.select0(k)) {
            Ok(got) => {
                dig(h, opt(got));
                if got != want {
                    fail!("select0", "mismatch", "select0({k}) = {got:?}, model {want:?} (len {len}, zeros {}, {} words)", tab.zeros(), wl);
                }
            }
            Err(e) => fail!("select0", format!("panic:{}", panic_sig(&e)), "select0({k}) panicked: {e} (len {len})"),
        }
    }
    bad
}

/// All builds of one clean case.
fn check_case(rep: &mut Report, hot: &mut Hot, loc: &mut Local, h: &mut u64, r: &mut Rng, case: &BitsCase, sampled: Option<usize>, tiny: bool) {
    let len = case.len;
    let tab = mb::BitTable::build(&case.words, len);
    let q = match sampled {
        None => full_queries(&tab),
        Some(n) => sampled_queries(r, &case.words, &tab, n),
    };
    let mut rates: Vec<u32> = RATES.to_vec();
    rates.push(1 + r.below(4096) as u32);
    rates.push(1 + r.below(300) as u32);
    if tiny {
        r.shuffle(&mut rates);
        rates.truncate(3);
    }
    let sweep_a = r.below(rates.len());
    let sweep_b = r.below(rates.len());
    for (i, &rate) in rates.iter().enumerate() {
        let plan = Plan {
            rate,
            stray: Stray::Clean,
            rank_sweep: i == sweep_a || i == sweep_b,
            select0_sweep: i == sweep_a,
            via_clone: i % 4 == 1,
            oob_get: i == sweep_a,
        };
        loc.hit("build.clean");
        check_build(rep, hot, h, &case.words, len, &tab, &q, &plan);
    }
    for stray in [Stray::LastWord, Stray::SurplusWords, Stray::Both] {
        let reps = if tiny { 1 } else { 3 };
        for j in 0..reps {
            let Some(input) = gb::with_stray(r, case, stray) else { continue };
            let rate = if j == 0 { *r.pick(RATES) } else { 1 + r.below(4096) as u32 };
            let plan = Plan { rate, stray, rank_sweep: true, select0_sweep: j == 0, via_clone: j == 2, oob_get: j == 0 };
            loc.hit(match stray {
                Stray::LastWord => "build.stray_last_word",
                Stray::SurplusWords => "build.surplus_words",
                _ => "build.stray_last_word+surplus_words",
            });
            check_build(rep, hot, h, &input, len, &tab, &q, &plan);
        }
    }
    // default-config constructor (rate 256) must agree as well
    {
        rep.eval();
        let words = case.words.clone();
        match catch(|| {
            let bv = BitVec::from_words(words, len);
            (bv.count_ones(), bv.select1(tab.ones() / 2), bv.rank1(len / 2), bv.select0(tab.zeros() / 2))
        }) {
            Ok(got) => {
                let want = (tab.ones(), tab.select1(tab.ones() / 2), tab.rank1(len / 2), tab.select0(tab.zeros() / 2));
                dig(h, opt(got.1));
                if got != want {
                    rep.violation(
                        "C01:from_words:clean:mismatch",
                        format!("from_words answers {got:?}, model {want:?}"),
                        json!({"kind": "bitvec", "words_rle": gb::words_to_rle(&case.words), "len": len, "rate": 256, "stray": "clean"}),
                    );
                }
            }
            Err(p) => rep.violation(
                format!("C01:from_words:clean:panic:{}", panic_sig(&p)),
                p,
                json!({"kind": "bitvec", "words_rle": gb::words_to_rle(&case.words), "len": len, "rate": 256, "stray": "clean"}),
            ),
        }
    }
    // documented panic: len > 64 * words
    if r.chance(1, 8) {
        rep.eval();
        let words = case.words.clone();
        let over = words.len() * 64 + 1 + r.below(3);
        if catch(|| BitVec::with_config(words, over, Config::default()).len()).is_ok() {
            rep.violation(
                "C01:with_config:len_over_capacity:no_panic",
                format!("with_config accepted len {over} for {} words (documented to panic)", case.words.len()),
                json!({"kind": "over_capacity", "words_rle": gb::words_to_rle(&case.words), "len": over}),
            );
        }
        loc.hit("ctor.len_over_capacity_panics");
    }
    // bookkeeping
    loc.hit(match case.class {
        "uniform" => "class.uniform",
        "density" => "class.density",
        "density_inverted" => "class.density_inverted",
        "runs" => "class.runs",
        "runs_long" => "class.runs_long",
        "single_bit" => "class.single_bit",
        "constant" => "class.constant",
        _ => "class.word_classes",
    });
    match len {
        0 => loc.hit("len.0"),
        1 => loc.hit("len.1"),
        63 | 64 | 65 => loc.hit("len.63_64_65"),
        511..=513 => loc.hit("len.511_512_513"),
        _ => {}
    }
    if len % 64 == 0 {
        loc.hit("len.word_aligned");
    }
    if len >= 65 && tab.ones() > 0 && tab.zeros() > 0 {
        rep.nontrivial(mix(fnv_words(&case.words), len as u64));
    }
}

fn stray_from_tag(t: &str) -> Stray {
    Stray::ALL.into_iter().find(|s| s.tag() == t).unwrap_or(Stray::Clean)
}

fn replay(rep: &mut Report, rp: &Value) {
    let input = gb::words_from_rle(&rp["words_rle"]);
    let len = rp["len"].as_u64().unwrap_or(0) as usize;
    if rp["kind"] == "over_capacity" {
        rep.eval();
        let w = input.clone();
        if catch(|| BitVec::with_config(w, len, Config::default()).len()).is_ok() {
            rep.violation("C01:with_config:len_over_capacity:no_panic", "accepted", rp.clone());
        }
        return;
    }
    if len > input.len() * 64 {
        rep.note("replay: len exceeds the words given");
        return;
    }
    let rate = rp["rate"].as_u64().unwrap_or(256) as u32;
    let stray = stray_from_tag(rp["stray"].as_str().unwrap_or("clean"));
    let clean = mb::canonical(&input, len);
    let tab = mb::BitTable::build(&clean, len);
    let q = if len <= 1 << 16 {
        full_queries(&tab)
    } else {
        sampled_queries(&mut Rng::new(1), &clean, &tab, 4000)
    };
    let mut hot = Hot::default();
    let mut h = 0u64;
    let plan = Plan { rate, stray, rank_sweep: true, select0_sweep: true, via_clone: false, oob_get: true };
    check_build(rep, &mut hot, &mut h, &input, len, &tab, &q, &plan);
}

/// The tabulated model against the plain bit loops (harness self-check; a failure here is a
/// harness error, not a finding).
fn model_self_check(r: &mut Rng, n: usize, max_bits: usize) {
    for _ in 0..n {
        let c = gb::gen_case(r, max_bits);
        let t = mb::BitTable::build(&c.words, c.len);
        assert_eq!(mb::canonical(&c.words, c.len), c.words, "generator produced an unclean case");
        for p in 0..c.len + 70 {
            assert_eq!(t.rank1(p), mb::rank1(&c.words, c.len, p), "model self-check rank1");
            assert_eq!(t.rank0(p), mb::rank0(&c.words, c.len, p), "model self-check rank0");
            assert_eq!(t.select1(p), mb::select1(&c.words, c.len, p), "model self-check select1");
            assert_eq!(t.select0(p), mb::select0(&c.words, c.len, p), "model self-check select0");
            if p < c.len {
                assert_eq!(t.get(p), Some(mb::bit(&c.words, p)));
            }
        }
        for kind in Stray::ALL {
            if let Some(w) = gb::with_stray(r, &c, kind) {
                assert_eq!(mb::canonical(&w, c.len), c.words, "stray variant changed the first len bits");
                match kind {
                    Stray::Clean => assert_eq!(w, c.words),
                    Stray::LastWord => assert!(w.len() == c.words.len() && w != c.words),
                    Stray::SurplusWords => assert!(w.len() > c.words.len() && w[..c.words.len()] == c.words[..] && w[c.words.len()..].iter().any(|&x| x != 0)),
                    Stray::Both => assert!(w.len() > c.words.len() && w[..c.words.len()] != c.words[..]),
                }
            }
        }
    }
}

pub fn run(ctx: &Ctx) -> Report {
    let mut rep = Report::new("C01", "c01");
    rep.rule = "case = clean G-BITS vector (words, len), checked in ~21 builds (12 sample rates clean + 3x3 \
                hostile storage variants) against bit-at-a-time answers of the first len bits; \
                non-trivial = len >= 65 with at least one 1 and one 0; distinct by hash(clean words, len)"
        .into();
    rep.assumptions.push("BitTable (one bit-at-a-time pass) is the oracle; it is cross-checked against the plain per-query bit loops on small cases at start-up".into());
    if let Some(rp) = &ctx.replay {
        replay(&mut rep, rp);
        return rep;
    }
    let mut r = Rng::new(ctx.shard_seed());
    model_self_check(&mut r, ctx.n(150, 600, 1), if ctx.tiny() { 130 } else { 400 });

    let mut hot = Hot::default();
    let mut loc = Local::default();
    let mut h = 0u64;

    // 1. edge lengths, each at least once, every content class by chance
    let edge: &[usize] = if ctx.tiny() { &[0, 1, 64, 65] } else { gb::EDGE_LENS };
    for &len in edge {
        let reps = ctx.n(4, 30, 1);
        for _ in 0..reps {
            let c = gb::gen_case_len(&mut r, len);
            check_case(&mut rep, &mut hot, &mut loc, &mut h, &mut r, &c, None, ctx.tiny());
        }
    }
    // 2. small vectors, exhaustive queries
    let small = ctx.n(1200, 12000, 2);
    let max_small = if ctx.tiny() { 200 } else { 8192 };
    for i in 0..small {
        let c = gb::gen_case(&mut r, max_small);
        if i < 3 {
            rep.sample(json!({"len": c.len, "class": c.class, "words": c.words.len(),
                "first_words": c.words.iter().take(4).map(|w| format!("{w:016x}")).collect::<Vec<_>>()}));
        }
        check_case(&mut rep, &mut hot, &mut loc, &mut h, &mut r, &c, None, ctx.tiny());
    }
    // 3. run-structured vectors sized so that scans cross many blocks; exhaustive up to 64 Kbit
    let mid = ctx.n(100, 800, 1);
    for _ in 0..mid {
        let words = if ctx.tiny() { 28 } else { *r.pick(&[24usize, 40, 100, 300, 700, 1000]) };
        let c = gb::gen_long_runs(&mut r, words);
        // interpreted runs sample the queries of this one larger vector
        let sampled = if ctx.tiny() { Some(40) } else { None };
        check_case(&mut rep, &mut hot, &mut loc, &mut h, &mut r, &c, sampled, ctx.tiny());
    }
    // 3b. constructed: one bit in word 0 and a few bits in a distant word, so that select1 at a
    // coarse rate has to skip whole 8-word blocks (ending in the block loop or in the tail)
    for &(far, total) in &[(16usize, 17usize), (17, 26), (24, 25), (31, 40), (39, 41), (23, 48)] {
        if ctx.tiny() && far > 24 {
            continue;
        }
        let mut words = vec![0u64; total];
        words[0] = 1u64 << r.below(64);
        words[far] = r.u64() | 1;
        if total > far + 1 {
            words[total - 1] = 1u64 << r.below(64);
        }
        let c = BitsCase { words, len: total * 64 - r.below(3), class: "runs" };
        let c = BitsCase { words: mb::canonical(&c.words, c.len), ..c };
        loc.hit("case.constructed_distant_bits");
        let sampled = if ctx.tiny() { Some(6) } else { None };
        check_case(&mut rep, &mut hot, &mut loc, &mut h, &mut r, &c, sampled, ctx.tiny());
    }
    // 4. large vectors, sampled queries (every kind of boundary + random)
    let big = ctx.n(20, 160, 0);
    for i in 0..big {
        let c = if i % 3 == 2 {
            let max = if ctx.thorough() { 1 << 20 } else { 1 << 18 };
            let l = max / 2 + r.below(max / 2);
            let mut c = gb::gen_case_len(&mut r, l);
            if c.class == "constant" || c.class == "single_bit" {
                c = gb::gen_long_runs(&mut r, max / 64);
            }
            c
        } else {
            let words = if ctx.thorough() { *r.pick(&[5000usize, 20_000, 65_536]) } else { *r.pick(&[3000usize, 9000, 20_000]) };
            gb::gen_long_runs(&mut r, words)
        };
        if i == 0 {
            rep.sample(json!({"len": c.len, "class": c.class, "words": c.words.len(), "ones": c.words.iter().map(|w| w.count_ones() as u64).sum::<u64>()}));
        }
        loc.hit("case.large_sampled");
        check_case(&mut rep, &mut hot, &mut loc, &mut h, &mut r, &c, Some(2500), false);
    }
    // 5. the empty vector from `new()` / `default()`
    {
        let tab = mb::BitTable::build(&[], 0);
        for bv in [BitVec::new(), BitVec::default()] {
            for k in [0usize, 1, 64, usize::MAX] {
                rep.evals(4);
                let got = catch(|| (bv.rank1(k), bv.rank0(k), bv.select1(k), bv.select0(k)));
                let want = (tab.rank1(k), tab.rank0(k), tab.select1(k), tab.select0(k));
                if got.as_ref().ok() != Some(&want) {
                    rep.violation("C01:new:empty:mismatch", format!("empty BitVec answered {got:?} for argument {k}, model {want:?}"), json!({"kind": "bitvec", "words_rle": [], "len": 0, "rate": 256, "stray": "clean"}));
                }
            }
            rep.eval();
            if bv.count_ones() != 0 || bv.count_zeros() != 0 || !bv.is_empty() || catch(|| bv.get(0)).is_ok() {
                rep.violation("C01:new:empty:mismatch", "empty BitVec counts / get(0)", json!({"kind": "bitvec", "words_rle": [], "len": 0, "rate": 256, "stray": "clean"}));
            }
        }
    }

    rep.add("select1.scan_ends_in_prologue", hot.scan_prologue);
    rep.add("select1.scan_ends_in_block_loop", hot.scan_block_loop);
    rep.add("select1.scan_ends_in_tail", hot.scan_tail);
    rep.add("select1.scan_skipped_ge1_block", hot.scan_skipped_block);
    rep.add("select1.scan_skipped_ge8_blocks", hot.scan_skipped_8_blocks);
    rep.add("select1.k_not_a_sample_point", hot.scan_from_sample_not_at_k);
    rep.add("select1.none", hot.select_none);
    rep.add("select0.some", hot.select0_some);
    rep.add("rank.at_512_edge", hot.rank_block_edge);
    rep.add("rank.past_len", hot.rank_past_len);
    rep.add("get.in_range", hot.get_in_range);
    loc.flush(&mut rep);
    rep.digest("answers", h);
    rep.note("digest 'answers' covers every count/select1/rank1/rank0/get/select0 answer in workload order; the driver compares it across the default, simd and portable-popcount builds");
    rep.note("'jump beyond the last sample' (SelectIndex::jump_to) is unreachable for k < count_ones because the index holds ceil(ones/rate) samples; not counted");

    if !ctx.tiny() {
        rep.require("select1.scan_skipped_ge1_block", 100);
        rep.require("select1.scan_skipped_ge8_blocks", 100);
        rep.require("select1.scan_ends_in_tail", 100);
        rep.require("select1.scan_ends_in_block_loop", 100);
        rep.require("build.stray_last_word", 100);
        rep.require("build.surplus_words", 100);
        rep.require("build.stray_last_word+surplus_words", 100);
        rep.require("rank.at_512_edge", 1000);
        rep.require("rank.past_len", 1000);
        rep.require("len.0", 1);
        rep.require("len.1", 1);
        rep.require("len.63_64_65", 3);
        rep.require("len.511_512_513", 3);
        rep.require("case.large_sampled", 5);
        rep.require("class.runs_long", 5);
    } else {
        rep.require("build.surplus_words", 3);
        rep.require("select1.scan_skipped_ge1_block", 1);
    }
    rep
}
