//! C16 — YAML index does not depend on the SIMD dispatch level; each vectorised kernel equals
//! its scalar counterpart.
//!
//! Two monitors:
//!
//! * `c16k` (kernel level): every public kernel of `succinctly::yaml::simd` on generated
//!   `(buffer, start, end / min_indent)` triples against the naive byte-at-a-time definitions in
//!   `model::yaml_scan` (re-typed from the kernels' doc comments). The driver runs it in the
//!   default (AVX2), `SUCCINCTLY_SIMD=sse2` and `--features scalar-yaml` processes.
//! * `c16d` (digest): for a seeded corpus, a digest per input of a canonical dump of every
//!   public table of the loaded `YamlIndex` plus the JSON and YAML streaming output (or the
//!   error). Nothing is compared in-process: the driver runs the same monitor + seed in the three
//!   kernel configurations and requires equal digests. The dump contains nothing that is
//!   level-dependent by design (the active SIMD width goes to `notes` / `level.*` counters only).
//!   `--dump i` (or `--replay {"kind":"doc","index":i,"seed":s}` / `{"kind":"bytes","text_hex":..}`)
//!   prints the canonical dump of one input to stderr so two configurations can be diffed;
//!   `--hashes a-b` prints the per-input hashes of a range (to locate an input inside a group
//!   digest in the thorough tier).

use crate::gen::yaml_corpus as yc;
use crate::model::yaml_scan as ym;
use crate::report::{catch, hex, panic_sig, show_bytes, unhex, Ctx, Report};
use crate::rng::{fnv, mix, Rng};
use serde_json::{json, Value};
use std::fmt::Write as _;
use succinctly::jq::document::IndentSpec;
use succinctly::yaml::simd as ys;
use succinctly::yaml::YamlIndex;

// ---------------------------------------------------------------------------------------------
// active level
// ---------------------------------------------------------------------------------------------

/// Width (bytes) of the classifier the process actually dispatches to: 32 = AVX2, 16 = SSE2
/// (clamped or no AVX2), 0 = `scalar-yaml` build / non-x86 (the classifier is not compiled).
pub fn active_width() -> usize {
    #[cfg(all(target_arch = "x86_64", not(feature = "scalar-yaml")))]
    {
        let buf = [b'a'; 64];
        ys::classify_yaml_chars::<true>(&buf, 0).map(|c| c.width).unwrap_or(0)
    }
    #[cfg(not(all(target_arch = "x86_64", not(feature = "scalar-yaml"))))]
    {
        0
    }
}

fn note_level(rep: &mut Report) -> usize {
    let w = active_width();
    let env = std::env::var("SUCCINCTLY_SIMD").unwrap_or_else(|_| "<unset>".into());
    let scalar_feature = cfg!(feature = "scalar-yaml");
    rep.note(format!(
        "yaml_simd_width={w} (32=AVX2, 16=SSE2, 0=scalar kernels) SUCCINCTLY_SIMD={env} feature_scalar_yaml={scalar_feature}"
    ));
    rep.count(match w {
        32 => "level.width32",
        16 => "level.width16",
        _ => "level.scalar",
    });
    w
}

// ---------------------------------------------------------------------------------------------
// c16k — kernels
// ---------------------------------------------------------------------------------------------

#[derive(Clone, Copy, Debug, PartialEq, Eq)]
enum K {
    Dq,
    Sq,
    Spaces,
    Newline,
    BlockEnd,
    Anchor,
    JsonEsc,
    Classify,
}

impl K {
    fn name(self) -> &'static str {
        match self {
            K::Dq => "find_quote_or_escape",
            K::Sq => "find_single_quote",
            K::Spaces => "count_leading_spaces",
            K::Newline => "find_newline",
            K::BlockEnd => "find_block_scalar_end",
            K::Anchor => "parse_anchor_name",
            K::JsonEsc => "find_json_escape",
            K::Classify => "classify_yaml_chars",
        }
    }
    fn from(s: &str) -> Option<K> {
        [K::Dq, K::Sq, K::Spaces, K::Newline, K::BlockEnd, K::Anchor, K::JsonEsc, K::Classify].into_iter().find(|k| k.name() == s)
    }
}

/// One kernel call compared with the naive definition. `arg` is `end` for the two quote
/// kernels, `min_indent` for the block-scalar kernel, `HAS_CR as usize` for the classifier.
fn check_kernel(rep: &mut Report, k: K, buf: &[u8], start: usize, arg: usize) -> bool {
    if k == K::Classify {
        return check_classify(rep, buf, start, arg != 0);
    }
    rep.eval();
    let len = buf.len();
    let replay = || json!({"kind": "kernel", "kernel": k.name(), "buf_hex": hex(buf), "start": start, "arg": arg});
    let has_cr = buf.contains(&b'\r');
    let brk = if has_cr { "cr" } else { "nocr" };
    // scan range and the model's answer as an offset from `start` (for branch classification)
    let (got, want, range, hit): (Result<String, String>, String, usize, Option<usize>) = match k {
        K::Dq => {
            let w = ym::find_quote_or_escape(buf, start, arg);
            let g = catch(|| ys::find_quote_or_escape(buf, start, arg));
            (g.map(|x| format!("{x:?}")), format!("{w:?}"), arg.min(len).saturating_sub(start), w)
        }
        K::Sq => {
            let w = ym::find_single_quote(buf, start, arg);
            let g = catch(|| ys::find_single_quote(buf, start, arg));
            (g.map(|x| format!("{x:?}")), format!("{w:?}"), arg.min(len).saturating_sub(start), w)
        }
        K::Spaces => {
            let w = ym::count_leading_spaces(buf, start);
            let g = catch(|| ys::count_leading_spaces(buf, start));
            let hit = if start + w < len { Some(w) } else { None };
            (g.map(|x| format!("{x:?}")), format!("{w:?}"), len.saturating_sub(start), hit)
        }
        K::Newline => {
            let w = ym::find_newline(buf, start);
            let g = catch(|| ys::find_newline(buf, start));
            (g.map(|x| format!("{x:?}")), format!("{w:?}"), len.saturating_sub(start), w)
        }
        K::BlockEnd => {
            let w = ym::find_block_scalar_end(buf, start, arg);
            let g = catch(|| ys::find_block_scalar_end(buf, start, arg));
            let hit = if w < len { Some(w.saturating_sub(start)) } else { None };
            // documented: "Returns the position where the block ends ..., or input.len()" — the
            // Option is always Some
            (g.map(|x| format!("{x:?}")), format!("{:?}", Some(w)), len.saturating_sub(start), hit)
        }
        K::Anchor => {
            let w = ym::parse_anchor_name(buf, start);
            let g = catch(|| ys::parse_anchor_name(buf, start));
            let hit = if w < len { Some(w - start) } else { None };
            (g.map(|x| format!("{x:?}")), format!("{w:?}"), len.saturating_sub(start), hit)
        }
        K::JsonEsc => {
            let w = ym::find_json_escape(buf, start);
            let g = catch(|| ys::find_json_escape(buf, start));
            let hit = if w < len { Some(w.saturating_sub(start)) } else { None };
            (g.map(|x| format!("{x:?}")), format!("{w:?}"), len.saturating_sub(start), hit)
        }
        K::Classify => return true,
    };
    // data-derived branch class
    let cls = if range < 16 {
        "short"
    } else {
        match hit {
            None => "miss",
            Some(h) if h < 16 => "hit.0_15",
            Some(h) if h < 32 => "hit.16_31",
            Some(h) if range - h < 16 => "hit.tail",
            Some(_) => "hit.32plus",
        }
    };
    rep.count(&format!("k.{}.{cls}", k.name()));
    if range >= 16 {
        rep.nontrivial(mix(fnv(buf), mix(k as u64 * 1_000_003 + start as u64, arg as u64)));
    }
    match got {
        Ok(g) => {
            if g != want {
                rep.violation(
                    format!("C16:k:{}:{brk}:mismatch", k.name()),
                    format!("{}(len {len}, start {start}, arg {arg}) = {g}, naive definition {want}", k.name()),
                    replay(),
                );
                return false;
            }
            true
        }
        Err(p) => {
            rep.violation(format!("C16:k:{}:panic:{}", k.name(), panic_sig(&p)), p, replay());
            false
        }
    }
}

#[cfg(all(target_arch = "x86_64", not(feature = "scalar-yaml")))]
fn check_classify(rep: &mut Report, buf: &[u8], offset: usize, has_cr: bool) -> bool {
    let len = buf.len();
    let replay = || json!({"kind": "kernel", "kernel": "classify_yaml_chars", "buf_hex": hex(buf), "start": offset, "arg": has_cr as usize});
    rep.eval();
    let got = catch(|| if has_cr { ys::classify_yaml_chars::<true>(buf, offset) } else { ys::classify_yaml_chars::<false>(buf, offset) });
    let c = match got {
        Err(p) => {
            rep.violation(format!("C16:k:classify_yaml_chars:panic:{}", panic_sig(&p)), p, replay());
            return false;
        }
        Ok(None) => {
            if offset.checked_add(16).is_some_and(|e| e <= len) {
                // fewer classified chunks only cost speed; counted, and `classify.some` is required
                rep.count("classify.none_with_16_available");
            } else {
                rep.count("classify.none_short");
            }
            return true;
        }
        Ok(Some(c)) => c,
    };
    rep.count("classify.some");
    let w = c.width;
    if offset > len {
        // only reachable with `--huge 1`: `offset + 16` wrapped around inside the library
        rep.violation(
            "C16:k:classify_yaml_chars:offset_wraparound",
            format!("classify_yaml_chars(len {len}, offset {offset:#x}) returned a classification (width {w}) for an offset past the input"),
            replay(),
        );
        return false;
    }
    if !(w == 16 || w == 32) || offset + w > len {
        rep.violation(
            "C16:k:classify_yaml_chars:width",
            format!("width {w} reported for len {len}, offset {offset}: not 16/32 or runs past the input"),
            replay(),
        );
        return false;
    }
    rep.count(if w == 32 { "classify.width32" } else { "classify.width16" });
    rep.nontrivial(mix(fnv(buf), mix(offset as u64, 77 + has_cr as u64)));
    let low = |m: u32| if w == 32 { m } else { m & 0xFFFF };
    let fields: [(&str, u32, u8); 8] = [
        ("newlines", c.newlines, b'\n'),
        ("colons", c.colons, b':'),
        ("hyphens", c.hyphens, b'-'),
        ("spaces", c.spaces, b' '),
        ("quotes_double", c.quotes_double, b'"'),
        ("quotes_single", c.quotes_single, b'\''),
        ("backslashes", c.backslashes, b'\\'),
        ("hash", c.hash, b'#'),
    ];
    let mut ok = true;
    for (name, m, ch) in fields {
        let want = ym::mask_of(buf, offset, w, ch);
        if low(m) != want {
            ok = false;
            rep.violation(
                format!("C16:k:classify_yaml_chars:{name}:mismatch"),
                format!("mask {name} = {:#x}, naive {want:#x} (len {len}, offset {offset}, width {w}, HAS_CR {has_cr})", low(m)),
                replay(),
            );
        }
    }
    let want_cr = if has_cr { ym::mask_of(buf, offset, w, b'\r') } else { 0 };
    // HAS_CR == false: documented "Always 0"
    let got_cr = if has_cr { low(c.carriage_returns) } else { c.carriage_returns };
    if got_cr != want_cr {
        ok = false;
        rep.violation(
            format!("C16:k:classify_yaml_chars:carriage_returns:has_cr_{has_cr}:mismatch"),
            format!("carriage_returns = {got_cr:#x}, required {want_cr:#x} (len {len}, offset {offset}, width {w})"),
            replay(),
        );
    }
    let term = if has_cr { c.plain_scalar_terminators::<true>() } else { c.plain_scalar_terminators::<false>() };
    let want_t = ym::mask_of(buf, offset, w, b'\n') | ym::mask_of(buf, offset, w, b':') | ym::mask_of(buf, offset, w, b'#') | want_cr;
    if low(term) != want_t {
        ok = false;
        rep.violation(
            format!("C16:k:classify_yaml_chars:plain_scalar_terminators:has_cr_{has_cr}:mismatch"),
            format!("terminators = {:#x}, naive {want_t:#x} (len {len}, offset {offset}, width {w})", low(term)),
            replay(),
        );
    }
    if want_cr != 0 {
        rep.count("classify.cr_seen");
    }
    ok
}

#[cfg(not(all(target_arch = "x86_64", not(feature = "scalar-yaml"))))]
fn check_classify(rep: &mut Report, _buf: &[u8], _offset: usize, _has_cr: bool) -> bool {
    rep.count("classify.not_compiled");
    true
}

const SEARCH_KERNELS: [K; 6] = [K::Dq, K::Sq, K::Spaces, K::Newline, K::Anchor, K::JsonEsc];

/// Bytes that terminate (T) or must not terminate (N) each single-byte search kernel.
fn probes(k: K) -> (&'static [u8], &'static [u8]) {
    match k {
        K::Dq => (b"\"\\", b"'/a"),
        K::Sq => (b"'", b"\"`a"),
        K::Newline => (b"\n", b"\r\x0b a"),
        K::Spaces => (b"a\t\n\r\x00\xa0!", b" "),
        K::Anchor => (b" \t\n\r[]{},", b":a!&*#\"'-"),
        K::JsonEsc => (b"\"\\\x00\x01\x1f\n\r\t", b" !#[\x7f\x80\xc3\xff"),
        _ => (b"", b""),
    }
}

fn run_kernel_sweeps(ctx: &Ctx, rep: &mut Report, r: &mut Rng) {
    // A. single terminator at every position, every start
    let lens: Vec<usize> = if ctx.tiny() {
        vec![0, 16, 17, 33, 48, 65]
    } else if ctx.thorough() {
        (0..=140).chain([191, 192, 193, 255, 256, 257, 511, 513]).collect()
    } else {
        (0..=72).chain([95, 96, 97, 127, 128, 129]).collect()
    };
    for &l in &lens {
        for k in SEARCH_KERNELS {
            let (terms, nons) = probes(k);
            let fill = if k == K::Spaces { b' ' } else { b'a' };
            let step = if l > 140 { 7 } else { 1 };
            let sstep = if l > 140 { 5 } else { 1 };
            // Miri: a handful of (terminator, start) positions per length instead of all of them
            let t_list: Vec<usize> = if ctx.tiny() {
                let mut v = vec![0, l / 2, l.saturating_sub(1), l];
                v.dedup();
                v
            } else {
                let mut v = Vec::new();
                let mut t = 0;
                while t <= l {
                    v.push(t);
                    t += if step == 1 { 1 } else { 1 + r.below(step) };
                }
                v
            };
            for t in t_list {
                let mut buf = vec![fill; l];
                if t < l {
                    buf[t] = *r.pick(terms);
                    // a decoy non-terminator before it
                    if t > 0 && r.bool() {
                        let d = r.below(t);
                        buf[d] = *r.pick(nons);
                    }
                }
                let s_list: Vec<usize> = if ctx.tiny() {
                    let mut v = vec![0, 1.min(l), t.min(l), l];
                    v.dedup();
                    v
                } else {
                    let mut v = Vec::new();
                    let mut s = 0;
                    while s <= l + 1 {
                        v.push(s);
                        s += if sstep == 1 { 1 } else { 1 + r.below(sstep) };
                    }
                    v
                };
                for s in s_list {
                    if k == K::Anchor && s > l {
                        break; // documented only up to "end of input"
                    }
                    let arg = match k {
                        K::Dq | K::Sq => *r.pick(&[l, l, l + 3, t, t + 1, t.saturating_sub(1), s, s + 16, s + 17, s + 32, s + 33, usize::MAX]),
                        _ => 0,
                    };
                    check_kernel(rep, k, &buf, s, arg);
                }
            }
        }
        // anchor names: colon followed / not followed by whitespace at every position
        let step = if ctx.tiny() { 31 } else { 1 };
        let mut t = 0;
        while t < l {
            for follow in [b' ', b'\t', b'\n', b'\r', b'x', b':', b','] {
                let mut buf = vec![b'n'; l];
                buf[t] = b':';
                if t + 1 < l {
                    buf[t + 1] = follow;
                }
                if t + 2 < l && r.bool() {
                    // a later definite terminator
                    let p = r.range(t + 2, l - 1);
                    buf[p] = *r.pick(b" ,]:");
                }
                let s = if r.bool() { 0 } else { r.below(t + 1) };
                check_kernel(rep, K::Anchor, &buf, s, 0);
            }
            t += step;
        }
    }

    // B. dense random buffers
    let n = ctx.n(600_000, 8_000_000, 60);
    for _ in 0..n {
        let l = match r.below(10) {
            0 => r.below(16),
            1..=6 => r.below(100),
            7..=8 => r.below(300),
            _ => r.below(if ctx.tiny() { 100 } else { 5000 }),
        };
        let k = *r.pick(&[K::Dq, K::Sq, K::Spaces, K::Newline, K::Anchor, K::JsonEsc, K::BlockEnd, K::Classify, K::Classify]);
        let density = *r.pick(&[2u32, 8, 30, 100]);
        let (terms, nons) = probes(k);
        let buf: Vec<u8> = (0..l)
            .map(|_| match k {
                K::BlockEnd | K::Classify => {
                    if r.chance(1, density) {
                        *r.pick(b"\n\r:- \"'\\#\n ")
                    } else {
                        *r.pick(b"ab  ")
                    }
                }
                K::Spaces => {
                    if r.chance(1, density * 4) {
                        *r.pick(terms)
                    } else {
                        b' '
                    }
                }
                _ => {
                    if r.chance(1, density) {
                        if r.chance(2, 3) {
                            *r.pick(terms)
                        } else {
                            b':'
                        }
                    } else if r.chance(1, 6) {
                        *r.pick(nons)
                    } else {
                        b'a'
                    }
                }
            })
            .collect();
        let s = match r.below(8) {
            0 => l,
            1 => l + 1 + r.below(40),
            2 => 0,
            _ => r.below(l + 1),
        };
        if k == K::Anchor && s > l {
            continue;
        }
        let arg = match k {
            K::Dq | K::Sq => {
                let (x, y) = (r.below(l + 2), s + r.below(70));
                *r.pick(&[l, l, l, x, y, usize::MAX])
            }
            K::BlockEnd => *r.pick(&[0usize, 1, 2, 3, 4, 8, 33]),
            K::Classify => r.below(2),
            _ => 0,
        };
        check_kernel(rep, k, &buf, s, arg);
    }

    // C. block scalar end, structured: prefix, break, k spaces, follower
    let (amax, kmax) = if ctx.tiny() { (2, 3) } else if ctx.thorough() { (70, 70) } else { (40, 40) };
    let a_list: Vec<usize> = if ctx.tiny() { vec![0, 31] } else { (0..=amax).collect() };
    let k_list: Vec<usize> = if ctx.tiny() { vec![1, 33] } else { (0..=kmax).chain([63, 64, 65, 100]).collect() };
    for &a in &a_list {
        for brk in [&b"\n"[..], b"\r", b"\r\n"] {
            for &sp in &k_list {
                for follow in [&b"x"[..], b"\n", b"\r", b"", b"#c", b"\r\n"] {
                    let tail_n = *r.pick(&[0usize, 0, 1, 5, 14, 15, 16, 17, 30, 31, 32, 33, 48]);
                    let mut buf = vec![b'p'; a];
                    buf.extend_from_slice(brk);
                    buf.extend(std::iter::repeat(b' ').take(sp));
                    buf.extend_from_slice(follow);
                    if !follow.is_empty() {
                        buf.extend(std::iter::repeat(b't').take(tail_n));
                        if r.chance(1, 3) {
                            buf.extend_from_slice(b"\nz");
                        }
                    }
                    let mins = [sp + 1, sp, 0usize, 1, sp.saturating_sub(1), 200];
                    for &mi in &mins[..if ctx.tiny() { 2 } else { 6 }] {
                        let any = r.below(buf.len() + 2);
                        let s = *r.pick(&[0usize, 0, a, a + 1, a.saturating_sub(1), a + brk.len(), any]);
                        check_kernel(rep, K::BlockEnd, &buf, s, mi);
                    }
                    // data-derived classes
                    if brk.len() == 2 {
                        rep.count("bse.crlf");
                    } else if brk == b"\r" {
                        rep.count("bse.cr");
                    }
                    if sp >= 32 {
                        rep.count("bse.indent_ge32");
                    }
                    if follow.first().map(|&b| b == b'\n' || b == b'\r').unwrap_or(false) {
                        rep.count("bse.blank_line");
                    }
                }
            }
        }
    }
    // random line soups
    let n = ctx.n(200_000, 3_000_000, 20);
    for _ in 0..n {
        let lines = r.range(1, if ctx.tiny() { 4 } else { 14 });
        let base = r.below(6);
        let mut buf = Vec::new();
        for _ in 0..lines {
            let ind = match r.below(8) {
                0 => r.below(base + 1),
                1 => base + r.below(45),
                _ => base + r.below(3),
            };
            buf.extend(std::iter::repeat(b' ').take(ind));
            if !r.chance(1, 5) {
                let n = match r.below(5) {
                    0 => r.range(28, 70),
                    _ => r.range(1, 20),
                };
                buf.extend((0..n).map(|_| *r.pick(b"abc #:-")));
            }
            buf.extend_from_slice(*r.pick(&[&b"\n"[..], b"\n", b"\r\n", b"\r", b"\n\n"]));
        }
        if r.chance(1, 4) {
            buf.pop();
        }
        let s = r.below(buf.len() + 2);
        let mi = *r.pick(&[0usize, 1, base, base + 1, base + 2, base + 3, 40]);
        check_kernel(rep, K::BlockEnd, &buf, s, mi);
    }

    // D. classifier at every offset of short buffers (None boundary at len-16, width switch at len-32)
    let lmax = if ctx.tiny() { 0 } else { 70 };
    for l in (0..=lmax).chain(if ctx.tiny() { vec![16, 33, 48] } else { vec![] }) {
        let reps = if ctx.tiny() { 1 } else { 4 };
        for _ in 0..reps {
            let buf: Vec<u8> = (0..l).map(|_| *r.pick(b"\n\r:- \"'\\#ab\t,")).collect();
            let step = if ctx.tiny() { 9 } else { 1 };
            let mut o = 0;
            while o <= l + 1 {
                check_kernel(rep, K::Classify, &buf, o, 1);
                check_kernel(rep, K::Classify, &buf, o, 0);
                o += step;
            }
        }
    }
}

pub fn run_k(ctx: &Ctx) -> Report {
    let mut rep = Report::new("C16", "c16k");
    rep.rule = "case = (kernel, buffer, start, end|min_indent|HAS_CR) compared with a naive byte-at-a-time \
                definition; non-trivial = scanned range >= 16 bytes (a vector iteration runs) resp. a \
                classified chunk; distinct by hash of the whole case"
        .into();
    let w = note_level(&mut rep);
    if let Some(rp) = &ctx.replay {
        let k = K::from(rp["kernel"].as_str().unwrap_or("")).unwrap_or(K::Newline);
        let buf = unhex(rp["buf_hex"].as_str().unwrap_or(""));
        let num = |v: &Value| v.as_u64().map(|x| x as usize).or_else(|| v.as_str().and_then(|s| s.parse().ok())).unwrap_or(0);
        check_kernel(&mut rep, k, &buf, num(&rp["start"]), num(&rp["arg"]));
        return rep;
    }
    let mut r = Rng::new(ctx.shard_seed());
    run_kernel_sweeps(ctx, &mut rep, &mut r);
    rep.exhaustive.push(
        "per search kernel: one terminator at every position x every start offset (incl. == len and len+1) for every buffer length \
         0..=72 (quick) / 0..=140 (thorough); block-scalar end: prefix 0..=40 x {LF,CR,CRLF} x indent 0..=40,63,64,65,100 x 6 followers"
            .into(),
    );
    // Opt-in (`--huge 1`): offsets so large that `offset + 16` wraps. Not part of the default run:
    // on the v0.8.0 tree the library then reads *before* the buffer (release builds), which is
    // undefined behaviour and aborts a Miri leg. The probe buffer sits in the middle of a larger
    // allocation so that natively the stray read stays inside memory this process owns.
    if ctx.arg("huge").is_some() {
        let big = vec![b':'; 256];
        let buf = &big[96..160];
        for off in [usize::MAX, usize::MAX - 3, usize::MAX - 15, usize::MAX - 16, usize::MAX - 31, usize::MAX / 2 + 1] {
            check_kernel(&mut rep, K::Classify, buf, off, 1);
            rep.count("classify.huge_offset");
        }
    }

    // written-out samples
    let sample_buf = b"key: \"some quoted text that is longer than 32 bytes\" # c\r\n  next".to_vec();
    rep.sample(json!({"kernel": "find_quote_or_escape", "buf": show_bytes(&sample_buf), "start": 6, "end": sample_buf.len(),
        "library": format!("{:?}", ys::find_quote_or_escape(&sample_buf, 6, sample_buf.len())),
        "naive": format!("{:?}", ym::find_quote_or_escape(&sample_buf, 6, sample_buf.len()))}));
    rep.sample(json!({"kernel": "find_block_scalar_end", "buf": show_bytes(&sample_buf), "start": 0, "min_indent": 3,
        "library": format!("{:?}", ys::find_block_scalar_end(&sample_buf, 0, 3)),
        "naive": ym::find_block_scalar_end(&sample_buf, 0, 3)}));
    rep.sample(json!({"kernel": "parse_anchor_name", "buf": show_bytes(&sample_buf), "start": 10,
        "library": ys::parse_anchor_name(&sample_buf, 10), "naive": ym::parse_anchor_name(&sample_buf, 10)}));
    rep.sample(json!({"active_width": w}));

    if !ctx.tiny() {
        for k in SEARCH_KERNELS {
            for cls in ["hit.0_15", "hit.16_31", "hit.32plus", "hit.tail", "miss", "short"] {
                rep.require(&format!("k.{}.{cls}", k.name()), 200);
            }
        }
        for cls in ["hit.0_15", "hit.16_31", "hit.32plus", "miss"] {
            rep.require(&format!("k.find_block_scalar_end.{cls}"), 200);
        }
        rep.require("bse.crlf", 100);
        rep.require("bse.cr", 100);
        rep.require("bse.indent_ge32", 100);
        rep.require("bse.blank_line", 100);
        if w != 0 {
            rep.require("classify.some", 2000);
            rep.require("classify.cr_seen", 200);
            rep.require(if w == 32 { "classify.width32" } else { "classify.width16" }, 1000);
            // the 16-byte classifier also serves the last 16..31 bytes under AVX2
            rep.require("classify.width16", 200);
        }
    }
    rep
}

// ---------------------------------------------------------------------------------------------
// c16d — digests
// ---------------------------------------------------------------------------------------------

pub struct Source {
    pub name: &'static str,
    pub gen: yc::SourceFn,
    pub quick: usize,
    pub thorough: usize,
    pub tiny: usize,
}

/// Corpus sources, in order; input `i` of the run is item `i - offset` of the source whose
/// range contains `i`. Add further generators (e.g. a structured G-YAML one) by appending here.
pub fn sources() -> Vec<Source> {
    vec![
        Source { name: "text", gen: yc::text_doc, quick: 8000, thorough: 150_000, tiny: 4 },
        Source { name: "edge", gen: yc::edge_doc, quick: yc::EDGE_TEMPLATES * yc::EDGE_SPAN * 3, thorough: yc::EDGE_TEMPLATES * yc::EDGE_SPAN * 30, tiny: 6 },
        Source { name: "mutant", gen: yc::mutant_doc, quick: 5000, thorough: 90_000, tiny: 2 },
        Source { name: "soup", gen: yc::soup_doc, quick: 2500, thorough: 50_000, tiny: 2 },
    ]
}

fn source_count(ctx: &Ctx, s: &Source) -> usize {
    ctx.n(s.quick, s.thorough, s.tiny)
}

/// (source name, bytes) of input `i`.
fn input_at(ctx: &Ctx, seed: u64, i: usize) -> Option<(&'static str, Vec<u8>)> {
    let mut off = 0;
    for s in sources() {
        let n = source_count(ctx, &s);
        if i < off + n {
            return Some((s.name, (s.gen)(seed, i - off, ctx.tiny())));
        }
        off += n;
    }
    None
}

fn total_inputs(ctx: &Ctx) -> usize {
    sources().iter().map(|s| source_count(ctx, s)).sum()
}

fn words_hex(out: &mut String, words: &[u64]) {
    for w in words {
        let _ = write!(out, "{w:016x} ");
    }
}

struct DumpStats {
    ok: bool,
    opens: usize,
    anchors: usize,
    aliases: usize,
    tags: usize,
    comments: usize,
    containers: usize,
    out_panics: usize,
    err: Option<String>,
}

/// Canonical dump of everything observable about `YamlIndex::build(text)`. Contains nothing
/// that depends on the dispatch level by design.
fn canonical_dump(text: &[u8]) -> (String, DumpStats) {
    let mut st = DumpStats { ok: false, opens: 0, anchors: 0, aliases: 0, tags: 0, comments: 0, containers: 0, out_panics: 0, err: None };
    let mut o = String::with_capacity(text.len() * 12 + 256);
    let _ = writeln!(o, "input len={} fnv={:016x}", text.len(), fnv(text));
    let idx = match catch(|| YamlIndex::build(text)) {
        Err(p) => {
            st.out_panics += 1;
            let _ = writeln!(o, "build: PANIC {p}");
            return (o, st);
        }
        Ok(Err(e)) => {
            let _ = writeln!(o, "build: ERR {e:?} | {e}");
            st.err = Some(format!("{e:?}").split(|c: char| !c.is_alphanumeric()).next().unwrap_or("").to_string());
            return (o, st);
        }
        Ok(Ok(i)) => i,
    };
    st.ok = true;
    let _ = writeln!(o, "build: OK");
    let _ = write!(o, "ib_len={} ib_words={} : ", idx.ib_len(), idx.ib().len());
    words_hex(&mut o, idx.ib());
    let bp = idx.bp();
    let _ = write!(o, "\nbp_len={} bp_words={} : ", bp.len(), bp.words().len());
    words_hex(&mut o, bp.words());
    let _ = write!(o, "\nty_len={} ty_words={} : ", idx.ty_len(), idx.ty().len());
    words_hex(&mut o, idx.ty());
    let _ = writeln!(o, "\nopen_positions_len={} has_aliases={}", idx.open_positions().len(), idx.has_aliases());
    let tables = catch(|| {
        let mut o = String::new();
        let mut st = (0usize, 0usize, 0usize, 0usize, 0usize, 0usize);
        let n = bp.len();
        for p in 0..n {
            if !bp.is_open(p) {
                if idx.is_container(p) {
                    let _ = writeln!(o, "bp {p} close container-bit-set");
                }
                continue;
            }
            st.0 += 1;
            let oi = idx.bp_to_open_idx(p);
            let _ = write!(
                o,
                "bp {p} open#{oi} pos={:?}/{:?} end={:?}/{:?}",
                idx.bp_to_text_pos(p),
                idx.text_pos_by_open_idx(oi),
                idx.bp_to_text_end_pos(p),
                idx.text_end_pos_by_open_idx(oi)
            );
            if idx.is_container(p) {
                st.5 += 1;
                let _ = write!(o, " container ty#{} seq={}", idx.count_containers_before(p), idx.is_sequence_at_bp(p));
            }
            if idx.is_seq_item(text, p) {
                o.push_str(" seq_item");
            }
            if let Some(a) = idx.get_anchor_name(p) {
                st.1 += 1;
                let _ = write!(o, " anchor={a:?}->{:?}", idx.get_anchor_bp_pos(a));
            }
            if idx.is_alias(p) {
                st.2 += 1;
                let _ = write!(o, " alias->{:?} name={:?}", idx.get_alias_target(p), idx.get_alias_anchor_name(p));
            }
            if let Some(t) = idx.get_tag(p) {
                st.3 += 1;
                let _ = write!(o, " tag={t:?}");
            }
            if let Some(c) = idx.get_line_comment(p) {
                st.4 += 1;
                let _ = write!(o, " comment={c:?}");
            }
            if let Some(tp) = idx.bp_to_text_pos(p) {
                let _ = write!(o, " find_bp@{tp}={:?}", idx.find_bp_at_text_pos(tp));
            }
            o.push('\n');
        }
        // one past the last open, container bits in the slack of the last word, TY bits
        let opens = st.0;
        let _ = writeln!(o, "open#{opens} pos={:?} end={:?}", idx.text_pos_by_open_idx(opens), idx.text_end_pos_by_open_idx(opens));
        let _ = write!(o, "container_bits_past_len:");
        for p in n..n.div_ceil(64) * 64 + 64 {
            if idx.is_container(p) {
                let _ = write!(o, " {p}");
            }
        }
        let _ = write!(o, "\ncontainers_before({n})={} ty_bits:", idx.count_containers_before(n));
        for t in 0..idx.ty_len() + 2 {
            o.push(if idx.is_sequence_at(t) { '1' } else { '0' });
        }
        o.push('\n');
        (o, st)
    });
    match tables {
        Ok((s, t)) => {
            o.push_str(&s);
            st.opens = t.0;
            st.anchors = t.1;
            st.aliases = t.2;
            st.tags = t.3;
            st.comments = t.4;
            st.containers = t.5;
        }
        Err(p) => {
            st.out_panics += 1;
            let _ = writeln!(o, "tables: PANIC {p}");
        }
    }
    let root = idx.root(text);
    let mut emit = |name: &str, f: &dyn Fn() -> Result<String, std::fmt::Error>| match catch(f) {
        Ok(Ok(s)) => {
            let _ = writeln!(o, "{name}: {s}");
        }
        Ok(Err(_)) => {
            let _ = writeln!(o, "{name}: FMT-ERROR");
        }
        Err(p) => {
            st.out_panics += 1;
            let _ = writeln!(o, "{name}: PANIC {p}");
        }
    };
    emit("json", &|| Ok(root.to_json()));
    emit("json_document", &|| Ok(root.to_json_document()));
    emit("json_stream_indent2", &|| {
        let mut s = String::new();
        root.stream_json_document(&mut s, IndentSpec::spaces(2), false).map(|_| s)
    });
    emit("yaml_document", &|| {
        let mut s = String::new();
        root.stream_yaml_document(&mut s, IndentSpec::spaces(2), false).map(|_| s)
    });
    emit("yaml_stream_root", &|| {
        let mut s = String::new();
        root.stream_yaml(&mut s, IndentSpec::spaces(2), false).map(|_| s)
    });
    emit("yaml_flow_sorted", &|| {
        let mut s = String::new();
        root.stream_yaml_document(&mut s, IndentSpec::COMPACT, true).map(|_| s)
    });
    (o, st)
}

fn parse_range(s: &str) -> Option<(usize, usize)> {
    let mut p = s.split('-');
    let a = p.next()?.trim().parse().ok()?;
    let b = match p.next() {
        Some(x) => x.trim().parse().ok()?,
        None => a,
    };
    Some((a, b))
}

pub fn run_d(ctx: &Ctx) -> Report {
    let mut rep = Report::new("C16", "c16d");
    rep.rule = "case = one corpus input; digest = FNV-1a of the canonical dump (IB/BP/TY words and lengths, per open \
                index text_pos/text_end, container and type bits, anchors, aliases, tags, line comments, JSON and YAML \
                streaming output, or the error); compared ACROSS processes by the driver (default / SUCCINCTLY_SIMD=sse2 / \
                scalar-yaml); non-trivial = input that builds and has >= 3 BP opens; distinct by hash of the input bytes"
        .into();
    note_level(&mut rep);
    let seed = ctx.shard_seed();
    let num = |v: &Value| v.as_u64().or_else(|| v.as_str().and_then(|s| s.parse().ok()));

    // single-input modes: print the canonical dump to stderr
    if let Some(rp) = &ctx.replay {
        let (label, bytes) = if rp["kind"].as_str() == Some("bytes") {
            ("bytes".to_string(), unhex(rp["text_hex"].as_str().unwrap_or("")))
        } else {
            let i = num(&rp["index"]).unwrap_or(0) as usize;
            let s = num(&rp["seed"]).unwrap_or(seed);
            match input_at(ctx, s, i) {
                Some((src, b)) => (format!("doc{i} source={src} corpus_seed={s}"), b),
                None => {
                    rep.note(format!("replay index {i} out of range"));
                    return rep;
                }
            }
        };
        let (dump, _) = canonical_dump(&bytes);
        eprintln!("== {label} hash={:016x}\n-- input (lossy): {:?}\n{dump}", fnv(dump.as_bytes()), String::from_utf8_lossy(&bytes));
        rep.eval();
        rep.digest("replay", fnv(dump.as_bytes()));
        return rep;
    }
    if let Some(i) = ctx.arg("dump").and_then(|s| s.parse::<usize>().ok()) {
        if let Some((src, bytes)) = input_at(ctx, seed, i) {
            let (dump, _) = canonical_dump(&bytes);
            eprintln!(
                "== doc{i} source={src} corpus_seed={seed} hash={:016x}\n-- input hex: {}\n-- input (lossy): {:?}\n{dump}",
                fnv(dump.as_bytes()),
                hex(&bytes),
                String::from_utf8_lossy(&bytes)
            );
            rep.eval();
            rep.digest(&format!("doc{i}"), fnv(dump.as_bytes()));
        } else {
            rep.note(format!("--dump {i}: out of range (inputs: {})", total_inputs(ctx)));
        }
        return rep;
    }
    let hashes_range = ctx.arg("hashes").and_then(parse_range);

    let total = total_inputs(ctx);
    // at most ~2800 named digests: fold consecutive inputs into groups when there are more
    let group = total.div_ceil(2800).max(1);
    rep.note(format!("inputs={total} group_size={group} corpus_seed={seed} (use --dump i / --hashes a-b to localise)"));
    let mut overall: Vec<u64> = Vec::with_capacity(total);
    let mut gacc: Vec<u64> = Vec::new();
    let mut gstart = 0usize;
    let mut i = 0usize;
    for src in sources() {
        let n = source_count(ctx, &src);
        for j in 0..n {
            let bytes = (src.gen)(seed, j, ctx.tiny());
            let (dump, st) = canonical_dump(&bytes);
            let h = fnv(dump.as_bytes());
            rep.eval();
            overall.push(h);
            gacc.push(h);
            if let Some((a, b)) = hashes_range {
                if i >= a && i <= b {
                    eprintln!("doc{i} {h:016x} source={} len={}", src.name, bytes.len());
                }
            }
            if gacc.len() == group || (j + 1 == n && i + 1 == total) {
                if group == 1 {
                    rep.digest(&format!("doc{i}"), h);
                } else {
                    rep.digest(&format!("docs{gstart}-{i}"), crate::rng::fnv_words(&gacc));
                }
                gacc.clear();
                gstart = i + 1;
            }
            // data-derived classes (from the input and the index; never from the level)
            rep.count(&format!("src.{}", src.name));
            let has_cr = bytes.contains(&b'\r');
            let has_crlf = bytes.windows(2).any(|w| w == b"\r\n");
            if st.ok {
                rep.count("doc.ok");
                rep.count(&format!("ok.{}", src.name));
                if has_crlf {
                    rep.count("ok.crlf");
                } else if has_cr {
                    rep.count("ok.cr_only");
                }
                if st.anchors > 0 {
                    rep.count("ok.with_anchor");
                }
                if st.aliases > 0 {
                    rep.count("ok.with_alias");
                }
                if st.tags > 0 {
                    rep.count("ok.with_tag");
                }
                if st.comments > 0 {
                    rep.count("ok.with_line_comment");
                }
                if bytes.len() >= 64 {
                    rep.count("ok.len_ge64");
                }
                if bytes.windows(2).any(|w| (w[0] == b'|' || w[0] == b'>') && (w[1] == b'\n' || w[1] == b'\r' || w[1] == b'-' || w[1] == b'+')) {
                    rep.count("ok.block_scalar_like");
                }
                if st.opens >= 3 {
                    rep.nontrivial(fnv(&bytes));
                }
                rep.add("ok.bp_opens", st.opens as u64);
                rep.add("ok.containers", st.containers as u64);
            } else {
                rep.count("doc.err_or_panic");
                if let Some(e) = &st.err {
                    rep.count(&format!("err.{}.{e}", src.name));
                }
            }
            if st.out_panics > 0 {
                // crashes are C19's business; here they are only part of the digest
                rep.count("doc.panic_recorded");
            }
            if (src.name == "text" && j < 2) || (src.name == "edge" && j == 7) {
                rep.sample(json!({"index": i, "source": src.name, "input": show_bytes(&bytes), "hash": format!("{h:016x}"),
                    "dump_head": dump.chars().take(600).collect::<String>()}));
            }
            i += 1;
        }
    }
    rep.digest("all", crate::rng::fnv_words(&overall));
    if !ctx.tiny() {
        rep.require("doc.ok", 1200);
        rep.require("ok.text", 500);
        rep.require("ok.edge", 500);
        rep.require("ok.crlf", 150);
        rep.require("ok.cr_only", 100);
        rep.require("ok.with_anchor", 150);
        rep.require("ok.with_alias", 60);
        rep.require("ok.with_tag", 100);
        rep.require("ok.with_line_comment", 100);
        rep.require("ok.block_scalar_like", 150);
        rep.require("doc.err_or_panic", 100);
    }
    rep
}
