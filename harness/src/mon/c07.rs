//! C07 — JSON interest-bit rank/select and node positions are exact.
//!
//! Oracles: the IB bits come from the harness's own standard-cursor machine (`model::json_sm`),
//! rank/select from naive scans of those bits; node starts from G-JSON's ground truth; the
//! line/column pairs from `model::lines`.
//!
//! Checked on every input (valid documents, mutants, soups, arbitrary bytes):
//!   `ib_rank1(pos)` for all pos <= len + 70, `ib_select1(k)` for all k <= ones + 3,
//!   `ib_select1_from(k, hint)` for the same k and hints {0, k/8, exact word, +-1, +-64, words,
//!   words + 10, usize::MAX} (every hint 0..=words+10 on small inputs); ranks that no index can
//!   hold (2^32, 2^32 + j, 2^63, usize::MAX ...) must give None.
//! Checked on valid documents: `text_position()` of every node (cursor made from the ground-truth
//! BP position) = token start; `line()`/`column()` = line model of that start;
//! `cursor_at_offset(o)` for o in 0..len+2 and `cursor_at_position(line, col)` for the equivalent
//! pair = the node with the greatest start <= o (None before the first node / past the end).

use crate::gen::json::{self as gj, Node};
use crate::model::json_sm as sm;
use crate::model::lines as lm;
use crate::mon::c06::{expected_bp, gen_case, generator_crosscheck};
use crate::report::{catch, hex, panic_sig, show_bytes, unhex, Ctx, Report};
use crate::rng::{fnv, Rng};
use serde_json::{json, Value};
use succinctly::json::light::JsonCursor;
use succinctly::json::JsonIndex;

const HUGE_KS: &[usize] = &[
    u32::MAX as usize - 1,
    u32::MAX as usize,
    1usize << 32,
    (1usize << 32) + 1,
    (1usize << 32) + 2,
    (1usize << 33) + 1,
    1usize << 63,
    usize::MAX - 1,
    usize::MAX,
];

thread_local! {
    /// Violations already reported per signature: the report keeps 3 witnesses per signature, so
    /// later ones carry no replay (building a hex dump of a multi-MB input per hit is wasteful).
    static SEEN: std::cell::RefCell<std::collections::HashMap<String, u32>> = std::cell::RefCell::new(std::collections::HashMap::new());
}

fn violation(rep: &mut Report, sig: String, msg: String, bytes: &[u8], cls: &str) {
    let n = SEEN.with(|s| {
        let mut s = s.borrow_mut();
        let c = s.entry(sig.clone()).or_insert(0);
        *c += 1;
        *c
    });
    let replay = if n <= 3 { bytes_replay(bytes, cls) } else { Value::Null };
    rep.violation(sig, msg, replay);
}

fn bytes_replay(bytes: &[u8], cls: &str) -> Value {
    json!({"kind": "bytes", "hex": hex(bytes), "class": cls})
}

/// Rank/select part, valid for any byte string. Returns false after the first violation.
fn check_rank_select(rep: &mut Report, bytes: &[u8], cls: &str, all_hints: bool, r: &mut Rng, tiny: bool) -> bool {
    let m = sm::standard(bytes);
    let ones = sm::one_positions(&m.ib);
    let index = match catch(|| JsonIndex::build(bytes)) {
        Ok(i) => i,
        Err(p) => {
            rep.violation(format!("C07:build:panic:{}", panic_sig(&p)), p, bytes_replay(bytes, cls));
            return false;
        }
    };
    let words = bytes.len().div_ceil(64);
    // anchor: the index really holds the reference IB
    rep.eval();
    if index.ib() != m.ib.words.as_slice() || index.ib_len() != bytes.len() {
        violation(rep, "C07:build:ib_differs_from_reference".into(), "index IB is not the reference IB (see C05)".into(), bytes, cls);
        return false;
    }
    // rank: prefix counts by a running naive count
    let mut cum = Vec::with_capacity(bytes.len() + 1);
    let mut c = 0usize;
    for i in 0..bytes.len() {
        cum.push(c);
        if m.ib.get(i) {
            c += 1;
        }
    }
    cum.push(c);
    let rank_want = |pos: usize| cum[pos.min(bytes.len())];
    let mut rank_probes: Vec<usize> = if tiny {
        // interpreted run: every third position plus the word edges
        (0..=bytes.len() + 70).filter(|p| p % 3 == 0 || p % 64 <= 1 || p % 64 == 63 || *p + 2 >= bytes.len() && *p <= bytes.len() + 2).collect()
    } else if bytes.len() <= 5000 {
        (0..=bytes.len() + 70).collect()
    } else {
        let mut v: Vec<usize> = (0..2000).map(|_| r.below(bytes.len() + 70)).collect();
        v.extend(bytes.len().saturating_sub(70)..=bytes.len() + 70);
        v.extend(0..130);
        v
    };
    rank_probes.extend([words * 64, words * 64 + 1, words * 64 + 64, u32::MAX as usize, usize::MAX / 2, usize::MAX]);
    for pos in rank_probes {
        rep.eval();
        match catch(|| index.ib_rank1(pos)) {
            Ok(g) if g == rank_want(pos) => {}
            Ok(g) => {
                let cls2 = if pos > bytes.len() { "past_end" } else { "in_range" };
                violation(rep, format!("C07:ib_rank1:{cls2}"), format!("ib_rank1({pos}) = {g}, naive count {} (len {}, ones {})", rank_want(pos), bytes.len(), ones.len()), bytes, cls);
                return false;
            }
            Err(p) => {
                rep.violation(format!("C07:ib_rank1:panic:{}", panic_sig(&p)), format!("ib_rank1({pos}): {p}"), bytes_replay(bytes, cls));
                return false;
            }
        }
    }
    if bytes.len() > 64 {
        rep.count("rank.multiword");
    }

    // select
    let ks: Vec<usize> = if tiny && ones.len() > 12 {
        (0..ones.len() + 2).filter(|k| k % 4 == 0 || *k + 2 >= ones.len()).collect()
    } else if ones.len() <= 3000 {
        (0..ones.len() + 4).collect()
    } else {
        let mut v: Vec<usize> = (0..1500).map(|_| r.below(ones.len())).collect();
        v.extend(ones.len() - 3..ones.len() + 4);
        v.extend(0..70);
        v
    };
    for &k in ks.iter().chain(if tiny { &HUGE_KS[1..4] } else { HUGE_KS }) {
        let want = ones.get(k).copied();
        let huge = k >= (1usize << 32);
        rep.eval();
        match catch(|| index.ib_select1(k)) {
            Ok(g) if g == want => {}
            Ok(g) => {
                let cls2 = if huge { "k_ge_2^32" } else if k >= ones.len() { "k_ge_ones" } else { "in_range" };
                violation(rep, format!("C07:ib_select1:{cls2}"), format!("ib_select1({k}) = {g:?}, naive {want:?} (ones {}, len {})", ones.len(), bytes.len()), bytes, cls);
                if !huge {
                    return false;
                }
            }
            Err(p) => {
                rep.violation(format!("C07:ib_select1:panic:{}", panic_sig(&p)), format!("ib_select1({k}): {p}"), bytes_replay(bytes, cls));
                return false;
            }
        }
        if huge {
            rep.count("select.k_ge_2^32");
        } else if k >= ones.len() {
            rep.count("select.k_ge_ones");
        }
        // hints
        let exact = want.map(|p| p / 64).unwrap_or(words);
        let mut hints: Vec<usize> = vec![0, k / 8, exact, exact.saturating_sub(1), exact + 1, exact.saturating_sub(64), exact + 64, words.saturating_sub(1), words, words + 10, usize::MAX, usize::MAX - 1, r.below(words + 12)];
        if tiny {
            hints.truncate(11);
        }
        if all_hints {
            hints.extend(0..=words + 10);
        }
        for hint in hints {
            rep.eval();
            match catch(|| index.ib_select1_from(k, hint)) {
                Ok(g) if g == want => {}
                Ok(g) => {
                    let cls2 = if huge {
                        "k_ge_2^32".to_string()
                    } else {
                        let rel = if hint >= words { "hint_past_end" } else if hint > exact { "hint_after" } else if hint < exact { "hint_before" } else { "hint_exact" };
                        format!("{}:{rel}", if k >= ones.len() { "k_ge_ones" } else { "in_range" })
                    };
                    violation(rep, format!("C07:ib_select1_from:{cls2}"), format!("ib_select1_from({k}, {hint}) = {g:?}, naive {want:?} (answer word {exact}, words {words}, ones {})", ones.len()), bytes, cls);
                    if !huge {
                        return false;
                    }
                    break;
                }
                Err(p) => {
                    rep.violation(format!("C07:ib_select1_from:panic:{}", panic_sig(&p)), format!("ib_select1_from({k}, {hint}): {p}"), bytes_replay(bytes, cls));
                    return false;
                }
            }
            if !huge && k < ones.len() {
                // data-derived branch classes of the galloping search
                let d = hint.min(words.saturating_sub(1)) as isize - exact as isize;
                if d == 0 {
                    rep.count("gallop.hint_exact");
                } else if d > 16 {
                    rep.count("gallop.backward_far");
                } else if d > 0 {
                    rep.count("gallop.backward_near");
                } else if d < -16 {
                    rep.count("gallop.forward_far");
                } else {
                    rep.count("gallop.forward_near");
                }
                if hint >= words {
                    rep.count("gallop.hint_clamped");
                }
            }
        }
    }
    true
}

/// Node-position part (valid documents only).
fn check_positions(rep: &mut Report, bytes: &[u8], nodes: &[Node], r: &mut Rng, tiny: bool) -> bool {
    let replay = || json!({"kind": "valid_bytes", "hex": hex(bytes)});
    let index = JsonIndex::build(bytes);
    let root = index.root(bytes);
    let starts = lm::line_starts(bytes);
    let len = bytes.len();
    // text_position of every node
    let node_ids: Vec<usize> = if nodes.len() <= 4000 { (0..nodes.len()).collect() } else { (0..3000).map(|_| r.below(nodes.len())).chain([0, nodes.len() - 1]).collect() };
    for &j in &node_ids {
        let cur = JsonCursor::from_bp_position(&index, bytes, expected_bp(nodes, j));
        rep.eval();
        match catch(|| cur.text_position()) {
            Ok(Some(p)) if p == nodes[j].start => {}
            Ok(g) => {
                rep.violation(format!("C07:text_position:{}", nodes[j].kind), format!("node #{j} ({}) text_position = {g:?}, token starts at {}", nodes[j].kind, nodes[j].start), replay());
                return false;
            }
            Err(p) => {
                rep.violation(format!("C07:text_position:panic:{}", panic_sig(&p)), p, replay());
                return false;
            }
        }
        if j % 5 == 0 {
            let want = lm::to_line_col_fast(&starts, nodes[j].start);
            rep.eval();
            let got = (cur.line(), cur.column());
            if got != want {
                rep.violation("C07:line_column", format!("node #{j} at byte {}: line/column {got:?}, line model {want:?}", nodes[j].start), replay());
                return false;
            }
            rep.count("pos.line_column");
        }
    }
    // cursor_at_offset: node with the greatest start <= o. Node starts ascend in pre-order.
    let offs: Vec<usize> = if tiny {
        (0..len + 3).filter(|o| o % 2 == 0 || *o + 3 >= len).collect()
    } else if len <= 6000 { (0..len + 3).collect() } else { (0..4000).map(|_| r.below(len + 2)).chain(len - 3..len + 3).chain(0..50).collect() };
    for o in offs {
        let want: Option<usize> = if o >= len {
            None
        } else {
            // greatest j with start <= o (binary search over ascending starts)
            let idx = nodes.partition_point(|n| n.start <= o);
            if idx == 0 {
                None
            } else {
                Some(idx - 1)
            }
        };
        let want_bp = want.map(|j| expected_bp(nodes, j));
        rep.eval();
        let got = match catch(|| root.cursor_at_offset(o).map(|c| c.bp_position())) {
            Ok(g) => g,
            Err(p) => {
                rep.violation(format!("C07:cursor_at_offset:panic:{}", panic_sig(&p)), format!("cursor_at_offset({o}): {p}"), replay());
                return false;
            }
        };
        let class = match want {
            None if o >= len => "past_end",
            None => "before_first_node",
            Some(j) if nodes[j].start == o => "on_node_start",
            Some(j) if o < nodes[j].end => "inside_node",
            Some(_) => "after_node_end",
        };
        rep.count(&format!("offset.{class}"));
        if got != want_bp {
            rep.violation(
                format!("C07:cursor_at_offset:{class}"),
                format!("cursor_at_offset({o}) = BP {got:?}; the node with the greatest start <= {o} is {:?} at BP {want_bp:?}", want.map(|j| (j, nodes[j].kind, nodes[j].start))),
                replay(),
            );
            return false;
        }
        // equivalent line/column pair
        if o < len && (len <= 2000 || o % 7 == 0) {
            let (l, c) = lm::to_line_col_fast(&starts, o);
            rep.eval();
            let got2 = match catch(|| root.cursor_at_position(l, c).map(|c| c.bp_position())) {
                Ok(g) => g,
                Err(p) => {
                    rep.violation(format!("C07:cursor_at_position:panic:{}", panic_sig(&p)), format!("cursor_at_position({l},{c}): {p}"), replay());
                    return false;
                }
            };
            if got2 != want_bp {
                rep.violation(
                    format!("C07:cursor_at_position:{class}"),
                    format!("cursor_at_position({l},{c}) (= offset {o}) = BP {got2:?}, expected {want_bp:?}"),
                    replay(),
                );
                return false;
            }
            if l > 1 {
                rep.count("position.line_gt_1");
            }
        }
    }
    // documented None cases of cursor_at_position
    for (l, c) in [(0usize, 1usize), (1, 0), (0, 0), (starts.len() + 1, 1), (starts.len() + 5, 3)] {
        rep.eval();
        match catch(|| root.cursor_at_position(l, c).map(|c| c.bp_position())) {
            Ok(None) => {}
            Ok(g) => {
                rep.violation("C07:cursor_at_position:invalid_pair", format!("cursor_at_position({l},{c}) = BP {g:?}, documented None ({} lines)", starts.len()), replay());
                return false;
            }
            Err(p) => {
                rep.violation(format!("C07:cursor_at_position:panic:{}", panic_sig(&p)), p, replay());
                return false;
            }
        }
    }
    true
}

/// Minimal valid-document span scanner for replays (nodes in pre-order with start/end/depth).
/// Written against RFC 8259 token shapes; used only on replay of documents the generator made.
fn scan_nodes(b: &[u8]) -> Option<Vec<Node>> {
    let mut nodes: Vec<Node> = Vec::new();
    let mut open: Vec<(usize, bool, bool)> = Vec::new(); // (node idx, is_obj, expecting_key)
    let mut i = 0usize;
    while i < b.len() {
        match b[i] {
            b' ' | b'\t' | b'\n' | b'\r' => i += 1,
            b',' => {
                if let Some(t) = open.last_mut() {
                    t.2 = t.1;
                }
                i += 1;
            }
            b':' => i += 1,
            b'}' | b']' => {
                let (idx, _, _) = open.pop()?;
                i += 1;
                nodes[idx].end = i;
            }
            c => {
                let depth = open.len();
                let parent = open.last().map(|t| t.0);
                let is_key = open.last().map(|t| t.1 && t.2).unwrap_or(false);
                let start = i;
                let (kind, end): (&'static str, usize) = match c {
                    b'{' => ("obj", 0),
                    b'[' => ("arr", 0),
                    b'"' => {
                        let mut k = i + 1;
                        loop {
                            match *b.get(k)? {
                                b'"' => break,
                                b'\\' => k += 2,
                                _ => k += 1,
                            }
                        }
                        (if is_key { "key" } else { "str" }, k + 1)
                    }
                    b't' => ("bool", i + 4),
                    b'f' => ("bool", i + 5),
                    b'n' => ("null", i + 4),
                    _ => {
                        let mut k = i;
                        while k < b.len() && matches!(b[k], b'0'..=b'9' | b'-' | b'+' | b'.' | b'e' | b'E') {
                            k += 1;
                        }
                        if k == i {
                            return None;
                        }
                        ("num", k)
                    }
                };
                let idx = nodes.len();
                nodes.push(Node { start, end, role: gj::Role::Root, parent, depth, kind, text: None, value_node: None, children: vec![], keys: vec![] });
                if let Some(t) = open.last_mut() {
                    if is_key {
                        t.2 = false;
                    }
                }
                if kind == "obj" || kind == "arr" {
                    open.push((idx, kind == "obj", kind == "obj"));
                    i += 1;
                } else {
                    i = end;
                }
            }
        }
    }
    if open.is_empty() && !nodes.is_empty() {
        Some(nodes)
    } else {
        None
    }
}

pub fn run(ctx: &Ctx) -> Report {
    let mut rep = Report::new("C07", "c07");
    rep.rule = "case = one byte string (valid document, mutant, soup, arbitrary bytes) with all rank positions, all select \
                ranks x hints, and for valid documents all node positions / offsets; evaluation = one compared answer; \
                non-trivial = input whose IB has >= 2 set bits and >= 2 words, or a valid document with >= 4 nodes; \
                distinct by hash(bytes)"
        .into();
    let mut r = Rng::new(ctx.shard_seed());
    if let Some(rp) = &ctx.replay {
        let bytes = unhex(rp["hex"].as_str().unwrap_or(""));
        check_rank_select(&mut rep, &bytes, "replay", true, &mut r, false);
        if rp["kind"] == "valid_bytes" {
            match scan_nodes(&bytes) {
                Some(nodes) => {
                    check_positions(&mut rep, &bytes, &nodes, &mut r, false);
                }
                None => rep.inconclusive(json!({"why": "replay bytes are not a scannable valid document"})),
            }
        }
        return rep;
    }

    let docs = ctx.n(2000, 20_000, 5);
    let mut big_left = ctx.n(1, 8, 0);
    for i in 0..docs {
        let doc = gen_case(&mut r, ctx.tiny(), big_left > 0, if ctx.tiny() { i + 1 } else { i });
        if doc.tag == "large" {
            big_left -= 1;
        }
        if let Err(why) = generator_crosscheck(&doc) {
            rep.inconclusive(json!({"why": format!("generator-suspect: {why}"), "input": show_bytes(&doc.rd.bytes)}));
            continue;
        }
        let bytes = &doc.rd.bytes;
        rep.count("class.valid");
        // replay scanner self-check against the generator's spans
        if i % 8 == 0 && doc.rd.nodes.len() < 3000 {
            match scan_nodes(bytes) {
                Some(ns) if ns.len() == doc.rd.nodes.len() && ns.iter().zip(&doc.rd.nodes).all(|(a, b)| a.start == b.start && a.end == b.end && a.depth == b.depth && a.kind == b.kind) => rep.count("generator.span_scanner_agrees"),
                _ => {
                    rep.inconclusive(json!({"why": "generator-suspect: span scanner disagrees with the renderer", "input": show_bytes(bytes)}));
                    continue;
                }
            }
        }
        let small = bytes.len() <= 1500;
        let ok = check_rank_select(&mut rep, bytes, "valid", small && i % 3 == 0, &mut r, ctx.tiny());
        if ok {
            match catch(|| check_positions(&mut rep, bytes, &doc.rd.nodes, &mut r, ctx.tiny())) {
                Ok(_) => {}
                Err(p) => rep.violation(format!("C07:positions:panic:{}", panic_sig(&p)), p, json!({"kind": "valid_bytes", "hex": hex(bytes)})),
            }
        }
        if doc.rd.nodes.len() >= 4 {
            rep.nontrivial(fnv(bytes));
        }
        if bytes.len() > 100_000 {
            rep.count("doc.over_100kB");
        }
        if rep.samples.len() < 3 && bytes.len() < 160 && doc.rd.nodes.len() >= 4 {
            rep.sample(json!({"class": "valid", "input": String::from_utf8_lossy(bytes),
                "node_starts": doc.rd.nodes.iter().map(|n| n.start).collect::<Vec<_>>(),
                "expected_bp": (0..doc.rd.nodes.len()).map(|j| expected_bp(&doc.rd.nodes, j)).collect::<Vec<_>>()}));
        }
        // a mutant of it: rank/select only
        if i % 2 == 0 {
            let mut mb = bytes.clone();
            if mb.len() > 20_000 {
                mb.truncate(20_000);
            }
            for _ in 0..r.range(1, 3) {
                let m = gj::random_mutation(&mut r, mb.len());
                mb = gj::apply_mutation(&mb, &m);
            }
            rep.count("class.mutant");
            check_rank_select(&mut rep, &mb, "mutant", false, &mut r, ctx.tiny());
        }
    }
    // soups / arbitrary bytes / structured IB densities
    let max_len = if ctx.tiny() { 100 } else if ctx.thorough() { 40_000 } else { 6000 };
    for i in 0..ctx.n(2000, 20_000, 5) {
        let len = match r.below(8) {
            0 => r.below(4),
            1..=2 => r.below(130),
            3..=5 => r.below(1200),
            _ => r.below(max_len + 1),
        }
        .min(max_len);
        let (bytes, cls): (Vec<u8>, &str) = match i % 5 {
            0 => (gj::json_soup(&mut r, len), "soup"),
            1 => (r.bytes(len), "random"),
            2 => {
                // very dense IB: every byte starts a node
                let alpha: &[u8] = b"[{1 ";
                ((0..len).map(|_| *r.pick(alpha)).collect(), "dense_ib")
            }
            3 => {
                // sparse IB: long strings / whitespace with rare nodes
                let mut v = Vec::with_capacity(len);
                while v.len() < len {
                    if r.chance(1, 40) {
                        v.extend_from_slice(*r.pick(&[&b"[1,"[..], b"\"k\"", b"{", b"7"]));
                    } else {
                        v.push(b' ');
                    }
                }
                v.truncate(len);
                (v, "sparse_ib")
            }
            _ => {
                // no IB at all in long stretches, then a burst
                let mut v = vec![b' '; len];
                if len > 0 {
                    let at = r.below(len);
                    for (k, slot) in v.iter_mut().enumerate().skip(at).take(70) {
                        *slot = if k % 2 == 0 { b'[' } else { b' ' };
                    }
                }
                (v, "burst_ib")
            }
        };
        rep.count(&format!("class.{cls}"));
        let small = bytes.len() <= 1300;
        check_rank_select(&mut rep, &bytes, cls, small && i % 2 == 0 && !ctx.tiny(), &mut r, ctx.tiny());
        let m = sm::standard(&bytes);
        if m.ib.ones() >= 2 && bytes.len() > 64 {
            rep.nontrivial(fnv(&bytes));
        }
        if rep.samples.len() < 5 && cls == "sparse_ib" && bytes.len() > 100 {
            rep.sample(json!({"class": cls, "input": show_bytes(&bytes), "ib_ones": m.ib.ones(), "words": bytes.len().div_ceil(64)}));
        }
    }
    // empty input
    check_rank_select(&mut rep, b"", "empty", true, &mut r, false);

    if !ctx.tiny() {
        rep.require("gallop.hint_exact", 1000);
        rep.require("gallop.forward_near", 1000);
        rep.require("gallop.forward_far", 1000);
        rep.require("gallop.backward_near", 1000);
        rep.require("gallop.backward_far", 1000);
        rep.require("gallop.hint_clamped", 1000);
        rep.require("select.k_ge_ones", 1000);
        rep.require("select.k_ge_2^32", 1000);
        rep.require("rank.multiword", 300);
        rep.require("offset.on_node_start", 1000);
        rep.require("offset.inside_node", 1000);
        rep.require("offset.after_node_end", 1000);
        rep.require("offset.before_first_node", 100);
        rep.require("offset.past_end", 500);
        rep.require("position.line_gt_1", 1000);
        rep.require("pos.line_column", 1000);
    }
    rep
}
