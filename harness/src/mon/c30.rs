//! C30 (library leg) — parsing and evaluating a jq program never panics or aborts.
//!
//! Workload: (A) `jq::parse` on token soups (random tokens incl. non-ASCII, unbalanced and up to
//! 10k-deep brackets) — must return Ok/Err; (B) `parse` + both evaluators on G-JQ `FullExtreme`
//! / `Full` programs over G-JSON inputs (edge numbers, duplicate keys, a few deep documents).
//! Crash = panic (contained by `catch`) or process death (abort on allocation failure, stack
//! overflow), which `catch` cannot contain.
//!
//! Process model. Every case is written to the case log (`--caselog PATH`, overwritten and
//! flushed) *before* it is parsed/evaluated, so a dying process leaves the fatal case behind.
//! * worker mode (`--caselog PATH` given, or `--supervise 0`): everything in this process; a
//!   fatal case kills it. `--skip N` resumes after case N-1 (generation is replayed, evaluation
//!   skipped), `--viollog PATH` receives every violation as a JSON line as soon as it is found.
//! * supervised mode (default at native/small scale): this process only supervises worker
//!   children of itself; when a worker dies it reads the case log, records the death as a
//!   violation (`C30:eval:abort:<how>:<op>`), and restarts the worker after the fatal case.
//! * exit 87 / 88 of a worker = watchdog: a case ran > 30 s / RSS exceeded 6 GiB. These are
//!   budget exhaustions (inconclusive), not crashes.
//! * `--scale tiny` (Miri): parser soups only, in-process, no threads, no children.
//!
//! The documented materialisation guard (`nesting depth exceeds limit of 384`, DESIGN §7 item 8)
//! gets the single narrow signature `C30:eval:panic:depth_limit_384`; every other panic is
//! reported under `panic_sig`.

use crate::gen::jq::{deep_soup, token_soup, Dialect, JqGen, Jx};
use crate::gen::jqrun::{parse_guarded, run_gen, run_lib, RunResult, Terminal};
use crate::gen::json::{gen_deep, gen_tree, TreeOpts};
use crate::report::{panic_sig, Ctx, Report, Scale, Tier};
use crate::rng::{fnv, Rng};
use crate::val::Val;
use serde_json::{json, Value};
use std::io::{Seek, SeekFrom, Write};
use std::sync::atomic::{AtomicU64, Ordering};
use std::sync::Arc;

const DEPTH_MSG: &str = "nesting depth exceeds limit of 384";

struct Logs {
    case: Option<std::fs::File>,
    viol: Option<std::fs::File>,
    /// checkpoint file (`--ckpt PATH`): the report so far + the index it covers
    ckpt: Option<String>,
    progress: Arc<AtomicU64>,
}

impl Logs {
    fn case(&mut self, index: u64, stage: &str, op: &str, prog: &str, input: &str) {
        self.progress.store(index, Ordering::Relaxed);
        if let Some(f) = &mut self.case {
            let rec = json!({"index": index, "stage": stage, "op": op, "program": prog, "input_json": input}).to_string();
            let _ = f.seek(SeekFrom::Start(0));
            let _ = f.set_len(0);
            let _ = f.write_all(rec.as_bytes());
            let _ = f.flush();
        }
    }
    /// Everything before `next_index` is now in the checkpoint; the violation log restarts.
    fn checkpoint(&mut self, rep: &Report, ctx: &Ctx, next_index: u64) {
        let Some(path) = &self.ckpt else { return };
        let body = json!({"next_index": next_index, "report": rep.to_json(ctx)}).to_string();
        let tmp = format!("{path}.tmp");
        if std::fs::write(&tmp, body).is_ok() && std::fs::rename(&tmp, path).is_ok() {
            if let Some(f) = &mut self.viol {
                let _ = f.set_len(0);
                let _ = f.seek(SeekFrom::Start(0));
            }
        }
    }
    fn violation(&mut self, rep: &mut Report, sig: String, msg: String, replay: Value) {
        if let Some(f) = &mut self.viol {
            let _ = writeln!(f, "{}", json!({"sig": sig, "msg": msg, "replay": replay}));
            let _ = f.flush();
        }
        rep.violation(sig, msg, replay);
    }
}

/// `panic_sig` with the two message families that embed input text / meaningful numbers
/// normalised by hand.
fn norm_panic(p: &str) -> String {
    let (msg, loc) = match p.rfind(" @ ") {
        Some(i) => (&p[..i], &p[i + 3..]),
        None => (p, ""),
    };
    let loc = loc.find("src/").map(|i| &loc[i..]).unwrap_or(loc);
    if msg.contains("is not a char boundary") {
        // the message quotes the program text
        return format!("byte index is not a char boundary @ {loc}");
    }
    if msg.starts_with("nesting depth exceeds limit of ") {
        // keep the limit: 256 and 384 are different guards
        return format!("{msg} @ {loc}");
    }
    panic_sig(p)
}

fn eval_sig(p: &str) -> String {
    let msg = p.rfind(" @ ").map(|i| &p[..i]).unwrap_or(p);
    if msg == DEPTH_MSG {
        "C30:eval:panic:depth_limit_384".to_string()
    } else {
        format!("C30:eval:panic:{}", norm_panic(p))
    }
}

fn top_op(e: &Jx) -> &'static str {
    let mut tags = Vec::new();
    e.tags(&mut tags);
    tags.into_iter()
        .find(|t| !matches!(*t, "pipe" | "paren" | "identity" | "lit" | "num" | "str" | "path" | "field" | "index" | "slice" | "iterate" | "comma" | "array" | "object" | "var" | "extreme"))
        .unwrap_or("path")
}

/// Parse + evaluate one program on one input; returns false when a violation was recorded.
fn check_case(rep: &mut Report, logs: &mut Logs, index: u64, op: &str, prog: &str, input: &str, count: bool) -> bool {
    logs.case(index, "parse+eval", op, prog, input);
    rep.eval();
    let replay = || json!({"kind": "case", "program": prog, "input_json": input});
    let expr = match parse_guarded(prog) {
        Ok(Ok(e)) => e,
        Ok(Err(_)) => {
            rep.count("parse.error");
            return true;
        }
        Err(p) => {
            rep.count("parse.panic");
            logs.violation(rep, format!("C30:parse:panic:{}", norm_panic(&p)), format!("jq::parse panicked on `{}`: {p}", cut(prog)), replay());
            return false;
        }
    };
    rep.count("parse.ok");
    let mut ok = true;
    let outcome = |name: &str, r: RunResult, rep: &mut Report, logs: &mut Logs| match r {
        Ok(d) => {
            if count {
                rep.count(&format!("eval.{}", d.term.kind()));
                if let Terminal::Error(m) = &d.term {
                    if m.starts_with("Cannot grow array") {
                        rep.count("guard.cannot_grow_array");
                    }
                }
                if !d.outs.is_empty() {
                    rep.count("eval.with_outputs");
                }
            }
            true
        }
        Err(p) => {
            rep.count("eval.panic");
            let sig = eval_sig(&p);
            if sig.ends_with("depth_limit_384") {
                rep.count("eval.panic.depth_limit_384");
            }
            logs.violation(rep, sig, format!("{name} evaluator panicked on `{}` with input {}: {p}", cut(prog), cut(input)), replay());
            false
        }
    };
    ok &= outcome("library", run_lib(&expr, input.as_bytes()), rep, logs);
    ok &= outcome("generic", run_gen(&expr, input.as_bytes()), rep, logs);
    ok
}

fn check_soup(rep: &mut Report, logs: &mut Logs, index: u64, kind: &str, text: &str) {
    logs.case(index, "parse", kind, text, "null");
    rep.eval();
    rep.count(&format!("soup.{kind}"));
    match parse_guarded(text) {
        Ok(Ok(_)) => rep.count("soup.parsed"),
        Ok(Err(_)) => rep.count("soup.rejected"),
        Err(p) => {
            rep.count("parse.panic");
            logs.violation(
                rep,
                format!("C30:parse:panic:{}", norm_panic(&p)),
                format!("jq::parse panicked on `{}` ({} bytes): {p}", cut(text), text.len()),
                json!({"kind": "soup", "program": text}),
            );
        }
    }
    if !text.is_ascii() {
        rep.count("soup.non_ascii");
    }
}

fn cut(s: &str) -> String {
    if s.len() <= 240 {
        return s.to_string();
    }
    let mut c = 240;
    while !s.is_char_boundary(c) {
        c -= 1;
    }
    format!("{}…", &s[..c])
}

fn gen_input(r: &mut Rng) -> Val {
    if r.chance(1, 60) {
        // a deep document: materialisation guards live here
        let d = *r.pick(&[100usize, 250, 300, 390, 500]);
        let kind = r.below(3) as u8;
        return gen_deep(r, d, kind);
    }
    let o = TreeOpts {
        max_depth: *r.pick(&[1usize, 2, 3, 5]),
        max_width: *r.pick(&[2usize, 3, 4, 6]),
        budget: *r.pick(&[6usize, 12, 25]),
        dup_keys: r.chance(1, 5),
        str_class: r.below(4) as u8,
        max_str: *r.pick(&[4usize, 10, 24]),
        num_class: *r.pick(&[0u8, 2, 2]),
        simple_keys: r.chance(1, 2),
    };
    let v = gen_tree(r, &o);
    if !v.is_container() && r.chance(2, 3) {
        return Val::Arr(vec![v, gen_tree(r, &o)]);
    }
    v
}

/// Programs whose *defined* result is an impossibly large string: the answer must be a value
/// or an error. Where the library instead asks the allocator, the process aborts, so these run
/// last (a supervisor restarts the worker after each death).
const IMPOSSIBLE_REPEATS: &[(&str, &str)] = &[
    ("\"a\" * 1e17", "null"),
    ("\"abc\" * 1e308", "null"),
    ("1e18 * \"x\"", "null"),
    (". * 4611686018427387904", "\"ab\""),
    (".[0] * .[1]", "[\"a\",100000000000000000]"),
    ("\"a\" * infinite | length", "null"),
    ("try (\"a\" * 1e17) catch .", "null"),
    ("[limit(1; \"a\" * 9223372036854775807)]", "null"),
    ("\"\" * 1e19", "null"),
    (".a *= 1e17", "{\"a\":\"x\"}"),
    ("\"x\" * 1e17 | .[0:1]", "null"),
    ("[.[] | . * 1e18]", "[\"a\",\"b\"]"),
];

/// The whole deterministic workload, addressed by case index so that a restarted worker can
/// resume in O(1): every case draws from its own RNG stream `fork(index)`.
fn run_worker(ctx: &Ctx, rep: &mut Report) {
    let skip: u64 = ctx.arg("skip").and_then(|s| s.parse().ok()).unwrap_or(0);
    let progress = Arc::new(AtomicU64::new(0));
    let mut logs = Logs {
        case: ctx.arg("caselog").and_then(|p| std::fs::OpenOptions::new().create(true).write(true).truncate(true).open(p).ok()),
        viol: ctx.arg("viollog").and_then(|p| std::fs::OpenOptions::new().create(true).write(true).truncate(true).open(p).ok()),
        ckpt: ctx.arg("ckpt").map(|s| s.to_string()),
        progress: progress.clone(),
    };
    if !ctx.tiny() {
        spawn_watchdog(progress, ctx.scale == Scale::Small);
    }
    let base = Rng::new(ctx.shard_seed());
    let n_soup = ctx.n(8000, 100_000, 160) as u64;
    let n_deep = ctx.n(120, 1200, 12) as u64;
    let n_inputs = ctx.n(4000, 60_000, 0) as u64;
    let n_builders = if ctx.tiny() { 0 } else { DEEP_BUILDERS.len() as u64 };
    let n_fixed_rep = if ctx.tiny() { 0 } else { ctx.n(6, IMPOSSIBLE_REPEATS.len(), 0).min(IMPOSSIBLE_REPEATS.len()) as u64 };
    let n_rand_rep = ctx.n(2, 30, 0) as u64;
    let b_deep = n_soup;
    let b_prog = b_deep + n_deep;
    let b_build = b_prog + 3 * n_inputs;
    let b_fixed = b_build + n_builders;
    let b_rand = b_fixed + n_fixed_rep;
    let total = b_rand + n_rand_rep;
    let mut g = JqGen::new();
    if skip == 0 {
        for d in &g.dropped {
            rep.note(format!("builtin table entry dropped: {d}"));
        }
    }
    for index in skip..total {
        let mut r = base.fork(index);
        if index > skip && (index % 1000 == 0 || index >= b_fixed) {
            let (cur, n) = (rep.get("builtin_coverage"), g.used.len() as u64);
            if n > cur {
                rep.add("builtin_coverage", n - cur);
            }
            logs.checkpoint(rep, ctx, index);
        }
        if index < b_deep {
            let max_tokens = *r.pick(&[3usize, 8, 20, 60]);
            let text = token_soup(&mut r, max_tokens);
            check_soup(rep, &mut logs, index, "tokens", &text);
        } else if index < b_prog {
            let depth = if ctx.tiny() { *r.pick(&[8usize, 40, 130]) } else { *r.pick(&[50usize, 200, 257, 300, 1000, 3000, 10_000, 10_000, 200_000]) };
            let text = deep_soup(&mut r, depth);
            check_soup(rep, &mut logs, index, "deep", &text);
            if index < b_deep + 2 {
                rep.sample(json!({"soup": cut(&text), "bytes": text.len()}));
            }
        } else if index < b_build {
            let k = (index - b_prog) % 3;
            let input = gen_input(&mut base.fork(1 << 40 | (index - b_prog) / 3));
            let text = input.to_json_text();
            let dialect = if k == 2 { Dialect::Full } else { Dialect::FullExtreme };
            let e = g.gen(&mut r, dialect, &input);
            let prog = e.print();
            if prog_has_extreme(&e) {
                rep.count("programs.with_extreme_operand");
            }
            rep.count("programs");
            if input.depth() > 256 {
                rep.count("inputs.deeper_than_256");
            }
            if check_case(rep, &mut logs, index, top_op(&e), &prog, &text, true) {
                let mut h = fnv(prog.as_bytes());
                h ^= fnv(text.as_bytes()).rotate_left(13);
                rep.nontrivial(h);
            }
            if index < b_prog + 3 {
                rep.sample(json!({"program": cut(&prog), "input_json": cut(&text)}));
            }
        } else if index < b_fixed {
            // fixed shapes: deep value builders (only the documented 384 guard may trip) and regressions
            let (p, inp) = DEEP_BUILDERS[(index - b_build) as usize];
            rep.count("programs.fixed_shapes");
            check_case(rep, &mut logs, index, "deep-builder", p, inp, true);
        } else if index < b_rand {
            let (p, inp) = IMPOSSIBLE_REPEATS[(index - b_fixed) as usize];
            rep.count("programs.impossible_repeat");
            check_case(rep, &mut logs, index, "string-repeat", p, inp, true);
        } else {
            g.allow_huge_repeat = true;
            let input = gen_input(&mut r);
            let text = input.to_json_text();
            let e = g.gen(&mut r, Dialect::FullExtreme, &input);
            g.allow_huge_repeat = false;
            rep.count("programs.impossible_repeat_random");
            check_case(rep, &mut logs, index, top_op(&e), &e.print(), &text, true);
        }
    }
    let (cur, n) = (rep.get("builtin_coverage"), g.used.len() as u64);
    if n > cur {
        rep.add("builtin_coverage", n - cur);
    }
    rep.add("cases.total", total);
}

const DEEP_BUILDERS: &[(&str, &str)] = &[
    ("reduce range(0; 400) as $i (.; [.]) | tojson | length", "null"),
    ("reduce range(0; 300) as $i (.; {a: .}) | [paths] | length", "1"),
    ("(\"[\" * 300) + (\"]\" * 300) | fromjson | tojson | length", "null"),
    ("(\"[\" * 2000) + (\"]\" * 2000) | fromjson | length", "null"),
    ("reduce range(0; 1000) as $i (.; [.]) | length", "null"),
    ("last(limit(500; repeat([.]))) | length", "null"),
    // shapes first met by random exploration, kept so that every run re-checks them
    ("del(.[0].a?, .[1])", "[\"x\",\"\"]"),
    ("del(.[1], .[0].key?)", "[1,2]"),
    ("1,\"é\"", "null"),
    ("[.[] | \"é\\(.)é\"]", "[1]"),
];

fn prog_has_extreme(e: &Jx) -> bool {
    let mut tags = Vec::new();
    e.tags(&mut tags);
    tags.iter().any(|t| *t == "extreme" || *t == "extreme-template") || crate::gen::jq::EXTREMES.iter().any(|x| x.len() > 3 && e.print().contains(x))
}

/// A hung or memory-hungry case must not hang the run: exit 87 (time) / 88 (RSS).
fn spawn_watchdog(progress: Arc<AtomicU64>, slow: bool) {
    let limit_ms: u128 = if slow { 240_000 } else { 30_000 };
    let _ = std::thread::Builder::new().name("c30-watchdog".into()).spawn(move || {
        let mut last = progress.load(Ordering::Relaxed);
        let mut since = std::time::Instant::now();
        loop {
            std::thread::sleep(std::time::Duration::from_millis(250));
            let cur = progress.load(Ordering::Relaxed);
            if cur != last {
                last = cur;
                since = std::time::Instant::now();
            } else if since.elapsed().as_millis() > limit_ms {
                eprintln!("c30 watchdog: case {cur} exceeded the time budget");
                std::process::exit(87);
            }
            if let Ok(s) = std::fs::read_to_string("/proc/self/statm") {
                let rss_pages: u64 = s.split_whitespace().nth(1).and_then(|x| x.parse().ok()).unwrap_or(0);
                if rss_pages * 4096 > 6 << 30 {
                    eprintln!("c30 watchdog: case {cur} exceeded the RSS budget");
                    std::process::exit(88);
                }
            }
        }
    });
}

fn merge_worker_report(rep: &mut Report, w: &Value) {
    rep.evals(w["evaluations"].as_u64().unwrap_or(0));
    if let Some(c) = w["counters"].as_object() {
        for (k, v) in c {
            if k == "cases.total" || k == "builtin_coverage" {
                let cur = rep.get(k);
                let n = v.as_u64().unwrap_or(0);
                if n > cur {
                    rep.add(k, n - cur);
                }
            } else {
                rep.add(k, v.as_u64().unwrap_or(0));
            }
        }
    }
    for k in w["distinct_keys"].as_array().into_iter().flatten() {
        if let Some(h) = k.as_str().and_then(|s| u64::from_str_radix(s, 16).ok()) {
            rep.nontrivial(h);
        }
    }
    for s in w["samples"].as_array().into_iter().flatten() {
        rep.sample(s.clone());
    }
    for n in w["notes"].as_array().into_iter().flatten() {
        if let Some(s) = n.as_str() {
            if !rep.notes.iter().any(|x| x == s) {
                rep.note(s);
            }
        }
    }
    for i in w["inconclusive"].as_array().into_iter().flatten() {
        rep.inconclusive(i.clone());
    }
    for v in w["violations"].as_array().into_iter().flatten() {
        rep.violation(v["sig"].as_str().unwrap_or("C30:?"), v["msg"].as_str().unwrap_or(""), v["replay"].clone());
    }
    // occurrences beyond the per-signature witness cap are only counted
    if let Some(sc) = w["violation_sig_counts"].as_object() {
        for (sig, n) in sc {
            let have = w["violations"].as_array().map(|a| a.iter().filter(|v| v["sig"] == *sig).count()).unwrap_or(0) as u64;
            for _ in have..n.as_u64().unwrap_or(0) {
                rep.violation(sig.clone(), "(further occurrence in a worker)", Value::Null);
            }
        }
    }
}

/// Run the workload in worker children; survive (and record) their deaths.
fn supervise(ctx: &Ctx, rep: &mut Report) {
    let exe = match std::env::current_exe() {
        Ok(e) => e,
        Err(e) => {
            rep.note(format!("cannot find own executable ({e}); running in-process"));
            run_worker(ctx, rep);
            return;
        }
    };
    let dir = std::env::temp_dir();
    let tag = format!("svh-c30-{}-{}-{}", std::process::id(), ctx.seed, ctx.shard);
    let caselog = dir.join(format!("{tag}.case.json"));
    let viollog = dir.join(format!("{tag}.viol.jsonl"));
    let out = dir.join(format!("{tag}.out.json"));
    let ckpt = dir.join(format!("{tag}.ckpt.json"));
    let mut skip: u64 = 0;
    let mut deaths = 0u32;
    loop {
        let _ = std::fs::remove_file(&caselog);
        let _ = std::fs::remove_file(&viollog);
        let _ = std::fs::remove_file(&out);
        let _ = std::fs::remove_file(&ckpt);
        let status = std::process::Command::new(&exe)
            .arg("c30")
            .args(["--seed", &ctx.seed.to_string()])
            .args(["--tier", if ctx.tier == Tier::Thorough { "thorough" } else { "quick" }])
            .args(["--scale", match ctx.scale { Scale::Native => "native", Scale::Small => "small", Scale::Tiny => "tiny" }])
            .args(["--shard", &format!("{}/{}", ctx.shard, ctx.shards)])
            .args(["--skip", &skip.to_string()])
            .args(["--caselog", &caselog.to_string_lossy()])
            .args(["--viollog", &viollog.to_string_lossy()])
            .args(["--ckpt", &ckpt.to_string_lossy()])
            .args(["--out", &out.to_string_lossy()])
            .env("RUST_BACKTRACE", "0")
            .stderr(std::process::Stdio::null())
            .status();
        let status = match status {
            Ok(s) => s,
            Err(e) => {
                rep.note(format!("cannot spawn worker ({e}); running in-process"));
                run_worker(ctx, rep);
                break;
            }
        };
        if status.success() {
            match std::fs::read_to_string(&out).ok().and_then(|t| serde_json::from_str::<Value>(&t).ok()) {
                Some(w) => merge_worker_report(rep, &w),
                None => rep.note("worker finished but its report is unreadable"),
            }
            break;
        }
        // the worker died: what was it doing?
        deaths += 1;
        rep.count("worker.deaths");
        let mut covered = skip;
        if let Some(c) = std::fs::read_to_string(&ckpt).ok().and_then(|t| serde_json::from_str::<Value>(&t).ok()) {
            merge_worker_report(rep, &c["report"]);
            covered = c["next_index"].as_u64().unwrap_or(skip);
        }
        for line in std::fs::read_to_string(&viollog).unwrap_or_default().lines() {
            if let Ok(v) = serde_json::from_str::<Value>(line) {
                rep.violation(v["sig"].as_str().unwrap_or("C30:?"), v["msg"].as_str().unwrap_or(""), v["replay"].clone());
            }
        }
        let case = std::fs::read_to_string(&caselog).ok().and_then(|t| serde_json::from_str::<Value>(&t).ok());
        let Some(case) = case else {
            rep.note(format!("worker died ({status}) without a readable case log; stopping"));
            rep.inconclusive(json!({"reason": "worker died without case log", "status": status.to_string()}));
            break;
        };
        let index = case["index"].as_u64().unwrap_or(skip);
        rep.evals(index.saturating_sub(covered) + 1);
        let how = describe_status(&status);
        let prog = case["program"].as_str().unwrap_or("");
        let input = case["input_json"].as_str().unwrap_or("null");
        match status.code() {
            Some(87) | Some(88) => {
                rep.count("worker.budget_exits");
                rep.inconclusive(json!({"reason": if status.code() == Some(87) { "time budget (30 s) exceeded" } else { "RSS budget (6 GiB) exceeded" },
                    "program": prog, "input_json": input, "index": index}));
            }
            _ => {
                let stage = case["stage"].as_str().unwrap_or("eval");
                let op = case["op"].as_str().unwrap_or("?");
                rep.violation(
                    format!("C30:{}:abort:{how}:{op}", if stage == "parse" { "parse" } else { "eval" }),
                    format!("worker process died ({how}) while handling case {index}: `{}` with input {}", cut(prog), cut(input)),
                    json!({"kind": if stage == "parse" { "soup" } else { "case" }, "program": prog, "input_json": input, "death": how}),
                );
            }
        }
        skip = index + 1;
        if deaths >= 400 {
            rep.note("more than 400 worker deaths; stopping early");
            rep.inconclusive(json!({"reason": "too many worker deaths", "resume_at": skip}));
            break;
        }
    }
    let _ = std::fs::remove_file(&caselog);
    let _ = std::fs::remove_file(&viollog);
    let _ = std::fs::remove_file(&out);
    let _ = std::fs::remove_file(&ckpt);
}

/// Re-run one recorded case in a worker child; a death is reported as the abort it is.
fn replay_supervised(ctx: &Ctx, rp: &Value, rep: &mut Report) {
    let dir = std::env::temp_dir();
    let tag = format!("svh-c30-replay-{}", std::process::id());
    let file = dir.join(format!("{tag}.in.json"));
    let out = dir.join(format!("{tag}.out.json"));
    let exe = std::env::current_exe();
    let (Ok(exe), Ok(())) = (exe, std::fs::write(&file, json!({"replay": rp}).to_string())) else {
        rep.note("cannot set up a replay child; re-run with --supervise 0");
        return;
    };
    let status = std::process::Command::new(exe)
        .arg("c30")
        .args(["--replay", &file.to_string_lossy()])
        .args(["--supervise", "0"])
        .args(["--seed", &ctx.seed.to_string()])
        .args(["--out", &out.to_string_lossy()])
        .env("RUST_BACKTRACE", "0")
        .stderr(std::process::Stdio::null())
        .status();
    match status {
        Ok(st) if st.success() => match std::fs::read_to_string(&out).ok().and_then(|t| serde_json::from_str::<Value>(&t).ok()) {
            Some(w) => merge_worker_report(rep, &w),
            None => rep.note("replay child finished but its report is unreadable"),
        },
        Ok(st) => {
            rep.eval();
            let how = describe_status(&st);
            let stage = if rp["kind"] == "soup" { "parse" } else { "eval" };
            rep.violation(
                format!("C30:{stage}:abort:{how}:replay"),
                format!("replay child died ({how}) on `{}` with input {}", cut(rp["program"].as_str().unwrap_or("")), cut(rp["input_json"].as_str().unwrap_or("null"))),
                rp.clone(),
            );
        }
        Err(e) => rep.note(format!("cannot spawn replay child: {e}")),
    }
    let _ = std::fs::remove_file(&file);
    let _ = std::fs::remove_file(&out);
}

fn describe_status(s: &std::process::ExitStatus) -> String {
    #[cfg(unix)]
    {
        use std::os::unix::process::ExitStatusExt;
        if let Some(sig) = s.signal() {
            return match sig {
                6 => "SIGABRT".into(),
                11 => "SIGSEGV".into(),
                9 => "SIGKILL".into(),
                7 => "SIGBUS".into(),
                n => format!("signal{n}"),
            };
        }
    }
    match s.code() {
        Some(c) => format!("exit{c}"),
        None => "unknown".into(),
    }
}

pub fn run(ctx: &Ctx) -> Report {
    let mut rep = Report::new("C30", "c30");
    rep.rule = "case = one program text (token soup, or G-JQ full/extreme program that parses) on one G-JSON input; parse and \
                both evaluators must return; non-trivial = a generated program that parsed and was evaluated by both \
                evaluators without a crash; distinct by hash(program, input)"
        .into();
    if let Some(rp) = &ctx.replay {
        if !ctx.tiny() && ctx.arg("caselog").is_none() && ctx.arg("supervise") != Some("0") {
            // replay in a child so that a fatal case still yields a report
            replay_supervised(ctx, rp, &mut rep);
            return rep;
        }
        let prog = rp["program"].as_str().unwrap_or(".");
        let input = rp["input_json"].as_str().unwrap_or("null");
        let mut logs = Logs {
            case: ctx.arg("caselog").and_then(|p| std::fs::File::create(p).ok()),
            viol: None,
            ckpt: None,
            progress: Arc::new(AtomicU64::new(0)),
        };
        if rp["kind"] == "soup" {
            check_soup(&mut rep, &mut logs, 0, "replay", prog);
        } else {
            check_case(&mut rep, &mut logs, 0, "replay", prog, input, true);
        }
        return rep;
    }
    let worker = ctx.tiny() || ctx.arg("caselog").is_some() || ctx.arg("supervise") == Some("0");
    if worker {
        run_worker(ctx, &mut rep);
    } else {
        supervise(ctx, &mut rep);
    }
    // requirements are stated for complete runs only (a resumed worker covers a suffix)
    if !ctx.tiny() && ctx.arg("skip").is_none_or(|s| s == "0") {
        rep.require("soup.tokens", 5000);
        rep.require("soup.deep", 100);
        rep.require("soup.non_ascii", 1000);
        rep.require("programs", 8000);
        rep.require("programs.with_extreme_operand", 2000);
        rep.require("eval.with_outputs", 3000);
        rep.require("guard.cannot_grow_array", 5);
    } else if ctx.tiny() {
        rep.require("soup.tokens", 100);
    }
    rep
}
