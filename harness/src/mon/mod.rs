//! One monitor per library-level property. Each exposes `pub fn run(ctx: &Ctx) -> Report`;
//! when `ctx.replay` is set the monitor re-runs only that recorded case.

use crate::report::{Ctx, Report};

pub mod c01;
pub mod c02;
pub mod c03;
pub mod c04;
pub mod c05;
pub mod c06;
pub mod c07;
pub mod c08;
pub mod c09;
pub mod c10;
pub mod c12;
pub mod c13;
pub mod c14;
pub mod c16;
pub mod c17;
pub mod c18;
pub mod c19;
pub mod c20;
pub mod c21;
pub mod c23;
pub mod c25;
pub mod c28;
pub mod c29;
pub mod c30;
pub mod c31;
pub mod c32;

pub type MonFn = fn(&Ctx) -> Report;

pub fn registry() -> Vec<(&'static str, MonFn)> {
    vec![
        ("c01", c01::run as MonFn),
        ("c02", c02::run as MonFn),
        ("c03", c03::run as MonFn),
        ("c04", c04::run as MonFn),
        ("c05", c05::run as MonFn),
        ("c06", c06::run as MonFn),
        ("c07", c07::run as MonFn),
        ("c08", c08::run as MonFn),
        ("c09", c09::run as MonFn),
        ("c10", c10::run as MonFn),
        ("c12", c12::run as MonFn),
        ("c13", c13::run as MonFn),
        ("c17", c17::run as MonFn),
        ("c18", c18::run as MonFn),
        ("c19", c19::run as MonFn),
        ("c20", c20::run as MonFn),
        ("c21", c21::run as MonFn),
        ("c23", c23::run as MonFn),
        ("c25", c25::run as MonFn),
        ("c28", c28::run as MonFn),
        ("c29", c29::run as MonFn),
        ("c30", c30::run as MonFn),
        ("c31", c31::run as MonFn),
        ("c32", c32::run as MonFn),
        ("c14", c14::run as MonFn),
        ("c16k", c16::run_k as MonFn),
        ("c16d", c16::run_d as MonFn),
    ]
}

pub fn find(name: &str) -> Option<MonFn> {
    registry().into_iter().find(|(n, _)| *n == name).map(|(_, f)| f)
}
