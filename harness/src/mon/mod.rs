//! One monitor per library-level property. Each exposes `pub fn run(ctx: &Ctx) -> Report`;
//! when `ctx.replay` is set the monitor re-runs only that recorded case.

use crate::report::{Ctx, Report};

pub mod c12;

pub type MonFn = fn(&Ctx) -> Report;

pub fn registry() -> Vec<(&'static str, MonFn)> {
    vec![("c12", c12::run as MonFn)]
}

pub fn find(name: &str) -> Option<MonFn> {
    registry().into_iter().find(|(n, _)| *n == name).map(|(_, f)| f)
}
