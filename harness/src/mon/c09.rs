//! C09 — JSON string escaping round-trips and escapes exactly the required set; the vectorised
//! escape scanner finds exactly the first quote, backslash or C0 byte at or after any start.
//!
//! Oracles (independent of succinctly):
//!   * decode: `serde_json::from_str::<String>("\"" + body + "\"")` must equal the input;
//!   * escape set: the body is tokenised by a small RFC 8259 string-body tokeniser written here
//!     into one unit per source character (raw character, short escape, `\uXXXX`, surrogate
//!     pair); unit i must spell source character i, and unit i is an escape ⇔ the convention's
//!     set (from the property text) contains that character:
//!       jq  : C0 controls, DEL, `"`, `\`        yq : C0 controls, `"`, `\`
//!       *_ascii: additionally every non-ASCII character;
//!   * scanner: naive "first index >= start whose byte is `"`, `\` or < 0x20, else len".
//!
//! The scanner itself (`util::simd::escape`) is crate-private; it is reachable as the public
//! re-export `succinctly::yaml::simd::find_json_escape` (the dispatching entry: AVX2 kernel on an
//! AVX2 host, SSE2 kernel otherwise — i.e. SSE2 in the Miri base leg, AVX2 in the Miri avx2 leg)
//! and through `write_json_body_yq`, which copies the spans between hits.

use crate::gen::json::gen_string;
use crate::gen::utf8 as gu;
use crate::report::{catch, hex, panic_sig, unhex, Ctx, Report};
use crate::rng::{fnv, mix, Rng};
use serde_json::json;
use succinctly::jq::escape::{
    escape_json_body, write_json_body_jq, write_json_body_jq_ascii, write_json_body_yq, write_json_body_yq_ascii,
};
use succinctly::yaml::simd::find_json_escape;

/// `panic_sig` with everything after the first variable part of the message dropped (messages
/// such as "byte index 17 is not a char boundary; it is inside 'é'" quote input data).
fn psig(p: &str) -> String {
    let s = panic_sig(p);
    match s.rsplit_once(" @ ") {
        Some((m, loc)) => format!("{} @ {loc}", m.split('#').next().unwrap_or("").trim_end()),
        None => s,
    }
}

type Writer = fn(&mut String, &str) -> core::fmt::Result;

struct Conv {
    name: &'static str,
    write: Writer,
    del: bool,
    ascii: bool,
    k_escaped: &'static str,
    k_raw: &'static str,
}

const CONVS: &[Conv] = &[
    Conv { name: "write_json_body_jq", write: write_json_body_jq::<String>, del: true, ascii: false, k_escaped: "units.jq.escaped", k_raw: "units.jq.raw" },
    Conv { name: "write_json_body_jq_ascii", write: write_json_body_jq_ascii::<String>, del: true, ascii: true, k_escaped: "units.jq_ascii.escaped", k_raw: "units.jq_ascii.raw" },
    Conv { name: "write_json_body_yq", write: write_json_body_yq::<String>, del: false, ascii: false, k_escaped: "units.yq.escaped", k_raw: "units.yq.raw" },
    Conv { name: "write_json_body_yq_ascii", write: write_json_body_yq_ascii::<String>, del: false, ascii: true, k_escaped: "units.yq_ascii.escaped", k_raw: "units.yq_ascii.raw" },
];

fn must_escape(cv: &Conv, c: char) -> bool {
    let u = c as u32;
    u < 0x20 || c == '"' || c == '\\' || (cv.del && u == 0x7F) || (cv.ascii && u >= 0x80)
}

fn char_class(c: char) -> &'static str {
    match c as u32 {
        0x22 => "quote",
        0x5C => "backslash",
        0..=0x1F => "c0",
        0x7F => "del",
        0x20..=0x7E => "ascii",
        0x80..=0x9F => "c1",
        0xA0..=0xFFFF => "bmp",
        _ => "astral",
    }
}

#[derive(Default)]
struct Stats {
    c: std::collections::BTreeMap<&'static str, u64>,
    mod32: [bool; 32],
}
impl Stats {
    #[inline]
    fn hit(&mut self, k: &'static str) {
        *self.c.entry(k).or_insert(0) += 1;
    }
    fn flush(self, rep: &mut Report) {
        for (k, v) in self.c {
            rep.add(k, v);
        }
        rep.add("str.hit_offsets_mod_32_distinct", self.mod32.iter().filter(|&&x| x).count() as u64);
    }
}

/// One unit of a JSON string body: (is an escape, character it spells, form).
fn tokenise(body: &str) -> Result<Vec<(bool, char, &'static str)>, String> {
    fn hex4(it: &mut std::str::Chars<'_>) -> Result<u32, String> {
        let mut v = 0u32;
        for _ in 0..4 {
            let d = it.next().ok_or("short \\u escape")?.to_digit(16).ok_or("bad hex digit in \\u escape")?;
            v = v * 16 + d;
        }
        Ok(v)
    }
    let mut out = Vec::new();
    let mut it = body.chars();
    while let Some(c) = it.next() {
        if c != '\\' {
            out.push((false, c, "raw"));
            continue;
        }
        let e = it.next().ok_or("dangling backslash")?;
        let unit = match e {
            '"' => (true, '"', "short"),
            '\\' => (true, '\\', "short"),
            '/' => (true, '/', "short"),
            'b' => (true, '\u{8}', "short"),
            'f' => (true, '\u{c}', "short"),
            'n' => (true, '\n', "short"),
            'r' => (true, '\r', "short"),
            't' => (true, '\t', "short"),
            'u' => {
                let v = hex4(&mut it)?;
                if (0xD800..=0xDBFF).contains(&v) {
                    if it.next() != Some('\\') || it.next() != Some('u') {
                        return Err("high surrogate escape not followed by \\u".into());
                    }
                    let lo = hex4(&mut it)?;
                    if !(0xDC00..=0xDFFF).contains(&lo) {
                        return Err("high surrogate escape not followed by a low surrogate".into());
                    }
                    let cp = 0x10000 + ((v - 0xD800) << 10) + (lo - 0xDC00);
                    (true, char::from_u32(cp).ok_or("bad surrogate pair")?, "pair")
                } else if (0xDC00..=0xDFFF).contains(&v) {
                    return Err("lone low surrogate escape".into());
                } else {
                    (true, char::from_u32(v).ok_or("bad \\u value")?, "u4")
                }
            }
            other => return Err(format!("unknown escape \\{other}")),
        };
        out.push(unit);
    }
    Ok(out)
}

/// Check one string on all four writers. Returns a digest of the four bodies.
fn check_str(rep: &mut Report, st: &mut Stats, s: &str) -> u64 {
    let replay = || json!({"kind": "str", "utf8_hex": hex(s.as_bytes())});
    let mut dig = fnv(s.as_bytes());
    for cv in CONVS {
        rep.eval();
        let body = match catch(|| {
            let mut out = String::new();
            let r = (cv.write)(&mut out, s);
            (out, r)
        }) {
            Ok((out, Ok(()))) => out,
            Ok((_, Err(_))) => {
                rep.violation(format!("C09:{}:fmt_error", cv.name), "writer returned fmt::Error on a String", replay());
                continue;
            }
            Err(p) => {
                rep.violation(format!("C09:{}:panic:{}", cv.name, psig(&p)), p, replay());
                continue;
            }
        };
        dig = mix(dig, fnv(body.as_bytes()));
        // 1. decodes back
        let quoted = format!("\"{body}\"");
        match serde_json::from_str::<String>(&quoted) {
            Ok(back) if back == s => {}
            Ok(back) => {
                rep.violation(
                    format!("C09:{}:decodes_to_other_string", cv.name),
                    format!("input {:?} body {:?} decodes to {:?}", clip(s), clip(&body), clip(&back)),
                    replay(),
                );
                continue;
            }
            Err(e) => {
                rep.violation(
                    format!("C09:{}:body_not_a_json_string", cv.name),
                    format!("input {:?} body {:?}: {e}", clip(s), clip(&body)),
                    replay(),
                );
                continue;
            }
        }
        // 2. escaped exactly when required
        let units = match tokenise(&body) {
            Ok(u) => u,
            Err(e) => {
                rep.inconclusive(json!({"what": "tokeniser rejects a body serde_json accepted", "why": e, "body": clip(&body)}));
                continue;
            }
        };
        let mut src = s.chars();
        let mut ok = true;
        for (escaped, ch, _form) in &units {
            let Some(c) = src.next() else {
                ok = false;
                rep.violation(format!("C09:{}:more_units_than_characters", cv.name), format!("input {:?} body {:?}", clip(s), clip(&body)), replay());
                break;
            };
            if *ch != c {
                ok = false;
                rep.violation(
                    format!("C09:{}:unit_spells_other_character", cv.name),
                    format!("unit spells U+{:04X}, source character is U+{:04X}", *ch as u32, c as u32),
                    replay(),
                );
                break;
            }
            let need = must_escape(cv, c);
            if *escaped != need {
                ok = false;
                let what = if need { "required_not_escaped" } else { "escaped_not_required" };
                rep.violation(
                    format!("C09:{}:{what}:{}", cv.name, char_class(c)),
                    format!("U+{:04X} in {:?} -> body {:?}", c as u32, clip(s), clip(&body)),
                    replay(),
                );
                break;
            }
            st.hit(if *escaped { cv.k_escaped } else { cv.k_raw });
        }
        if ok && src.next().is_some() {
            rep.violation(format!("C09:{}:fewer_units_than_characters", cv.name), format!("input {:?} body {:?}", clip(s), clip(&body)), replay());
        }
    }
    // data-derived classes for the span-copy path (yq escape set = scanner set)
    let b = s.as_bytes();
    let mut last = 0usize;
    for (i, &x) in b.iter().enumerate() {
        if x == b'"' || x == b'\\' || x < 0x20 {
            st.mod32[i % 32] = true;
            if i - last >= 32 {
                st.hit("str.clean_span_ge_32_before_hit");
            }
            if i > 0 && b[i - 1] >= 0x80 {
                st.hit("str.hit_right_after_multibyte");
            }
            last = i + 1;
        }
    }
    if b.len() - last >= 32 {
        st.hit("str.clean_tail_ge_32");
    }
    for (i, c) in s.char_indices() {
        let n = c.len_utf8();
        if n > 1 && i / 32 != (i + n - 1) / 32 {
            st.hit(if n == 4 { "str.astral_straddles_32_edge" } else { "str.multibyte_straddles_32_edge" });
            break;
        }
    }
    dig
}

fn clip(s: &str) -> String {
    s.chars().take(80).collect()
}

fn naive_find(b: &[u8], start: usize) -> usize {
    let mut i = start;
    while i < b.len() {
        if b[i] == b'"' || b[i] == b'\\' || b[i] < 0x20 {
            return i;
        }
        i += 1;
    }
    b.len()
}

fn check_scan(rep: &mut Report, st: &mut Stats, b: &[u8], start: usize) {
    rep.eval();
    let want = naive_find(b, start);
    let replay = || json!({"kind": "scan", "hex": hex(b), "start": start});
    match catch(|| find_json_escape(b, start)) {
        Err(p) => rep.violation(format!("C09:find_json_escape:panic:{}", psig(&p)), p, replay()),
        Ok(got) => {
            if got != want {
                let cls = if got > want {
                    "missed_hit"
                } else if got < b.len() && b[got] >= 0x80 {
                    "false_hit_on_high_byte"
                } else {
                    "false_hit"
                };
                rep.violation(
                    format!("C09:find_json_escape:{cls}"),
                    format!("find_json_escape(len {}, start {start}) = {got}, naive {want}", b.len()),
                    replay(),
                );
            }
        }
    }
    if start <= b.len() {
        let rem = b.len() - start;
        if want < b.len() {
            let rel = want - start;
            if rel < rem / 32 * 32 {
                st.hit("scan.hit.in_32_byte_blocks");
            } else if rem % 32 >= 16 && rel < rem / 32 * 32 + 16 {
                st.hit("scan.hit.in_16_byte_tail");
            } else {
                st.hit("scan.hit.in_sub16_remainder");
            }
        } else if rem >= 32 {
            st.hit("scan.none.span_ge_32");
        } else {
            st.hit("scan.none.span_lt_32");
        }
    } else {
        st.hit("scan.start_past_end");
    }
}

const HOT_CHARS: &[char] = &['"', '\\', '\0', '\u{1f}', '\n', '\u{8}', '\u{7f}', '\u{80}', 'é', '😀'];
const NEAR_MISS: &[u8] = &[0x20, 0x21, 0x23, 0x5B, 0x5D, 0x7F, 0x80, 0x9F, 0xA2, 0xDC, 0xFF, 0xE2, 0x1F + 0x80, 0x22 + 0x80, 0x5C + 0x80];

fn filler(kind: usize, i: usize) -> char {
    match kind {
        0 => (b'a' + (i % 26) as u8) as char,
        1 => ['é', 'ß', '\u{80}', '\u{7ff}'][i % 4],
        2 => ['中', '\u{800}', '\u{ffff}', '\u{2028}'][i % 4],
        3 => ['😀', '\u{10000}', '\u{10ffff}'][i % 3],
        _ => ['a', 'é', '中', '😀', '\u{7f}', 'z'][i % 6],
    }
}

pub fn run(ctx: &Ctx) -> Report {
    let mut rep = Report::new("C09", "c09");
    rep.rule = "case = one string through all four writers (decode via serde_json + per-character escaped⇔required), \
                or one (bytes, start) scanner query; non-trivial = string holding an escapable character or a \
                non-ASCII character; distinct by hash(string). Scanner queries count as evaluations only"
        .into();
    rep.note("scanner driven through the public re-export succinctly::yaml::simd::find_json_escape (dispatching entry) and through write_json_body_yq; the per-kernel entry points (scalar/sse2/avx2) are crate-private");
    let mut st = Stats::default();

    if let Some(rp) = &ctx.replay {
        if rp["kind"] == "scan" {
            check_scan(&mut rep, &mut st, &unhex(rp["hex"].as_str().unwrap_or("")), rp["start"].as_u64().unwrap_or(0) as usize);
        } else {
            let bytes = unhex(rp["utf8_hex"].as_str().unwrap_or(""));
            match String::from_utf8(bytes) {
                Ok(s) => {
                    check_str(&mut rep, &mut st, &s);
                }
                Err(_) => rep.inconclusive(json!({"what": "replay string is not UTF-8"})),
            }
        }
        st.flush(&mut rep);
        return rep;
    }

    let mut r = Rng::new(ctx.shard_seed());
    let tiny = ctx.tiny();
    let mut digest = 0u64;
    let reg = |rep: &mut Report, s: &str| {
        if s.chars().any(|c| (c as u32) < 0x20 || c == '"' || c == '\\' || (c as u32) >= 0x7F) {
            rep.nontrivial(fnv(s.as_bytes()));
        }
    };

    // ---- 1. every Unicode scalar value individually
    if tiny {
        for _ in 0..ctx.n(0, 0, 40) {
            let c = if r.chance(1, 2) {
                char::from_u32(*r.pick(gu::BOUNDARY_SCALARS)).unwrap_or('x')
            } else {
                char::from_u32(r.below(0x11_0000) as u32).unwrap_or('y')
            };
            let s = c.to_string();
            check_str(&mut rep, &mut st, &s);
            reg(&mut rep, &s);
        }
    } else {
        let mut n = 0u64;
        let mut buf = String::new();
        for u in 0..=0x10_FFFFu32 {
            let Some(c) = char::from_u32(u) else { continue };
            buf.clear();
            buf.push(c);
            let d = check_str(&mut rep, &mut st, &buf);
            if u < 0x3000 {
                digest = mix(digest, d);
                reg(&mut rep, &buf);
            }
            n += 1;
        }
        rep.add("scalars.individually", n);
        rep.exhaustive.push("all 1,112,064 Unicode scalar values as one-character strings, on all four writers".into());
        // each scalar also inside a span (so the yq span copy has something on both sides)
        let step = if ctx.thorough() { 1 } else { 7 };
        let mut u = r.below(step) as u32;
        while u <= 0x10_FFFF {
            if let Some(c) = char::from_u32(u) {
                buf.clear();
                buf.push_str("pre-");
                buf.push(c);
                buf.push_str("-post");
                check_str(&mut rep, &mut st, &buf);
            }
            u += step as u32;
        }
    }

    // ---- 2. one hot character at every position of strings of every length (ASCII filler),
    //         so the hit lands on every offset relative to the 16/32-byte chunks
    let max_len = if tiny { 0 } else if ctx.thorough() { 200 } else { 150 };
    let mut buf = String::new();
    for len in 1..=max_len {
        for p in 0..len {
            for (hi, &h) in HOT_CHARS.iter().enumerate() {
                // quick tier: rotate hot characters over positions except the three scanner bytes
                if !ctx.thorough() && hi >= 4 && (len + p) % 6 != hi - 4 {
                    continue;
                }
                buf.clear();
                for i in 0..len {
                    buf.push(if i == p { h } else { filler(0, i) });
                }
                let d = check_str(&mut rep, &mut st, &buf);
                if hi < 4 {
                    digest = mix(digest, d);
                }
                reg(&mut rep, &buf);
            }
        }
    }
    if max_len > 0 {
        rep.exhaustive.push(format!("one escapable character at every position of ASCII strings of every length 1..={max_len}"));
    }

    // ---- 3. two hits: first at p1, second `gap` bytes later (the second scan starts at p1+1)
    let (p1_max, gap_max) = if tiny { (0, 0) } else if ctx.thorough() { (40, 100) } else { (33, 70) };
    for p1 in 0..p1_max {
        for gap in 0..gap_max {
            let kind = (p1 + gap) % 5;
            buf.clear();
            for i in 0..p1 {
                buf.push(filler(0, i));
            }
            buf.push(*r.pick(&['"', '\\', '\n', '\0', '\u{1f}']));
            for i in 0..gap {
                buf.push(filler(kind, i));
            }
            buf.push(*r.pick(&['"', '\\', '\t', '\u{1}']));
            for i in 0..r.below(40) {
                buf.push(filler(kind, i));
            }
            check_str(&mut rep, &mut st, &buf);
            reg(&mut rep, &buf);
        }
    }

    // ---- 4. multi-byte fillers (characters straddle chunk ends), hot character at every index
    let mb_chars = if tiny { 0 } else if ctx.thorough() { 80 } else { 48 };
    for kind in 1..5 {
        for lead in 0..4usize {
            for p in 0..mb_chars {
                let h = HOT_CHARS[(p + lead + kind) % HOT_CHARS.len()];
                buf.clear();
                for i in 0..lead {
                    buf.push(filler(0, i));
                }
                for i in 0..mb_chars {
                    buf.push(if i == p { h } else { filler(kind, i) });
                }
                check_str(&mut rep, &mut st, &buf);
                reg(&mut rep, &buf);
            }
        }
    }

    // ---- 5. long clean spans (span-copy path), with and without a final hit
    for i in 0..ctx.n(60, 600, 3) {
        let n = if tiny { 70 + i } else { *r.pick(&[31usize, 32, 33, 63, 64, 65, 127, 1000, 4096, 20000, 100_000]) + r.below(3) };
        let kind = r.below(5);
        buf.clear();
        for j in 0..n {
            buf.push(filler(kind, j));
        }
        if i % 3 != 0 {
            buf.push(*r.pick(HOT_CHARS));
        }
        if i % 3 == 2 {
            for j in 0..r.below(80) {
                buf.push(filler(kind, j));
            }
        }
        check_str(&mut rep, &mut st, &buf);
        reg(&mut rep, &buf);
        st.hit("str.long_span_cases");
    }

    // ---- 6. random strings
    for i in 0..ctx.n(100000, 1000000, 30) {
        let s = if i % 3 == 0 {
            String::from_utf8(gu::valid_string(&mut r, if tiny { 40 } else { 90 })).unwrap_or_default()
        } else {
            gen_string(&mut r, 3, if tiny { 40 } else { 120 })
        };
        check_str(&mut rep, &mut st, &s);
        reg(&mut rep, &s);
    }
    // the convenience wrapper must be the writer's output
    for s in ["a\u{8}b", "\u{7f}\"\\", "é😀\n"] {
        rep.eval();
        for cv in CONVS {
            let mut direct = String::new();
            let _ = (cv.write)(&mut direct, s);
            if escape_json_body(cv.write, s) != direct {
                rep.violation("C09:escape_json_body:differs_from_writer", format!("{} on {s:?}", cv.name), json!({"kind":"str","utf8_hex":hex(s.as_bytes())}));
            }
        }
    }

    // ---- 7. the scanner directly: arbitrary bytes, every start offset
    let scan_len = if tiny { 0 } else if ctx.thorough() { 140 } else { 100 };
    let mut bytes: Vec<u8> = Vec::new();
    for len in 0..=scan_len {
        // no special byte at all
        bytes.clear();
        for i in 0..len {
            bytes.push(NEAR_MISS[(i + len) % NEAR_MISS.len()]);
        }
        for start in 0..=len + 2 {
            check_scan(&mut rep, &mut st, &bytes, start);
        }
        for p in 0..len {
            bytes.clear();
            for i in 0..len {
                bytes.push(if (i + p) % 3 == 0 { b'a' } else { NEAR_MISS[(i * 7 + p) % NEAR_MISS.len()] });
            }
            bytes[p] = [b'"', b'\\', 0x00, 0x1F, 0x0A][(p + len) % 5];
            for start in 0..=len + 1 {
                check_scan(&mut rep, &mut st, &bytes, start);
            }
        }
    }
    if scan_len > 0 {
        rep.exhaustive.push(format!("scanner: one special byte at every position x every start, lengths 0..={scan_len}"));
        // every byte value at every lane of a 64-byte window (the predicate itself)
        for v in 0..=255u8 {
            for lane in 0..64usize {
                bytes.clear();
                bytes.resize(70, b'~');
                bytes[lane] = v;
                check_scan(&mut rep, &mut st, &bytes, 0);
                if lane >= 3 {
                    check_scan(&mut rep, &mut st, &bytes, 3);
                }
            }
        }
        rep.exhaustive.push("scanner: every byte value 0..=255 at every lane 0..64".into());
    }
    for _ in 0..ctx.n(3000, 40000, 25) {
        let n = r.below(if tiny { 70 } else { 150 });
        let dens = *r.pick(&[2u32, 10, 40, 200]);
        let mut v: Vec<u8> = Vec::with_capacity(n);
        for _ in 0..n {
            let b = if r.chance(1, dens) {
                *r.pick(b"\"\\\x00\x1f\n\t")
            } else if r.bool() {
                r.byte() | 0x20
            } else {
                *r.pick(NEAR_MISS)
            };
            // random bytes hit `"` and `\` by accident; keep those at the chosen density too
            let b = if (b == b'"' || b == b'\\') && !r.chance(1, dens) { b'x' } else { b };
            v.push(b);
        }
        if tiny {
            for _ in 0..6 {
                let s0 = r.below(n + 2);
                check_scan(&mut rep, &mut st, &v, s0);
            }
        } else {
            for start in 0..=n + 1 {
                check_scan(&mut rep, &mut st, &v, start);
            }
        }
    }

    st.flush(&mut rep);
    if !tiny {
        rep.digest("c09.bodies", digest);
    }
    for s in ["a\"b\\c\u{8}\u{7f}\u{85}é😀\n", "\u{0}\u{1f} \u{7f}"] {
        let mut o = serde_json::Map::new();
        o.insert("input".into(), json!(s));
        for cv in CONVS {
            o.insert(cv.name.into(), json!(escape_json_body(cv.write, s)));
        }
        rep.sample(serde_json::Value::Object(o));
    }
    if !tiny {
        rep.require("scalars.individually", 1_112_064);
        rep.require("str.hit_offsets_mod_32_distinct", 32);
        rep.require("str.clean_span_ge_32_before_hit", 1000);
        rep.require("str.clean_tail_ge_32", 1000);
        rep.require("str.hit_right_after_multibyte", 500);
        rep.require("str.astral_straddles_32_edge", 100);
        rep.require("str.multibyte_straddles_32_edge", 100);
        rep.require("str.long_span_cases", 50);
        rep.require("scan.hit.in_32_byte_blocks", 5000);
        rep.require("scan.hit.in_16_byte_tail", 5000);
        rep.require("scan.hit.in_sub16_remainder", 5000);
        rep.require("scan.none.span_ge_32", 1000);
        rep.require("scan.start_past_end", 100);
        for cv in CONVS {
            rep.require(cv.k_escaped, 10_000);
            rep.require(cv.k_raw, 10_000);
        }
    }
    rep
}
