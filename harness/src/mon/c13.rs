//! C13 — UTF-8 validation matches the Unicode definition on every engine.
//!
//! Oracle: `model::utf8` (Unicode Table 3-7 → `valid_up_to` + set of violated rules), itself
//! cross-checked against `std::str::from_utf8` on every case (a disagreement there is a
//! harness problem → inconclusive, never a violation).
//!
//! Checked for each input, on `validate_utf8`, `validate_utf8_simd` (x86_64),
//! `validate_utf8_scalar`, `validate_utf8_broadword`:
//!   * accept ⇔ well-formed;
//!   * all engines return the identical `Result` (offset, kind, line, column);
//!   * on the scalar engine's error (the one all others must equal):
//!     kind ∈ violated-rule set; `offset == valid_up_to`; line/column = the module's documented
//!     definition (LF only, 1-indexed, column in bytes) evaluated at the reported offset.
//!
//! DESIGN §7 item 1: `InvalidContinuationByte` is reported at the offending byte rather than at
//! `valid_up_to`. That one shape has its own narrow signature
//! `C13:offset:InvalidContinuationByte:offending_byte` and is emitted only when the offset is
//! *exactly* `valid_up_to + (index of the first non-continuation byte)`; any other difference
//! between offset and `valid_up_to` is `C13:offset:<Kind>:drift`.
//!
//! Code point codec: `encode_code_point` / `decode_code_point` against the model for every
//! scalar value (exhaustive) and for ill-formed prefixes.

use crate::gen::utf8 as g;
use crate::model::utf8 as m;
use crate::report::{catch, hex, panic_sig, unhex, Ctx, Report};
use crate::rng::{fnv, mix, Rng};
use serde_json::json;
use succinctly::text::utf8::{
    decode_code_point, encode_code_point, validate_utf8, validate_utf8_broadword, validate_utf8_scalar, Utf8Error,
    Utf8ErrorKind,
};

/// `panic_sig` with everything after the first variable part of the message dropped (messages
/// such as "byte index 17 is not a char boundary; it is inside 'é'" quote input data).
fn psig(p: &str) -> String {
    let s = panic_sig(p);
    match s.rsplit_once(" @ ") {
        Some((m, loc)) => format!("{} @ {loc}", m.split('#').next().unwrap_or("").trim_end()),
        None => s,
    }
}

type Engine = fn(&[u8]) -> Result<(), Utf8Error>;

#[cfg(target_arch = "x86_64")]
const ENGINES: &[(&str, Engine)] = &[
    ("validate_utf8", validate_utf8 as Engine),
    ("validate_utf8_simd", succinctly::text::utf8::validate_utf8_simd as Engine),
    ("validate_utf8_broadword", validate_utf8_broadword as Engine),
];
#[cfg(not(target_arch = "x86_64"))]
const ENGINES: &[(&str, Engine)] =
    &[("validate_utf8", validate_utf8 as Engine), ("validate_utf8_broadword", validate_utf8_broadword as Engine)];

fn kind_bit(k: Utf8ErrorKind) -> u8 {
    match k {
        Utf8ErrorKind::InvalidLeadByte => m::INVALID_LEAD,
        Utf8ErrorKind::InvalidContinuationByte => m::INVALID_CONT,
        Utf8ErrorKind::OverlongEncoding => m::OVERLONG,
        Utf8ErrorKind::SurrogateCodepoint => m::SURROGATE,
        Utf8ErrorKind::OutOfRangeCodepoint => m::OUT_OF_RANGE,
        Utf8ErrorKind::TruncatedSequence => m::TRUNCATED,
    }
}

/// Cheap local counters for the hot loops (flushed into the report at the end).
#[derive(Default)]
struct Stats {
    c: std::collections::BTreeMap<&'static str, u64>,
}
impl Stats {
    #[inline]
    fn hit(&mut self, k: &'static str) {
        *self.c.entry(k).or_insert(0) += 1;
    }
    fn flush(self, rep: &mut Report) {
        for (k, v) in self.c {
            rep.add(k, v);
        }
    }
}

fn kind_counter(k: Utf8ErrorKind) -> &'static str {
    match k {
        Utf8ErrorKind::InvalidLeadByte => "kind.InvalidLeadByte",
        Utf8ErrorKind::InvalidContinuationByte => "kind.InvalidContinuationByte",
        Utf8ErrorKind::OverlongEncoding => "kind.OverlongEncoding",
        Utf8ErrorKind::SurrogateCodepoint => "kind.SurrogateCodepoint",
        Utf8ErrorKind::OutOfRangeCodepoint => "kind.OutOfRangeCodepoint",
        Utf8ErrorKind::TruncatedSequence => "kind.TruncatedSequence",
    }
}

/// Check one byte string on every engine. `register` = record it as a distinct case.
fn check_bytes(rep: &mut Report, st: &mut Stats, b: &[u8], register: bool) -> u64 {
    let replay = || json!({"kind": "bytes", "hex": hex(b)});
    if let Some(why) = m::cross_check_std(b) {
        rep.inconclusive(json!({"what": "model vs std::str::from_utf8", "why": why, "hex": hex(b)}));
        return 0;
    }
    let model = m::analyse(b);
    let len = b.len();

    // data-derived classes
    match &model {
        None => {
            st.hit("accept");
            if b.iter().any(|&x| x >= 0x80) {
                st.hit("accept.with_multibyte");
            }
            if len >= 32 {
                st.hit("accept.ge_32_bytes");
            }
        }
        Some(ill) => {
            st.hit("reject");
            let v = ill.valid_up_to;
            if len >= 32 {
                st.hit("reject.len_ge_32");
                if len % 32 != 0 && v >= len - len % 32 {
                    st.hit("reject.in_last_partial_32_block");
                } else if v < len - len % 32 {
                    st.hit("reject.in_full_32_block");
                }
                if ill.declared_len > 1 && v / 32 != (v + ill.declared_len - 1) / 32 {
                    st.hit("reject.seq_straddles_32_edge");
                }
                if len % 32 == 0 && v + ill.declared_len.max(1) > len {
                    st.hit("reject.truncated_at_exact_block_end");
                }
            }
            if v >= 32 && b[..32].iter().all(|&x| x < 0x80) {
                st.hit("reject.after_32_ascii_block");
            }
            if v >= 8 && b[v - 8..v].iter().all(|&x| x < 0x80) {
                st.hit("reject.after_8_ascii_word");
            }
            if ill.incomplete_valid_prefix {
                st.hit("reject.incomplete_at_end");
            }
        }
    }

    // scalar engine: the reference all other engines must equal, checked against the model
    rep.eval();
    let scalar = match catch(|| validate_utf8_scalar(b)) {
        Ok(r) => r,
        Err(p) => {
            rep.violation(format!("C13:validate_utf8_scalar:panic:{}", psig(&p)), p, replay());
            return 0;
        }
    };
    match (&scalar, &model) {
        (Ok(()), None) => {}
        (Ok(()), Some(ill)) => rep.violation(
            "C13:validate_utf8_scalar:false_accept",
            format!("accepted, but ill-formed at {} ({:?})", ill.valid_up_to, m::rule_names(ill.rules)),
            replay(),
        ),
        (Err(e), None) => rep.violation(
            "C13:validate_utf8_scalar:false_reject",
            format!("rejected well-formed input: {e:?}"),
            replay(),
        ),
        (Err(e), Some(ill)) => {
            st.hit(kind_counter(e.kind));
            // kind names a violated rule
            rep.eval();
            if kind_bit(e.kind) & ill.rules == 0 {
                rep.violation(
                    format!("C13:kind:not_a_violated_rule:{:?}", e.kind),
                    format!("kind {:?} but the sequence at {} violates {:?}", e.kind, ill.valid_up_to, m::rule_names(ill.rules)),
                    replay(),
                );
            }
            if e.kind == Utf8ErrorKind::TruncatedSequence && ill.first_noncont.is_some() {
                st.hit("kind.Truncated_while_a_present_byte_is_not_continuation");
            }
            // offset == length of the longest valid prefix
            rep.eval();
            if e.offset == ill.valid_up_to {
                st.hit("offset.eq_valid_up_to");
            } else {
                let narrow = e.kind == Utf8ErrorKind::InvalidContinuationByte
                    && ill.first_noncont.map(|k| ill.valid_up_to + k) == Some(e.offset);
                if narrow {
                    st.hit("offset.known_exception_offending_byte");
                    rep.violation(
                        "C13:offset:InvalidContinuationByte:offending_byte",
                        format!(
                            "offset {} = valid_up_to {} + index {} of the first non-continuation byte (line {}, column {}); \
                             the property requires offset = valid_up_to = {} and its column",
                            e.offset,
                            ill.valid_up_to,
                            e.offset - ill.valid_up_to,
                            e.line,
                            e.column,
                            ill.valid_up_to
                        ),
                        replay(),
                    );
                } else {
                    rep.violation(
                        format!("C13:offset:{:?}:drift", e.kind),
                        format!("offset {} but valid_up_to {} (first non-continuation index {:?})", e.offset, ill.valid_up_to, ill.first_noncont),
                        replay(),
                    );
                }
            }
            // line / column: documented definition at the reported offset
            rep.eval();
            if e.offset <= len {
                let want = m::line_col_lf(b, e.offset);
                if (e.line, e.column) != want {
                    rep.violation(
                        "C13:linecol:mismatch",
                        format!("offset {} reported as line {} column {}, LF model {:?}", e.offset, e.line, e.column, want),
                        replay(),
                    );
                }
                // and the line must be that of valid_up_to in every case
                let at_v = m::line_col_lf(b, ill.valid_up_to);
                if e.line != at_v.0 {
                    rep.violation(
                        "C13:linecol:line_differs_from_valid_up_to",
                        format!("line {} but valid_up_to {} is on line {}", e.line, ill.valid_up_to, at_v.0),
                        replay(),
                    );
                }
                if e.offset >= 8 {
                    st.hit("linecol.word_loop");
                }
                if want.0 > 1 {
                    st.hit("linecol.multi_line");
                }
                if b[..e.offset].windows(2).any(|w| w == b"\n\x0b" || w == b"\n\x01") {
                    st.hit("linecol.nl_then_0b_or_01");
                }
            } else {
                rep.violation("C13:offset:past_end", format!("offset {} > len {len}", e.offset), replay());
            }
        }
    }

    // every other engine: accept ⇔ well-formed, and identical result
    for &(name, f) in ENGINES {
        rep.eval();
        match catch(|| f(b)) {
            Err(p) => rep.violation(format!("C13:{name}:panic:{}", psig(&p)), p, replay()),
            Ok(r) => {
                match (&r, &model) {
                    (Ok(()), Some(ill)) => rep.violation(
                        format!("C13:{name}:false_accept"),
                        format!("accepted, but ill-formed at {} ({:?})", ill.valid_up_to, m::rule_names(ill.rules)),
                        replay(),
                    ),
                    (Err(e), None) => {
                        rep.violation(format!("C13:{name}:false_reject"), format!("rejected well-formed input: {e:?}"), replay())
                    }
                    _ => {}
                }
                if r != scalar {
                    rep.violation(
                        format!("C13:engines_differ:{name}"),
                        format!("{name} = {r:?}, validate_utf8_scalar = {scalar:?}"),
                        replay(),
                    );
                }
            }
        }
    }

    let h = fnv(b);
    if register {
        let nontrivial = match &model {
            None => b.iter().any(|&x| x >= 0x80),
            Some(ill) => ill.valid_up_to >= 1,
        };
        if nontrivial {
            rep.nontrivial(h);
        }
    }
    // digest contribution: input and the scalar engine's complete answer
    let ans = match &scalar {
        Ok(()) => 0u64,
        Err(e) => mix(mix(e.offset as u64, e.line as u64), mix(e.column as u64, kind_bit(e.kind) as u64)),
    };
    mix(h, ans)
}

fn check_decode(rep: &mut Report, st: &mut Stats, b: &[u8]) {
    rep.eval();
    let want = m::first_scalar(b);
    match catch(|| decode_code_point(b)) {
        Err(p) => rep.violation(format!("C13:decode_code_point:panic:{}", psig(&p)), p, json!({"kind":"decode","hex":hex(b)})),
        Ok(got) => {
            if got != want {
                let cls = match (got, want) {
                    (Some(_), None) => "accepts_ill_formed",
                    (None, Some(_)) => "rejects_well_formed",
                    _ => "wrong_value",
                };
                rep.violation(
                    format!("C13:decode_code_point:{cls}"),
                    format!("decode_code_point({}) = {got:?}, model {want:?}", hex(b)),
                    json!({"kind":"decode","hex":hex(b)}),
                );
            }
            st.hit(if want.is_some() { "decode.some" } else { "decode.none" });
        }
    }
}

fn check_encode(rep: &mut Report, st: &mut Stats, cp: u32) {
    rep.eval();
    let want = m::encode_scalar(cp);
    // second, independent statement of the same fact
    let std_enc = char::from_u32(cp).map(|c| c.to_string().into_bytes());
    if want != std_enc {
        rep.inconclusive(json!({"what":"model encode vs char::encode_utf8", "cp": cp}));
        return;
    }
    let rp = json!({"kind":"encode","cp":cp});
    match catch(|| encode_code_point(cp)) {
        Err(p) => rep.violation(format!("C13:encode_code_point:panic:{}", psig(&p)), p, rp),
        Ok(got) => {
            let got_v = got.and_then(|(buf, n)| if n <= 4 { Some(buf[..n].to_vec()) } else { None });
            if got.is_some() && got_v.is_none() {
                rep.violation("C13:encode_code_point:bad_length", format!("U+{cp:04X}: length {:?}", got.map(|x| x.1)), rp);
                return;
            }
            if got_v != want {
                let cls = match (&got_v, &want) {
                    (Some(_), None) => "accepts_non_scalar",
                    (None, Some(_)) => "rejects_scalar",
                    _ => "wrong_bytes",
                };
                rep.violation(
                    format!("C13:encode_code_point:{cls}"),
                    format!("encode_code_point(U+{cp:04X}) = {:?}, model {:?}", got_v.as_deref().map(hex), want.as_deref().map(hex)),
                    rp,
                );
                return;
            }
            match want {
                None => st.hit("encode.none"),
                Some(enc) => {
                    st.hit("encode.some");
                    // round trip, alone and followed by other bytes
                    for tail in [&b""[..], b"\x80", b"A", b"\xf4\x90"] {
                        rep.eval();
                        let mut inp = enc.clone();
                        inp.extend_from_slice(tail);
                        let back = catch(|| decode_code_point(&inp));
                        if back != Ok(Some((cp, enc.len()))) {
                            rep.violation(
                                "C13:codec:round_trip",
                                format!("U+{cp:04X} -> {} -> {back:?}", hex(&inp)),
                                json!({"kind":"decode","hex":hex(&inp)}),
                            );
                        }
                    }
                }
            }
        }
    }
}

pub fn run(ctx: &Ctx) -> Report {
    let mut rep = Report::new("C13", "c13");
    rep.rule = "case = byte string checked on all engines against the Table 3-7 model; non-trivial = rejected \
                with a non-empty valid prefix, or accepted and containing a multi-byte character; distinct by \
                hash(bytes). Codec: one case per code point / byte prefix (counted as evaluations only)"
        .into();
    rep.assumptions.push(
        "line/column follow the module's documented definition: 1-indexed, LF (0x0A) only, column in bytes".into(),
    );
    let mut st = Stats::default();

    if let Some(rp) = &ctx.replay {
        match rp["kind"].as_str().unwrap_or("bytes") {
            "decode" => check_decode(&mut rep, &mut st, &unhex(rp["hex"].as_str().unwrap_or(""))),
            "encode" => check_encode(&mut rep, &mut st, rp["cp"].as_u64().unwrap_or(0) as u32),
            _ => {
                check_bytes(&mut rep, &mut st, &unhex(rp["hex"].as_str().unwrap_or("")), true);
            }
        }
        st.flush(&mut rep);
        return rep;
    }

    let mut r = Rng::new(ctx.shard_seed());
    let tiny = ctx.tiny();
    let mut digest = 0u64;

    // ---- 1. every ill-formed class at every offset 0..=70, in every padding, with every tail
    let tails: [&[u8]; 5] = [b"", b"z", b"zzzzzzzzzzzzzzzzzzzzzzzzzzzzzzzzzzz", "é中😀".as_bytes(), b"\n\x0bq"];
    let max_off = 70usize;
    if tiny {
        for i in 0..ctx.n(0, 0, 90) {
            let ill = g::ILL_FORMED[i % g::ILL_FORMED.len()];
            let off = *r.pick(&[0usize, 1, 7, 8, 15, 16, 29, 30, 31, 32, 33, 63, 64]);
            let pk = r.below(g::PAD_KINDS);
            let mut b = g::pad(&mut r, pk, off);
            b.extend_from_slice(ill);
            b.extend_from_slice(tails[r.below(tails.len())]);
            check_bytes(&mut rep, &mut st, &b, true);
        }
    } else {
        for (ci, ill) in g::ILL_FORMED.iter().enumerate() {
            for off in 0..=max_off {
                for kind in 0..g::PAD_KINDS {
                    let prefix = g::pad(&mut r, kind, off);
                    for (ti, tail) in tails.iter().enumerate() {
                        // thin out: all tails for ASCII padding, rotating tail otherwise
                        if kind != 0 && (ci + off + kind) % tails.len() != ti {
                            continue;
                        }
                        let mut b = prefix.clone();
                        b.extend_from_slice(ill);
                        b.extend_from_slice(tail);
                        let d = check_bytes(&mut rep, &mut st, &b, true);
                        if kind == 0 {
                            digest = mix(digest, d);
                        }
                        st.hit("placed.cases");
                    }
                }
            }
        }
    }

    // ---- 2. long valid runs, then one bad sequence exactly at 8/32-byte edges, and truncations
    let edge_jobs = ctx.n(40000, 400000, 40);
    for i in 0..edge_jobs {
        let base = *r.pick(&[32usize, 64, 96, 128, 256, 1024, 4096]);
        let base = if tiny { base.min(96) } else { base };
        let delta = r.range(0, 12) as isize - 6;
        let off = (base as isize + delta).max(0) as usize;
        let pk = r.below(g::PAD_KINDS);
        let mut b = if r.chance(1, 2) { g::pad(&mut r, pk, off) } else {
            let mut v = g::valid_string(&mut r, off);
            // trim to a boundary <= off, top up with ASCII
            while std::str::from_utf8(&v[..off.min(v.len())]).is_err() && !v.is_empty() {
                v.pop();
            }
            v.truncate(off);
            while std::str::from_utf8(&v).is_err() {
                v.pop();
            }
            while v.len() < off {
                v.push(b'.');
            }
            v
        };
        match i % 4 {
            0 => b.push(*r.pick(g::hot_bytes())),
            1 => b.extend_from_slice(g::ILL_FORMED[r.below(g::ILL_FORMED.len())]),
            2 => {
                // a well-formed character cut short at the very end of the input
                let enc = m::encode_scalar(*r.pick(&[0xE9u32, 0x4E2D, 0x1F600, 0x10FFFF, 0x800, 0x10000])).unwrap_or_default();
                let cut = r.range(1, enc.len().max(2) - 1);
                b.extend_from_slice(&enc[..cut.min(enc.len())]);
            }
            _ => {
                b.extend_from_slice(g::ILL_FORMED[r.below(g::ILL_FORMED.len())]);
                let t = r.below(70);
                b.extend_from_slice(&g::pad(&mut r, 0, t));
            }
        }
        check_bytes(&mut rep, &mut st, &b, true);
        st.hit("edge.cases");
    }

    // ---- 3. well-formed strings of every length around the block sizes (accept path)
    let valid_jobs = ctx.n(40000, 400000, 40);
    for i in 0..valid_jobs {
        let n = if tiny { r.below(80) } else if i % 8 == 0 { r.below(5000) } else { r.below(140) };
        let b = g::valid_string(&mut r, n);
        check_bytes(&mut rep, &mut st, &b, true);
        // and the same string with its last character cut (truncation at end of input)
        if let Some(&last) = b.last() {
            if last >= 0x80 {
                check_bytes(&mut rep, &mut st, &b[..b.len() - 1], true);
            }
        }
    }

    // ---- 4. soup
    for _ in 0..ctx.n(300000, 3000000, 60) {
        let n = r.small_len(if tiny { 40 } else { 100 });
        let lead = if r.chance(1, 2) { r.below(70) } else { 0 };
        let pk = r.below(g::PAD_KINDS);
        let mut b = g::pad(&mut r, pk, lead);
        b.extend_from_slice(&g::soup(&mut r, n));
        check_bytes(&mut rep, &mut st, &b, true);
    }

    // ---- 5. exhaustive short strings (bare and behind a 30-byte ASCII prefix, so that the
    //         sequence straddles the first 32-byte edge)
    if !tiny {
        let hot = g::hot_bytes();
        for a in 0..=255u8 {
            digest = mix(digest, check_bytes(&mut rep, &mut st, &[a], false));
            for b2 in 0..=255u8 {
                digest = mix(digest, check_bytes(&mut rep, &mut st, &[a, b2], false));
            }
        }
        rep.exhaustive.push("all byte strings of length 1 and 2".into());
        let firsts: Vec<u8> = if ctx.thorough() { (0..=255u8).collect() } else { hot.to_vec() };
        let mut buf = vec![b'a'; 30];
        buf.extend_from_slice(&[0, 0, 0]);
        for &a in &firsts {
            for b2 in 0..=255u8 {
                for c in 0..=255u8 {
                    let d = check_bytes(&mut rep, &mut st, &[a, b2, c], false);
                    if !ctx.thorough() {
                        digest = mix(digest, d);
                    }
                    if hot.contains(&b2) && hot.contains(&c) {
                        buf[30] = a;
                        buf[31] = b2;
                        buf[32] = c;
                        check_bytes(&mut rep, &mut st, &buf, false);
                    }
                }
            }
        }
        rep.exhaustive.push(if ctx.thorough() {
            "all byte strings of length 3".into()
        } else {
            "all byte strings of length 3 whose first byte is in the hot set (29 values)".into()
        });
        let mut buf4 = vec![b'a'; 29];
        buf4.extend_from_slice(&[0, 0, 0, 0, b'z']);
        for &a in hot {
            for &b2 in hot {
                for &c in hot {
                    for &d4 in hot {
                        check_bytes(&mut rep, &mut st, &[a, b2, c, d4], false);
                        if a >= 0xC0 {
                            buf4[29] = a;
                            buf4[30] = b2;
                            buf4[31] = c;
                            buf4[32] = d4;
                            check_bytes(&mut rep, &mut st, &buf4, false);
                        }
                    }
                }
            }
        }
        rep.exhaustive.push("all 4-byte strings over the 29-value hot set".into());
    }

    // ---- 6. code point codec
    if tiny {
        for _ in 0..ctx.n(0, 0, 60) {
            let cp = if r.chance(1, 2) { *r.pick(g::BOUNDARY_SCALARS) } else { r.below(0x11_0800) as u32 };
            check_encode(&mut rep, &mut st, cp);
        }
        for cp in [0xD7FFu32, 0xD800, 0xDFFF, 0xE000, 0x10FFFF, 0x110000, u32::MAX] {
            check_encode(&mut rep, &mut st, cp);
        }
        for ill in g::ILL_FORMED.iter().take(ctx.n(0, 0, 40)) {
            check_decode(&mut rep, &mut st, ill);
        }
        check_decode(&mut rep, &mut st, b"");
    } else {
        for cp in 0..=0x11_0400u32 {
            check_encode(&mut rep, &mut st, cp);
        }
        for cp in [0x20_0000u32, 0x7FFF_FFFF, 0x8000_0000, 0xFFFF_FFFF, 0x1F_FFFF, 0x3FF_FFFF, 0x400_0000] {
            check_encode(&mut rep, &mut st, cp);
        }
        for _ in 0..2000 {
            check_encode(&mut rep, &mut st, r.u32());
        }
        rep.exhaustive.push("encode_code_point and the decode round trip for every value 0..=0x110400".into());
        check_decode(&mut rep, &mut st, b"");
        for a in 0..=255u8 {
            check_decode(&mut rep, &mut st, &[a]);
            for b2 in 0..=255u8 {
                check_decode(&mut rep, &mut st, &[a, b2]);
            }
        }
        let hot = g::hot_bytes();
        let firsts: Vec<u8> = if ctx.thorough() { (0x80..=255u8).collect() } else { (0xE0..=0xF7u8).collect() };
        for &a in &firsts {
            for b2 in 0..=255u8 {
                for c in 0..=255u8 {
                    check_decode(&mut rep, &mut st, &[a, b2, c]);
                    if a >= 0xF0 && (ctx.thorough() || hot.contains(&c)) {
                        for &d4 in hot {
                            check_decode(&mut rep, &mut st, &[a, b2, c, d4]);
                        }
                    }
                }
            }
        }
        rep.exhaustive.push("decode_code_point on every 1- and 2-byte input and every 3-byte input with lead E0..F7".into());
        for ill in g::ILL_FORMED {
            check_decode(&mut rep, &mut st, ill);
        }
    }

    st.flush(&mut rep);
    if !tiny {
        rep.digest("c13.placed_and_exhaustive", digest);
    }

    // samples
    for b in [&[0x41u8, 0xC2, 0x41][..], &[0x61, 0x0A, 0xE2, 0x82], "a\u{e9}\n".as_bytes(), &[0xED, 0xA0, 0x80]] {
        let model = m::analyse(b);
        rep.sample(json!({
            "bytes": hex(b),
            "model": model.as_ref().map(|i| json!({"valid_up_to": i.valid_up_to, "violated": m::rule_names(i.rules)})),
            "validate_utf8_scalar": format!("{:?}", validate_utf8_scalar(b)),
        }));
    }

    if !tiny {
        for k in [
            "kind.InvalidLeadByte",
            "kind.InvalidContinuationByte",
            "kind.OverlongEncoding",
            "kind.SurrogateCodepoint",
            "kind.OutOfRangeCodepoint",
            "kind.TruncatedSequence",
        ] {
            rep.require(k, 200);
        }
        rep.require("accept.with_multibyte", 1000);
        rep.require("accept.ge_32_bytes", 1000);
        rep.require("reject.in_last_partial_32_block", 1000);
        rep.require("reject.in_full_32_block", 1000);
        rep.require("reject.seq_straddles_32_edge", 300);
        rep.require("reject.truncated_at_exact_block_end", 20);
        rep.require("reject.after_32_ascii_block", 300);
        rep.require("reject.after_8_ascii_word", 300);
        rep.require("reject.incomplete_at_end", 300);
        rep.require("linecol.word_loop", 1000);
        rep.require("linecol.multi_line", 1000);
        rep.require("linecol.nl_then_0b_or_01", 100);
        rep.require("encode.some", 1_112_064);
        rep.require("encode.none", 2048);
        rep.require("decode.none", 10_000);
    }
    rep
}
