//! C12 — Line/column mapping is exact and independent of query history.
//!
//! Oracle: `model::lines` (naive scan). One `LineIndex` per text receives a random *sequence*
//! of queries; every answer must equal the (history-free) model answer, and a fresh index
//! must agree with the used one. Sequence classes are computed from the data and counted so
//! the evidence shows which history-dependent branches the run actually took.

use crate::model::lines as lm;
use crate::report::{catch, hex, panic_sig, unhex, Ctx, Report};
use crate::rng::{fnv, Rng};
use serde_json::{json, Value};
use succinctly::text::LineIndex;

#[derive(Clone, Debug)]
enum Q {
    Lc(usize),
    Off(usize, usize),
    Start(usize),
    Count,
}

fn q_json(q: &Q) -> Value {
    match q {
        Q::Lc(o) => json!(["lc", o.to_string()]),
        Q::Off(l, c) => json!(["off", l.to_string(), c.to_string()]),
        Q::Start(l) => json!(["start", l.to_string()]),
        Q::Count => json!(["count"]),
    }
}
fn q_from(v: &Value) -> Option<Q> {
    let a = v.as_array()?;
    let n = |i: usize| a.get(i)?.as_str()?.parse::<usize>().ok();
    Some(match a.first()?.as_str()? {
        "lc" => Q::Lc(n(1)?),
        "off" => Q::Off(n(1)?, n(2)?),
        "start" => Q::Start(n(1)?),
        _ => Q::Count,
    })
}

fn gen_text(r: &mut Rng, max: usize) -> Vec<u8> {
    let n = match r.below(8) {
        0 => r.below(4),
        1..=4 => r.below(200),
        5..=6 => r.below(3000),
        _ => r.below(max + 1),
    };
    let style = r.below(6);
    let mut t = Vec::with_capacity(n);
    while t.len() < n {
        match style {
            // soup rich in CR / LF
            0 => t.push(*r.pick(b"\r\n\r\nab ")),
            // LF lines of random length
            1 => {
                for _ in 0..r.below(40) {
                    t.push(b'x');
                }
                t.push(b'\n');
            }
            // CRLF lines
            2 => {
                for _ in 0..r.below(30) {
                    t.push(b'y');
                }
                t.extend_from_slice(b"\r\n");
            }
            // CR only
            3 => {
                for _ in 0..r.below(10) {
                    t.push(b'z');
                }
                t.push(b'\r');
            }
            // mixed terminators, incl. LFCR and CRCRLF
            4 => {
                for _ in 0..r.below(12) {
                    t.push(b'm');
                }
                t.extend_from_slice(*r.pick(&[&b"\n"[..], b"\r", b"\r\n", b"\n\r", b"\r\r\n", b"\n\n"]));
            }
            // very short lines (many lines: EF sample boundaries)
            _ => {
                if r.chance(1, 3) {
                    t.push(b'q');
                }
                t.push(b'\n');
            }
        }
    }
    t.truncate(n);
    t
}

fn gen_queries(r: &mut Rng, starts: &[usize], len: usize, n: usize) -> Vec<Q> {
    let mut qs = Vec::with_capacity(n);
    let mut cur = r.below(len + 1);
    let lines = starts.len();
    for _ in 0..n {
        let q = match r.below(20) {
            // exact repeat
            0..=1 => Q::Lc(cur),
            // small forward step (same or next few lines)
            2..=6 => {
                cur = cur.saturating_add(r.below(40));
                Q::Lc(cur)
            }
            // forward by a given number of lines, around the 16-line walk cap
            7..=9 => {
                let (l, _) = lm::to_line_col_fast(starts, cur.min(len));
                let tgt = (l - 1 + *r.pick(&[1usize, 2, 15, 16, 17, 18, 40])).min(lines - 1);
                cur = starts[tgt] + r.below(3);
                Q::Lc(cur)
            }
            // backward
            10..=11 => {
                cur = cur.saturating_sub(r.below(200) + 1);
                Q::Lc(cur)
            }
            // far jump anywhere
            12..=13 => {
                cur = r.below(len + 3);
                Q::Lc(cur)
            }
            // past the end / huge
            14 => Q::Lc(*r.pick(&[
                len,
                len + 1,
                len + 99,
                u32::MAX as usize - 1,
                u32::MAX as usize,
                u32::MAX as usize + 1,
                (u32::MAX as usize) * 2 + 7,
                usize::MAX / 2,
                usize::MAX - 1,
                usize::MAX,
            ])),
            15..=16 => {
                let l = match r.below(6) {
                    0 => 0,
                    1 => lines + r.below(3),
                    2 => *r.pick(&[usize::MAX, u32::MAX as usize, u32::MAX as usize + 1]),
                    _ => 1 + r.below(lines),
                };
                let c = match r.below(8) {
                    0 => 0,
                    1 => *r.pick(&[usize::MAX, usize::MAX - 1, u32::MAX as usize, 1usize << 63, usize::MAX / 2 + 2]),
                    2 => len + r.below(3),
                    _ => 1 + r.below(50),
                };
                Q::Off(l, c)
            }
            17 => Q::Start(match r.below(5) {
                0 => 0,
                1 => lines + r.below(2),
                2 => usize::MAX,
                _ => 1 + r.below(lines),
            }),
            18 => Q::Count,
            // line-start exactly
            _ => {
                cur = starts[r.below(lines)];
                Q::Lc(cur)
            }
        };
        qs.push(q);
    }
    qs
}

/// Run one (text, query sequence) history. Returns false if a violation was recorded.
fn check_history(rep: &mut Report, text: &[u8], qs: &[Q], tag: &str) -> bool {
    let starts = lm::line_starts(text);
    let len = text.len();
    let replay = |i: usize| {
        json!({"kind": "history", "text_hex": hex(text), "queries": qs[..=i].iter().map(q_json).collect::<Vec<_>>()})
    };
    let idx = match catch(|| LineIndex::build(text)) {
        Ok(i) => i,
        Err(p) => {
            rep.violation(format!("C12:build:panic:{}", panic_sig(&p)), p, json!({"kind":"history","text_hex":hex(text),"queries":[]}));
            return false;
        }
    };
    let mut prev: Option<(usize, usize)> = None; // (offset, line) of last Lc query
    let mut ok = true;
    for (i, q) in qs.iter().enumerate() {
        rep.eval();
        match q {
            Q::Lc(o) => {
                let want = lm::to_line_col_fast(&starts, *o);
                // classify the history-dependent branch this query must take
                match prev {
                    None => rep.count("hist.cold"),
                    Some((po, pl)) => {
                        let pc = po.min(u32::MAX as usize);
                        let qc = (*o).min(u32::MAX as usize);
                        if qc == pc {
                            rep.count("hist.repeat");
                        } else if qc < pc {
                            rep.count("hist.backward");
                        } else {
                            let dl = want.0 - pl;
                            if dl == 0 {
                                rep.count("hist.forward_same_line");
                            } else if dl <= 16 {
                                rep.count("hist.forward_walk_1_16");
                            } else {
                                rep.count("hist.forward_over_cap");
                            }
                        }
                    }
                }
                if *o > len {
                    rep.count("q.past_end");
                }
                match catch(|| idx.to_line_column(*o)) {
                    Ok(got) => {
                        if got != want {
                            ok = false;
                            rep.violation_lazy(format!("C12:to_line_column:{tag}:mismatch"), || (format!("to_line_column({o}) = {got:?}, model {want:?} (query #{i})"), replay(i)));
                        }
                        // fresh index must agree (history independence)
                        if i % 7 == 0 {
                            let fresh = LineIndex::build(text).to_line_column(*o);
                            rep.eval();
                            if fresh != got {
                                ok = false;
                                rep.violation_lazy(format!("C12:to_line_column:{tag}:history_dependent"), || (format!("used index {got:?} vs fresh {fresh:?} for offset {o}"), replay(i)));
                            }
                        }
                        // round trip for in-bounds offsets
                        if *o < len {
                            rep.count("roundtrip.in_bounds");
                            let back = idx.to_offset(got.0, got.1);
                            if back != Some(*o) {
                                ok = false;
                                rep.violation_lazy(format!("C12:roundtrip:{tag}:mismatch"), || (format!("offset {o} -> {got:?} -> {back:?}"), replay(i)));
                            }
                        }
                        prev = Some((*o, want.0));
                    }
                    Err(p) => {
                        ok = false;
                        rep.violation_lazy(format!("C12:to_line_column:panic:{}", panic_sig(&p)), || (p.clone(), replay(i)));
                    }
                }
            }
            Q::Off(l, c) => {
                let want = lm::to_offset(&starts, len, *l, *c);
                let huge = *c > (u32::MAX as usize);
                match catch(|| idx.to_offset(*l, *c)) {
                    Ok(got) => {
                        if got != want {
                            ok = false;
                            let cls = if huge { "huge_column" } else { "mismatch" };
                            rep.violation_lazy(format!("C12:to_offset:{cls}"), || (format!("to_offset({l},{c}) = {got:?}, model {want:?}"), replay(i)));
                        }
                    }
                    Err(p) => {
                        ok = false;
                        rep.violation_lazy(format!("C12:to_offset:panic:{}", panic_sig(&p)), || (p.clone(), replay(i)));
                    }
                }
                rep.count(if want.is_some() { "q.to_offset.some" } else { "q.to_offset.none" });
            }
            Q::Start(l) => {
                let want = if *l >= 1 && *l <= starts.len() { Some(starts[*l - 1]) } else { None };
                match catch(|| idx.line_start(*l)) {
                    Ok(got) => {
                        if got != want {
                            ok = false;
                            rep.violation_lazy("C12:line_start:mismatch", || (format!("line_start({l}) = {got:?}, model {want:?}"), replay(i)));
                        }
                    }
                    Err(p) => {
                        ok = false;
                        rep.violation_lazy(format!("C12:line_start:panic:{}", panic_sig(&p)), || (p.clone(), replay(i)));
                    }
                }
            }
            Q::Count => {
                let got = idx.line_count();
                if got != starts.len() || idx.text_len() != len {
                    ok = false;
                    rep.violation_lazy("C12:line_count:mismatch", || (format!("line_count {got} text_len {} vs model {} / {len}", idx.text_len(), starts.len()), replay(i)));
                }
            }
        }
    }
    ok
}

pub fn run(ctx: &Ctx) -> Report {
    let mut rep = Report::new("C12", "c12");
    rep.rule = "case = (text over a CR/LF-rich alphabet, random query sequence on ONE LineIndex); \
                every answer compared with a naive LF/CR/CRLF scan; non-trivial = text with >= 2 lines \
                and a sequence of >= 8 queries; distinct by hash(text, queries)"
        .into();
    if let Some(rp) = &ctx.replay {
        let text = unhex(rp["text_hex"].as_str().unwrap_or(""));
        let qs: Vec<Q> = rp["queries"].as_array().map(|a| a.iter().filter_map(q_from).collect()).unwrap_or_default();
        check_history(&mut rep, &text, &qs, "replay");
        return rep;
    }
    let mut r = Rng::new(ctx.shard_seed());
    let texts = ctx.n(1500, 20000, 12);
    let max_len = if ctx.tiny() { 400 } else if ctx.thorough() { 400_000 } else { 60_000 };

    // model self-check: linear vs binary-search form
    for _ in 0..ctx.n(200, 1000, 5) {
        let t = gen_text(&mut r, 300);
        let st = lm::line_starts(&t);
        for o in 0..t.len() + 3 {
            assert_eq!(lm::to_line_col(&st, o), lm::to_line_col_fast(&st, o), "model self-check");
        }
    }

    for case in 0..texts {
        let text = gen_text(&mut r, max_len);
        let starts = lm::line_starts(&text);
        let nq = if ctx.tiny() { 40 } else { r.range(8, 400) };
        let qs = gen_queries(&mut r, &starts, text.len(), nq);
        let crlf = text.windows(2).any(|w| w == b"\r\n");
        let tag = if crlf { "crlf" } else if text.contains(&b'\r') { "cr" } else { "lf" };
        check_history(&mut rep, &text, &qs, tag);
        if starts.len() >= 2 {
            let mut h = fnv(&text);
            h ^= fnv(format!("{qs:?}").as_bytes());
            rep.nontrivial(h);
        }
        rep.count(&format!("text.{tag}"));
        if starts.len() > 256 {
            rep.count("text.over_256_lines");
        }
        if case < 3 {
            rep.sample(json!({"text": crate::report::show_bytes(&text), "lines": starts.len(),
                "queries": qs.iter().take(12).map(q_json).collect::<Vec<_>>()}));
        }
    }

    // Exhaustive small sweep: every offset, every (line, col) on short texts; sequential order
    // (monotone walk) and reverse order on the same index.
    for _ in 0..ctx.n(300, 3000, 4) {
        let text = gen_text(&mut r, 120);
        let starts = lm::line_starts(&text);
        let mut qs: Vec<Q> = (0..text.len() + 4).map(Q::Lc).collect();
        qs.extend((0..text.len() + 4).rev().map(Q::Lc));
        for l in 0..starts.len() + 2 {
            for c in 0..8 {
                qs.push(Q::Off(l, c));
            }
        }
        check_history(&mut rep, &text, &qs, "sweep");
        rep.count("sweep.texts");
    }

    if !ctx.tiny() {
        rep.require("hist.repeat", 50);
        rep.require("hist.forward_walk_1_16", 50);
        rep.require("hist.forward_over_cap", 50);
        rep.require("hist.backward", 50);
        rep.require("text.over_256_lines", 5);
        rep.require("roundtrip.in_bounds", 1000);
    }
    rep
}
