//! C05 — the JSON semi-index does not depend on the indexing engine.
//!
//! Oracle: `model::json_sm` (own byte-at-a-time machines for the standard and the simple cursor
//! encodings). Every engine entry point of succinctly is called directly on the same bytes and
//! its IB words, BP words and final state are compared with the model:
//!   standard: PFSM `standard::build_semi_index`, `standard::build_semi_index_scalar`,
//!             `simd::x86` (SSE2), `simd::avx2` (only if the CPU reports AVX2), the `simd`
//!             dispatcher, and `JsonIndex::build` (ib / ib_len / bp words / bp len)
//!   simple:   `simple::build_semi_index`, `simd::x86`, `simd::avx2`, dispatcher,
//!             `SimpleJsonIndex::build`
//!
//! `JsonIndex::build` derives its BP bit length as 2 x popcount (documented in the source as an
//! approximation); that equals the true bit count exactly when opens == closes. For inputs whose
//! bracket counts are unbalanced only the common prefix of the BP bits is compared (counted as
//! `index.bp.prefix_only`) — the property is about the engines' bits, not about that length.

use crate::gen::json as gj;
use crate::model::json_sm as sm;
use crate::report::{catch, hex, panic_sig, show_bytes, unhex, Ctx, Report};
use crate::rng::{fnv, fnv_words, mix, Rng};
use serde_json::json;
use succinctly::json::{simd, simple, standard, JsonIndex, SimpleJsonIndex};

fn std_state(s: standard::State) -> u8 {
    match s {
        standard::State::InJson => sm::ST_JSON,
        standard::State::InString => sm::ST_STRING,
        standard::State::InEscape => sm::ST_ESCAPE,
        standard::State::InValue => sm::ST_VALUE,
    }
}
fn simple_state(s: simple::State) -> u8 {
    match s {
        simple::State::InJson => sm::ST_JSON,
        simple::State::InString => sm::ST_STRING,
        simple::State::InEscape => sm::ST_ESCAPE,
    }
}

struct Out {
    ib: Vec<u64>,
    bp: Vec<u64>,
    state: u8,
}

fn from_std(s: standard::SemiIndex) -> Out {
    Out { state: std_state(s.state), ib: s.ib, bp: s.bp }
}
fn from_simple(s: simple::SemiIndex) -> Out {
    Out { state: simple_state(s.state), ib: s.ib, bp: s.bp }
}

fn avx2_available() -> bool {
    #[cfg(target_arch = "x86_64")]
    {
        std::arch::is_x86_feature_detected!("avx2")
    }
    #[cfg(not(target_arch = "x86_64"))]
    {
        false
    }
}

fn first_diff(a: &[u64], b: &[u64]) -> String {
    if a.len() != b.len() {
        return format!("word count {} vs model {}", a.len(), b.len());
    }
    for (i, (x, y)) in a.iter().zip(b).enumerate() {
        if x != y {
            let bit = i * 64 + (x ^ y).trailing_zeros() as usize;
            return format!("first differing bit {bit} (word {i}: {x:#018x} vs model {y:#018x})");
        }
    }
    "equal".into()
}

/// Compare one engine's output with the model; returns true when equal.
fn compare(rep: &mut Report, engine: &str, out: Result<Out, String>, m: &sm::SemiModel, bytes: &[u8], cls: &str) -> bool {
    rep.eval();
    rep.count(&format!("engine.{engine}"));
    let replay = || json!({"kind": "bytes", "hex": hex(bytes), "class": cls});
    let o = match out {
        Ok(o) => o,
        Err(p) => {
            rep.violation(format!("C05:{engine}:panic:{}", panic_sig(&p)), p, replay());
            return false;
        }
    };
    let mut ok = true;
    if o.ib != m.ib.words {
        ok = false;
        rep.violation(
            format!("C05:{engine}:ib_mismatch"),
            format!("IB differs from the reference machine: {} (input {} bytes, class {cls})", first_diff(&o.ib, &m.ib.words), bytes.len()),
            replay(),
        );
    }
    if o.bp != m.bp.words {
        ok = false;
        rep.violation(
            format!("C05:{engine}:bp_mismatch"),
            format!("BP differs from the reference machine: {} (input {} bytes, class {cls})", first_diff(&o.bp, &m.bp.words), bytes.len()),
            replay(),
        );
    }
    if o.state != m.state {
        ok = false;
        rep.violation(
            format!("C05:{engine}:state_mismatch"),
            format!("final state {} vs reference {} (input {} bytes, class {cls})", sm::state_name(o.state), sm::state_name(m.state), bytes.len()),
            replay(),
        );
    }
    ok
}

/// Run every engine on `bytes`. Returns (ok, hash of the reference outputs).
fn check_bytes(rep: &mut Report, bytes: &[u8], cls: &str) -> (bool, u64) {
    let ms = sm::standard(bytes);
    let mp = sm::simple(bytes);
    let mut ok = true;

    // ---- standard encoding
    ok &= compare(rep, "pfsm.standard", catch(|| from_std(standard::build_semi_index(bytes))), &ms, bytes, cls);
    ok &= compare(rep, "scalar.standard", catch(|| from_std(standard::build_semi_index_scalar(bytes))), &ms, bytes, cls);
    ok &= compare(rep, "dispatch.standard", catch(|| from_std(simd::build_semi_index_standard(bytes))), &ms, bytes, cls);
    #[cfg(target_arch = "x86_64")]
    {
        ok &= compare(rep, "sse2.standard", catch(|| from_std(simd::x86::build_semi_index_standard(bytes))), &ms, bytes, cls);
        if avx2_available() {
            ok &= compare(rep, "avx2.standard", catch(|| from_std(simd::avx2::build_semi_index_standard(bytes))), &ms, bytes, cls);
        }
    }
    // ---- simple encoding
    ok &= compare(rep, "scalar.simple", catch(|| from_simple(simple::build_semi_index(bytes))), &mp, bytes, cls);
    ok &= compare(rep, "dispatch.simple", catch(|| from_simple(simd::build_semi_index_simple(bytes))), &mp, bytes, cls);
    #[cfg(target_arch = "x86_64")]
    {
        ok &= compare(rep, "sse2.simple", catch(|| from_simple(simd::x86::build_semi_index_simple(bytes))), &mp, bytes, cls);
        if avx2_available() {
            ok &= compare(rep, "avx2.simple", catch(|| from_simple(simd::avx2::build_semi_index_simple(bytes))), &mp, bytes, cls);
        }
    }

    // ---- the indexes the library builds for its users
    let replay = || json!({"kind": "bytes", "hex": hex(bytes), "class": cls});
    rep.eval();
    rep.count("engine.JsonIndex.build");
    match catch(|| {
        let ix = JsonIndex::build(bytes);
        (ix.ib().to_vec(), ix.ib_len(), ix.bp().words().to_vec(), ix.bp().len())
    }) {
        Err(p) => {
            ok = false;
            rep.violation(format!("C05:JsonIndex.build:panic:{}", panic_sig(&p)), p, replay());
        }
        Ok((ib, ib_len, bpw, bp_len)) => {
            if ib != ms.ib.words || ib_len != bytes.len() {
                ok = false;
                rep.violation(
                    "C05:JsonIndex.build:ib_mismatch",
                    format!("index IB: {} ; ib_len {ib_len} vs {}", first_diff(&ib, &ms.ib.words), bytes.len()),
                    replay(),
                );
            }
            let opens = ms.bp.ones();
            if 2 * opens == ms.bp.len {
                rep.count("index.bp.full");
                if bpw != ms.bp.words || bp_len != ms.bp.len {
                    ok = false;
                    rep.violation(
                        "C05:JsonIndex.build:bp_mismatch",
                        format!("index BP: {} ; bp len {bp_len} vs reference {}", first_diff(&bpw, &ms.bp.words), ms.bp.len),
                        replay(),
                    );
                }
            } else {
                rep.count("index.bp.prefix_only");
                let n = bp_len.min(ms.bp.len);
                if let Some(i) = (0..n).find(|&i| sm::bit_of(&bpw, i) != ms.bp.get(i)) {
                    ok = false;
                    // Narrow class: more opens than closes, the derived length (2 x opens) points past
                    // the last BP word, and real open bits inside the true BP length read back as 0.
                    let spill = bp_len > bpw.len() * 64 && ms.bp.get(i) && !sm::bit_of(&bpw, i);
                    let sig = if spill {
                        "C05:JsonIndex.build:bp_opens_cleared:len_2x_opens_past_last_word"
                    } else {
                        "C05:JsonIndex.build:bp_prefix_mismatch"
                    };
                    rep.violation(
                        sig,
                        format!(
                            "index BP bit {i} is {} but the reference has {} (true BP length {} bits in {} words, index bp.len() {bp_len}; opens {opens}, closes {})",
                            sm::bit_of(&bpw, i) as u8,
                            ms.bp.get(i) as u8,
                            ms.bp.len,
                            bpw.len(),
                            ms.bp.len - opens
                        ),
                        replay(),
                    );
                }
            }
        }
    }
    rep.eval();
    rep.count("engine.SimpleJsonIndex.build");
    match catch(|| {
        let ix = SimpleJsonIndex::build(bytes);
        (ix.ib().to_vec(), ix.ib_len(), ix.bp().words().to_vec(), ix.bp().len())
    }) {
        Err(p) => {
            ok = false;
            rep.violation(format!("C05:SimpleJsonIndex.build:panic:{}", panic_sig(&p)), p, replay());
        }
        Ok((ib, ib_len, bpw, bp_len)) => {
            if ib != mp.ib.words || ib_len != bytes.len() {
                ok = false;
                rep.violation(
                    "C05:SimpleJsonIndex.build:ib_mismatch",
                    format!("simple index IB: {} ; ib_len {ib_len} vs {}", first_diff(&ib, &mp.ib.words), bytes.len()),
                    replay(),
                );
            }
            if bpw != mp.bp.words || bp_len != mp.bp.len {
                ok = false;
                rep.violation(
                    "C05:SimpleJsonIndex.build:bp_mismatch",
                    format!("simple index BP: {} ; bp len {bp_len} vs reference {}", first_diff(&bpw, &mp.bp.words), mp.bp.len),
                    replay(),
                );
            }
        }
    }

    // ---- data-derived branch counters: which state is carried into a chunk edge
    let mut distinct_states = [false; 4];
    for (i, &s) in ms.trace.iter().enumerate() {
        distinct_states[s as usize] = true;
        if i > 0 && i < bytes.len() && i % 16 == 0 {
            let edge = if i % 64 == 0 {
                "64"
            } else if i % 32 == 0 {
                "32"
            } else {
                "16"
            };
            match s {
                sm::ST_STRING => rep.count(&format!("carry.string.edge{edge}")),
                sm::ST_ESCAPE => rep.count(&format!("carry.escape.edge{edge}")),
                sm::ST_VALUE => rep.count(&format!("carry.value.edge{edge}")),
                _ => {}
            }
        }
    }
    rep.count(&format!("final.{}", sm::state_name(ms.state)));
    if !bytes.is_empty() && bytes.len() % 32 != 0 {
        rep.count("len.partial_32_tail");
    }
    if bytes.len() >= 32 && bytes.len() % 32 == 0 {
        rep.count("len.exact_32_multiple");
    }
    let nstates = distinct_states.iter().filter(|&&b| b).count();
    if bytes.len() >= 8 && nstates >= 2 {
        rep.nontrivial(fnv(bytes));
    }
    let h = mix(
        mix(fnv_words(&ms.ib.words), fnv_words(&ms.bp.words)),
        mix(fnv_words(&mp.ib.words), fnv_words(&mp.bp.words)) ^ ((ms.state as u64) << 8 | mp.state as u64),
    );
    (ok, h)
}

const SWEEP_TOKENS: &[&[u8]] = &[b"\"", b"\\\"", b"\\\\", b"\\u", b"{", b"12345", b"tru", b"}", b":", b"\\\\\"", b"\\u00e9", b"-1.5e+3", b"]"];
const SWEEP_TAILS: &[&[u8]] = &[b"", b"\"", b"x\" , 1 ]", b"\\\"}", b" \"k\":[1,\"\\\\\"]}", b"\\"];

/// Prefix of length `off` that leaves the standard machine in `state` (None if impossible).
fn entering_prefix(state: u8, off: usize, variant: usize) -> Option<Vec<u8>> {
    let mut p = Vec::with_capacity(off);
    match state {
        sm::ST_JSON => {
            let fill = [b' ', b',', b'\n'][variant % 3];
            p.resize(off, fill);
        }
        sm::ST_STRING => {
            if off < 1 {
                return None;
            }
            // opening quote somewhere before; the string body fills up to `off`
            let lead = if variant % 2 == 0 { 0 } else { (off - 1) / 2 };
            p.resize(lead, b' ');
            p.push(b'"');
            p.resize(off, b'a');
        }
        sm::ST_ESCAPE => {
            if off < 2 {
                return None;
            }
            p.push(b'"');
            p.resize(off - 1, if variant % 2 == 0 { b'a' } else { 0xC3 });
            p.push(b'\\');
        }
        _ => {
            if off < 1 {
                return None;
            }
            let lead = if variant % 2 == 0 { 0 } else { (off - 1) / 2 };
            p.resize(lead, b' ');
            p.resize(off, b'7');
        }
    }
    Some(p)
}

pub fn run(ctx: &Ctx) -> Report {
    let mut rep = Report::new("C05", "c05");
    rep.rule = "case = one byte string run through every engine entry point (standard + simple) and compared \
                with the harness's own byte-at-a-time machines; evaluation = one (engine, input) comparison; \
                non-trivial = input of >= 8 bytes on which the reference machine visits >= 2 states; distinct by hash(bytes)"
        .into();
    rep.note(format!(
        "engines: pfsm, scalar, sse2(x86), dispatcher, JsonIndex/SimpleJsonIndex::build; avx2 direct calls: {}",
        if avx2_available() { "yes (CPU reports AVX2)" } else { "no (AVX2 not reported; dispatcher == SSE2)" }
    ));
    rep.assumptions.push("JsonIndex::build's BP bit length is 2 x popcount by construction; for bracket-unbalanced inputs only the common BP prefix is compared".into());

    if let Some(rp) = &ctx.replay {
        let bytes = unhex(rp["hex"].as_str().unwrap_or(""));
        check_bytes(&mut rep, &bytes, rp["class"].as_str().unwrap_or("replay"));
        return rep;
    }

    let mut r = Rng::new(ctx.shard_seed());
    let mut digest = 0xC05u64;
    let max_len = if ctx.tiny() { 200 } else if ctx.thorough() { 65_536 } else { 4_096 };
    let mut samples = 0usize;

    // 1. valid documents, their mutants
    let docs = ctx.n(5000, 40_000, 6);
    for _ in 0..docs {
        let (_, rd) = gj::gen_doc(&mut r);
        let mut bytes = rd.bytes;
        if bytes.len() > max_len {
            bytes.truncate(max_len);
            rep.count("class.valid_truncated");
        } else {
            rep.count("class.valid");
        }
        let (_, h) = check_bytes(&mut rep, &bytes, "valid");
        digest = mix(digest, h);
        if samples < 2 && bytes.len() > 20 {
            samples += 1;
            let m = sm::standard(&bytes);
            rep.sample(json!({"class": "valid", "input": show_bytes(&bytes), "ib_ones": m.ib.ones(), "bp_bits": m.bp.len,
                "final_state": sm::state_name(m.state)}));
        }
        let muts = if ctx.tiny() { 1 } else { 3 };
        for _ in 0..muts {
            let mut mb = bytes.clone();
            for _ in 0..r.range(1, 3) {
                let m = gj::random_mutation(&mut r, mb.len());
                mb = gj::apply_mutation(&mb, &m);
            }
            rep.count("class.mutant");
            let (_, h) = check_bytes(&mut rep, &mb, "mutant");
            digest = mix(digest, h);
        }
    }

    // 2. indicator soup and arbitrary bytes, all small lengths then random lengths
    let small = ctx.n(260, 600, 0);
    for len in 0..small {
        let soup = gj::json_soup(&mut r, len);
        rep.count("class.soup");
        let (_, h) = check_bytes(&mut rep, &soup, "soup");
        digest = mix(digest, h);
        let raw = r.bytes(len);
        rep.count("class.random_bytes");
        let (_, h) = check_bytes(&mut rep, &raw, "random");
        digest = mix(digest, h);
    }
    for i in 0..ctx.n(8000, 60_000, 8) {
        let len = match r.below(6) {
            0 => r.below(70),
            1..=3 => r.below(600),
            _ => r.below(max_len + 1),
        };
        let (bytes, cls) = match i % 4 {
            0 | 1 => (gj::json_soup(&mut r, len), "soup"),
            2 => (r.bytes(len), "random"),
            _ => {
                // narrow alphabet: quotes, backslashes and a few others -> long escape runs
                let alpha: &[u8] = *r.pick(&[&b"\"\\"[..], b"\"\\a", b"\"\\{1 ", b"\\\\\\\"a", b"\"\\u0{}[]:,1 t"]);
                ((0..len).map(|_| *r.pick(alpha)).collect::<Vec<u8>>(), "quote_backslash_soup")
            }
        };
        rep.count(&format!("class.{cls}"));
        let (_, h) = check_bytes(&mut rep, &bytes, cls);
        digest = mix(digest, h);
        if samples < 4 && cls == "quote_backslash_soup" && len > 30 {
            samples += 1;
            rep.sample(json!({"class": cls, "input": show_bytes(&bytes), "final_state": sm::state_name(sm::standard(&bytes).state)}));
        }
    }

    // 3. boundary sweep: token x entering state x every offset
    let offsets: Vec<usize> = if ctx.tiny() {
        vec![0, 1, 15, 16, 31, 32, 33, 63, 64]
    } else {
        (0..=130).collect()
    };
    let tokens: &[&[u8]] = if ctx.tiny() { &SWEEP_TOKENS[..5] } else { SWEEP_TOKENS };
    let mut sweep_i = 0usize;
    for (ti, tok) in tokens.iter().enumerate() {
        for state in [sm::ST_JSON, sm::ST_STRING, sm::ST_ESCAPE, sm::ST_VALUE] {
            for &off in &offsets {
                let tails: Vec<usize> = if ctx.tiny() {
                    vec![(ti + off) % SWEEP_TAILS.len()]
                } else {
                    (0..SWEEP_TAILS.len()).collect()
                };
                for tl in tails {
                    for pad in if ctx.tiny() { vec![off % 2 * 37] } else { vec![0usize, 37] } {
                        sweep_i += 1;
                        let Some(mut b) = entering_prefix(state, off, sweep_i) else { continue };
                        // self-check of the prefix construction against the model
                        assert_eq!(sm::standard(&b).state, state, "sweep prefix must enter in the chosen state");
                        b.extend_from_slice(tok);
                        b.extend_from_slice(SWEEP_TAILS[tl]);
                        b.resize(b.len() + pad, b'z');
                        rep.count(&format!("sweep.enter.{}", sm::state_name(state)));
                        rep.count("class.sweep");
                        let (ok, h) = check_bytes(&mut rep, &b, "sweep");
                        digest = mix(digest, h);
                        if !ok {
                            rep.count("sweep.failed");
                        }
                        if samples < 6 && off == 31 && state == sm::ST_ESCAPE {
                            samples += 1;
                            rep.sample(json!({"class": "sweep", "token": String::from_utf8_lossy(tok), "offset": off,
                                "entering_state": sm::state_name(state), "input": show_bytes(&b)}));
                        }
                    }
                }
            }
        }
    }

    // 4. gap sweep: a token ending at every offset, followed by a whitespace run of a length around
    //    the chunk widths (whole blank 16/32/64-byte chunks), followed by another token or the end of
    //    input; with and without an enclosing array. Long insignificant-whitespace runs are ordinary
    //    in indented documents, and a builder may treat an all-blank chunk specially.
    {
        let toks: [&[u8]; 7] = [b"1", b"-12.5e3", b"true", b"null", b"\"s\"", b"]", b"}"];
        let tails: [&[u8]; 6] = [b"", b"2", b"false", b"\"t\"", b"]", b","];
        let gaps: &[usize] = if ctx.tiny() { &[0, 16, 32, 33] } else { &[0, 1, 15, 16, 17, 31, 32, 33, 47, 48, 63, 64, 65, 95, 96, 97, 128, 160] };
        let ends = if ctx.tiny() { 34 } else { 72 };
        let ws_kinds: [u8; 4] = [b' ', b'\n', b'\t', b'\r'];
        let mut k = 0usize;
        for (ti, tok) in toks.iter().enumerate() {
            for end in tok.len()..ends {
                for &gap in gaps {
                    k += 1;
                    if ctx.tiny() && k % 7 != 0 {
                        continue;
                    }
                    let tail = tails[(k + ti) % tails.len()];
                    let wsb = ws_kinds[k % 4];
                    let mut b = Vec::with_capacity(end + gap + 8);
                    let open = k % 3 == 0 && end > tok.len();
                    if open {
                        b.push(b'[');
                    }
                    while b.len() + tok.len() < end {
                        b.push(b' ');
                    }
                    b.extend_from_slice(tok);
                    b.resize(b.len() + gap, wsb);
                    b.extend_from_slice(tail);
                    rep.count("class.gap_sweep");
                    if gap >= 32 {
                        rep.count("gap.blank_chunk_ge32");
                    }
                    if b.len() % 32 == 0 {
                        rep.count("gap.input_ends_on_32_boundary");
                    }
                    let (ok, h) = check_bytes(&mut rep, &b, "gap_sweep");
                    digest = crate::rng::mix(digest, h);
                    if ok {
                        rep.nontrivial(crate::rng::fnv(&b));
                    }
                }
            }
        }
    }

    rep.digest("c05.reference", digest);
    if !ctx.tiny() {
        rep.require("gap.blank_chunk_ge32", 1000);
        rep.require("gap.input_ends_on_32_boundary", 50);
        for edge in ["16", "32", "64"] {
            rep.require(&format!("carry.string.edge{edge}"), 200);
            rep.require(&format!("carry.escape.edge{edge}"), 50);
            rep.require(&format!("carry.value.edge{edge}"), 50);
        }
        for st in ["InJson", "InString", "InEscape", "InValue"] {
            rep.require(&format!("final.{st}"), 50);
            rep.require(&format!("sweep.enter.{st}"), 1000);
        }
        rep.require("len.partial_32_tail", 1000);
        rep.require("len.exact_32_multiple", 20);
        rep.require("index.bp.full", 500);
        rep.require("index.bp.prefix_only", 500);
        rep.require("class.valid", 500);
        rep.require("class.mutant", 500);
    }
    rep
}
