//! C23 — the library evaluator (`jq::eval`) and the generic evaluator used by the CLI
//! (`jq::eval_generic::eval_with_cursor`) agree on every program: same output sequence
//! (`to_json` texts) and same ending (end / error message / break label / halt code).
//!
//! Oracle: the two evaluators against each other (the property *is* the differential).
//! Workload: G-JQ `Full` programs generated for G-JSON inputs (duplicate keys, edge numbers).
//! Every disagreement is minimised (structural delta-debugging of the program template, then of
//! the input) before it is reported, and the signature is built from the operators left in the
//! minimal program plus the two terminal kinds, so one root cause gives one signature.
//!
//! Ad-hoc use: `svh c23 --prog '<program>' --input '<json>'` prints both results.

use crate::gen::jq::{shrink_candidates, Dialect, JqGen, Jx};
use crate::gen::jqrun::{parse_guarded, run_gen, run_lib, Drained, RunResult};
use crate::gen::json::{gen_tree, TreeOpts};
use crate::report::{panic_sig, Ctx, Report};
use crate::rng::{fnv, Rng};
use crate::val::Val;
use serde_json::{json, Value};

const MAX_OUTPUTS: usize = 10_000;
const MAX_TEXT: usize = 4 << 20;

/// Outcome of comparing the two evaluators on one (program, input).
#[derive(Clone, Debug, PartialEq)]
pub enum Cmp {
    ParseError,
    ParsePanic(String),
    Agree { outputs: usize, term_kind: &'static str, hash: u64 },
    BothPanic,
    Budget,
    /// (class, lib rendering, generic rendering)
    Diverge { class: String, lib: String, gen: String },
}

fn side_kind(r: &RunResult) -> &'static str {
    match r {
        Ok(d) => d.term.kind(),
        Err(_) => "panic",
    }
}

fn show(r: &RunResult) -> String {
    match r {
        Ok(d) => d.show(12),
        Err(p) => format!("PANIC {p}"),
    }
}

fn over_budget(d: &Drained) -> bool {
    d.outs.len() > MAX_OUTPUTS || d.total_text() > MAX_TEXT
}

/// Run both evaluators and classify.
pub fn compare(prog: &str, input: &[u8]) -> Cmp {
    let expr = match parse_guarded(prog) {
        Ok(Ok(e)) => e,
        Ok(Err(_)) => return Cmp::ParseError,
        Err(p) => return Cmp::ParsePanic(p),
    };
    let l = run_lib(&expr, input);
    let g = run_gen(&expr, input);
    match (&l, &g) {
        (Err(_), Err(_)) => Cmp::BothPanic,
        (Ok(a), Ok(b)) => {
            if over_budget(a) || over_budget(b) {
                return Cmp::Budget;
            }
            if a.texts == b.texts && a.term == b.term {
                let mut hash = fnv(a.term.show().as_bytes());
                for t in &a.texts {
                    hash = hash.rotate_left(7) ^ fnv(t.as_bytes());
                }
                return Cmp::Agree { outputs: a.texts.len(), term_kind: a.term.kind(), hash };
            }
            let what = if a.term.kind() != b.term.kind() {
                String::new()
            } else if a.texts != b.texts {
                ":outputs".to_string()
            } else {
                ":message".to_string()
            };
            Cmp::Diverge { class: format!("{}/{}{}", a.term.kind(), b.term.kind(), what), lib: show(&l), gen: show(&g) }
        }
        _ => Cmp::Diverge { class: format!("{}/{}", side_kind(&l), side_kind(&g)), lib: show(&l), gen: show(&g) },
    }
}

const STRUCTURAL: &[&str] = &[
    "pipe", "paren", "identity", "lit", "num", "str", "path", "field", "index", "slice", "iterate", "comma", "array", "object", "var",
    "re", "flags", "patharr", "patharrs", "pred", "update", "extreme", "extreme-template",
];

/// Signature operator: the top-level builtin/operator of the (minimised) program — the first
/// non-structural tag in pre-order, looked for in the *last* stage of a top-level pipe first
/// (after minimisation the earlier stages only prepare the input).
fn sig_ops(e: &Jx) -> String {
    fn first_op(e: &Jx) -> Option<&'static str> {
        let mut tags = Vec::new();
        e.tags(&mut tags);
        tags.into_iter().find(|t| !STRUCTURAL.contains(t))
    }
    if e.kids.is_empty() && FIXED_SHAPES.contains(&e.tag) {
        return fixed_op(e.tag);
    }
    let mut root = e;
    while root.tag == "paren" && root.kids.len() == 1 {
        root = &root.kids[0];
    }
    if root.tag == "pipe" {
        if let Some(op) = root.kids.iter().rev().find_map(first_op) {
            return op.to_string();
        }
    }
    if let Some(op) = first_op(root) {
        return op.to_string();
    }
    let mut tags = Vec::new();
    root.tags(&mut tags);
    tags.into_iter().find(|t| !matches!(*t, "paren" | "identity" | "pipe")).unwrap_or("identity").to_string()
}

/// `name/arity` of the leading builtin call of a fixed shape (`keys?` -> `keys/0`,
/// `flatten(1)?` -> `flatten/1`), or the text itself when it does not start with a name.
fn fixed_op(p: &str) -> String {
    let name: String = p.chars().take_while(|c| c.is_ascii_alphanumeric() || *c == '_' || *c == '@').collect();
    if name.is_empty() || !name.starts_with(|c: char| c.is_ascii_alphabetic() || c == '@') {
        return p.to_string();
    }
    let rest = &p[name.len()..];
    let mut arity = 0;
    if rest.starts_with('(') {
        arity = 1;
        let mut depth = 0;
        for c in rest.chars() {
            match c {
                '(' | '[' | '{' => depth += 1,
                ')' | ']' | '}' => {
                    depth -= 1;
                    if depth == 0 {
                        break;
                    }
                }
                ';' if depth == 1 => arity += 1,
                _ => {}
            }
        }
    }
    format!("{name}/{arity}")
}

fn class_of(c: &Cmp) -> Option<&str> {
    match c {
        Cmp::Diverge { class, .. } => Some(class),
        _ => None,
    }
}

/// Greedy structural minimisation of the program, then of the input, keeping *a* divergence
/// (of any class: the goal is the smallest disagreeing pair, so that one root cause ends up with
/// one signature). `budget` bounds the number of candidate evaluations.
fn minimise(e: &Jx, input: &Val, budget: &mut usize) -> (Jx, Val) {
    let mut cur = e.clone();
    let mut inp = input.clone();
    loop {
        let mut improved = false;
        let bytes = inp.to_json_text().into_bytes();
        for cand in shrink_candidates(&cur) {
            if *budget == 0 {
                return (cur, inp);
            }
            if cand.size() > cur.size() || (cand.size() == cur.size() && cand.print().len() >= cur.print().len()) {
                continue;
            }
            *budget -= 1;
            if class_of(&compare(&cand.print(), &bytes)).is_some() {
                cur = cand;
                improved = true;
                break;
            }
        }
        if improved {
            continue;
        }
        // input shrinking
        let prog = cur.print();
        for cand in shrink_val(&inp) {
            if *budget == 0 {
                return (cur, inp);
            }
            *budget -= 1;
            if class_of(&compare(&prog, cand.to_json_text().as_bytes())).is_some() {
                inp = cand;
                improved = true;
                break;
            }
        }
        if !improved {
            return (cur, inp);
        }
    }
}

/// Smaller variants of a value: children, element/field removal, scalar simplification.
pub fn shrink_val(v: &Val) -> Vec<Val> {
    let mut out = Vec::new();
    match v {
        Val::Arr(xs) => {
            out.extend(xs.iter().cloned());
            if !xs.is_empty() {
                out.push(Val::Arr(vec![]));
            }
            for i in 0..xs.len() {
                let mut c = xs.clone();
                c.remove(i);
                out.push(Val::Arr(c));
            }
            for i in 0..xs.len() {
                for s in shrink_val(&xs[i]) {
                    let mut c = xs.clone();
                    c[i] = s;
                    out.push(Val::Arr(c));
                }
            }
        }
        Val::Obj(kv) => {
            out.extend(kv.iter().map(|(_, x)| x.clone()));
            if !kv.is_empty() {
                out.push(Val::Obj(vec![]));
            }
            for i in 0..kv.len() {
                let mut c = kv.clone();
                c.remove(i);
                out.push(Val::Obj(c));
            }
            for i in 0..kv.len() {
                for s in shrink_val(&kv[i].1) {
                    let mut c = kv.clone();
                    c[i].1 = s;
                    out.push(Val::Obj(c));
                }
                if kv[i].0 != "a" && !kv.iter().any(|(k, _)| k == "a") {
                    let mut c = kv.clone();
                    c[i].0 = "a".into();
                    out.push(Val::Obj(c));
                }
            }
        }
        Val::Str(s) => {
            if !s.is_empty() {
                out.push(Val::Str(String::new()));
                let cs: Vec<char> = s.chars().collect();
                if cs.len() > 1 {
                    out.push(Val::Str(cs[..cs.len() / 2].iter().collect()));
                    out.push(Val::Str(cs[cs.len() / 2..].iter().collect()));
                    out.push(Val::Str(cs[1..].iter().collect()));
                }
                if s != "a" {
                    out.push(Val::Str("a".into()));
                }
            }
        }
        Val::Num(t) => {
            if t != "0" {
                out.push(Val::Num("0".into()));
                if t != "1" {
                    out.push(Val::Num("1".into()));
                }
            }
        }
        Val::Bool(_) => out.push(Val::Null),
        Val::Null => {}
    }
    out
}

fn gen_input(r: &mut Rng, tiny: bool) -> Val {
    let o = TreeOpts {
        max_depth: *r.pick(&[1usize, 2, 3, 4, 5]),
        max_width: *r.pick(&[2usize, 3, 4, 6]),
        budget: if tiny { 12 } else { *r.pick(&[6usize, 12, 25, 40]) },
        dup_keys: r.chance(1, 4),
        str_class: r.below(4) as u8,
        max_str: *r.pick(&[4usize, 10, 24]),
        num_class: r.below(3) as u8,
        simple_keys: r.chance(1, 2),
    };
    let v = gen_tree(r, &o);
    // mostly containers at the root (programs navigate)
    if !v.is_container() && r.chance(2, 3) {
        return Val::Arr(vec![v, gen_tree(r, &o)]);
    }
    v
}

/// Fixed program shapes for the sweep (syntax corners the grammar reaches rarely).
const FIXED_SHAPES: &[&str] = &[
    ".", "..", ".[]?", "[..]", "[.[]?]", "[paths]", "[leaf_paths]", "[tostream]", "fromstream(tostream)", "$__loc__",
    "input_line_number", "[limit(0; 1, 2)]", "[limit(1; .[]?)]", "first(.[]?)", "[.[]?] | .[1.5:2.5]", ".[1.7]?", ".[-0]?",
    ".[nan]?", "try error catch .", "try error(null) catch .", "error(null)", "error", "try error({a: 1}) catch .a",
    "[.[]? | tostring]", "[.[]? | tojson]", "tojson | fromjson", "@text", "@json", "[.[]?] | @csv", "[.[]?] | @tsv", "@html",
    "@uri", "@sh", "@base64", "@base64 | @base64d", "\"a\\(.)b\"", "\"\\(1, 2)\"", "{a: .}", "{(tostring): 1}", "{a: (1, 2), b: (3, 4)}",
    "[.[]?] | sort", "[.[]?] | unique", "[.[]?] | group_by(type)", "[.[]?] | min, max", "[.[]?] | add", "to_entries?",
    "with_entries(.)?", "keys?", "length?", "[.[]?] | length", ". as [$a, $b] | [$a, $b]", ". as {a: $x} | $x", ". as [$a] ?// $a | [$a]",
    "reduce .[]? as $x (0; . + 1)", "foreach .[]? as $x (0; . + 1; [$x, .])", "label $out | .[]? | ., break $out", "break $nope",
    "if . then 1 else 2 end", "if . then 1 end", ". // \"d\"", "(.a? // .[0]?) // null", ".a?", ".a?.b?", ".[0]?", ".[\"a\"]?", ".. | numbers",
    "[.[]? | numbers | . + 1]", "[.[]? | . * 2]?", ". == .", ". < null", "[., 1] | sort", "not", ". and true", ". or false", "-(.)?",
    "path(..)", "[paths(type == \"number\")]", "getpath([\"a\", \"b\"])?", "setpath([\"a\"]; 1)?", "setpath([0]; 1)?", "delpaths([[0], [\"a\"]])?",
    "del(.[0], .a)?", "to_entries? | from_entries", ".[0] = 1", ".a = 1", ".[]? |= .", ".[]? += 1", ". += 1", ".a //= 1", ".a |= empty",
    "map(select(. != null))?", "map_values(empty)?", "walk(.)", "walk(if type == \"number\" then . + 1 else . end)", "[splits(\"a\")]?",
    "ascii_downcase?", "ltrimstr(\"a\")", "tostring", "tonumber?", "type", "infinite", "nan | isnan", "[nan] | sort", "nan < nan", "[., nan] | min",
    "1 / 3", "1e1000", "-1e1000", "100000000000000000000", "0.1 + 0.2", "3.10", "[3.10, 1.0, 1e2]", "1.0 | tostring", "9007199254740993",
    "9007199254740993 + 0", ". + 0?", "[.[]? | . % 2]?", "5 % -2", "-5 % 2", "1 % 0", "1 / 0", "[range(0; 10; 3)]", "[range(5; 0; -2)]", "[range(0; 1; 0.3)]",
    "limit(3; repeat(1))", "[limit(5; range(0; infinite))]", "first(range(10; 0; -1))", "until(true; .)", "[recurse(.[]?; . != null)]",
    "env | type", "$ENV | type", "builtins | length", "splits(\"a\"; null)?", "test(\"A\"; \"i\")?", "[match(\"a\"; \"g\").offset]?", "capture(\"(?<x>a)\")?",
    "sub(\"a\"; \"b\")?", "gsub(\"\"; \"-\")?", "[scan(\".\")]?", "ascii_upcase?", "explode? | implode", "@base64d?", "utf8bytelength?",
    "indices(\"a\")?", "indices(1)?", "index(\"a\")?", "inside([1, 2, 3])?", "contains(\"a\")?", "has(0)?", "has(\"a\")?", "in({\"a\": 1})?",
    "any", "all", "any(. == 1)?", "flatten?", "flatten(1)?", "transpose?", "combinations?", "tojsonstream", "[.[]?] | bsearch(1)",
    "gmtime?", "todate?", "mktime?", "strftime(\"%Y\")?", "\"2015-03-05T23:51:47Z\" | fromdate", "now | type", "halt_error?", "getpath([])", "getpath([0, 0])?",
    "pick(.a)?", "pick(.[0])?", "abs?", "toboolean?", "trim?", "ltrim?", "rtrim?", "[.[]?] | IN(1)", "IN(.[]?; 1, null)", "INDEX(.a?)?", "isvalid(.a)", "isempty(.[]?)",
    "nth(1)?", "nth(1; .[]?)", "skip(1; .[]?)", "first?", "last?", "[first(empty)]", "[last(empty)]", "add?", "min_by(.a?)?", "unique_by(type)?",
    "sort_by(.a?)?", "group_by(.a?)?", "keys_unsorted?", "map(.)?", "reverse?", "reverse", "splits(\"\")?", "join(\",\")?", "ascii?", "@dsv(\";\")?",
    "@urid?", "ltrimstr(1)", "startswith(\"a\")?", "endswith(1)?", "split(\"a\")?", "split(\"a\"; \"g\")?", "tojson | tojson", "[.] | tojson | fromjson",
    "def f: .; f", "def f(g): [g]; f(.[]?)", "def f($a; $b): $a + $b; f(1; 2)", "def f: def g: 3; g; f", "[.[]? as $x | $x]", "[.[]? as [$a] | $a]",
    "reduce range(3) as $i ([]; . + [$i])", "[foreach range(3) as $i (0; . + $i)]", "[range(3) as $x | range($x)]", ". as $d | [paths] | map(. as $p | $d | getpath($p))",
    // generator-valued path components (Cartesian order of forks differs easily between evaluators)
    ".[(0, 1):(3, 4)]?", ".[(1, 2):]?", ".[:(1, 2)]?", "[.[]?][(0, 1):(2, 3)]", ".a[(0, 1):(3, 4)]?", ".[(0, 1)]?", ".[(\"a\", \"b\")]?",
    "[.[(0, 1):(2, 3)]?]", ".[(0, 1):(3, 4)]? | length", "{(\"a\", \"b\"): (1, 2)}", "[(1, 2) + (10, 20)]", "[(1, 2) * (3, 4) - (0, 1)]",
    "[(1, 2) < (2, 1)]", "[(true, false) and (true, false)]", "[(null, 1) // (2, 3)]", "[limit((1, 2); (7, 8, 9))]", "[range((0, 1); (2, 3))]",
    "[.[]? | length]", "[.. | length?]", "[.[]? | -(.)?]", "-0.0 | length", "[-0.0, 0.0, -0] | map(length)", "[-0.0] | .[] | length",
    "to_entries? | map(.key)", "[.[]? | select(type == \"object\") | keys[]]", "[keys?[]]", "keys? | .[0]", "[.[]?][0]", "try (.[]? |= error) catch .",
];

/// Input pool for the sweep.
fn sweep_pool(r: &mut Rng, tiny: bool) -> Vec<Val> {
    let texts: &[&str] = &[
        "null", "true", "false", "0", "-1", "1.5", "-0.0", "1e1000", "3.10", "9007199254740993", "\"\"", "\"abc\"", "\"aXbxc a\"", "\"12\"",
        "\"2015-03-05T23:51:47Z\"", "\"é日本😀\"", "\" pad \"", "\"YWJj\"", "[]", "[1,2,3]", "[3,1,2,1]", "[\"a\",\"b\",\"a\"]", "[[1,2],[3,4]]",
        "[null,true,1,\"a\",[],{}]", "[0.1,1e-5,1e17,3.10,-0]", "{}", "{\"a\":1,\"b\":[1,2]}", "{\"a\":{\"b\":{\"c\":null}}}", "[{\"a\":1,\"b\":2},{\"a\":3}]",
        "{\"key\":\"k\",\"value\":1}", "[{\"key\":\"a\",\"value\":1},{\"name\":\"b\",\"v\":2}]", "1425599507", "[2015,2,5,23,51,47,4,63]", "{\"a\":1,\"a\":2}",
        "{\"b\":1,\"a\":{\"x\":1,\"x\":null},\"b\":[2]}", "[65,233,128512]", "[[0],1]", "[[\"a\",0],1]", "{\"a b\":1,\"\":2,\"é\":3}",
    ];
    let mut pool: Vec<Val> = texts
        .iter()
        .filter_map(|t| serde_json::from_str::<Value>(t).ok().map(|v| (t, v)))
        .map(|(t, v)| match *t {
            // spellings serde would normalise
            "-0.0" | "1e1000" | "3.10" | "9007199254740993" => Val::Num(t.to_string()),
            "{\"a\":1,\"a\":2}" => Val::Obj(vec![("a".into(), Val::int(1)), ("a".into(), Val::int(2))]),
            "{\"b\":1,\"a\":{\"x\":1,\"x\":null},\"b\":[2]}" => Val::Obj(vec![
                ("b".into(), Val::int(1)),
                ("a".into(), Val::Obj(vec![("x".into(), Val::int(1)), ("x".into(), Val::Null)])),
                ("b".into(), Val::Arr(vec![Val::int(2)])),
            ]),
            "[0.1,1e-5,1e17,3.10,-0]" => Val::Arr(["0.1", "1e-5", "1e17", "3.10", "-0"].iter().map(|n| Val::Num(n.to_string())).collect()),
            _ => Val::from_serde(&v),
        })
        .collect();
    // "1e1000" does not survive serde_json's f64 parser: add it by hand
    pool.push(Val::Num("1e1000".into()));
    pool.push(Val::Arr(vec![Val::Num("1E+2".into()), Val::Num("-1e-7".into()), Val::Num("18446744073709551616".into())]));
    for _ in 0..6 {
        pool.push(gen_input(r, tiny));
    }
    if tiny {
        pool.truncate(2);
    }
    pool
}

struct State {
    min_budget: usize,
    /// running hash of every agreed result (compared across build configurations)
    digest: u64,
}

fn check_pair(rep: &mut Report, st: &mut State, e: &Jx, input: &Val, record: bool) {
    let prog = e.print();
    let bytes = input.to_json_text().into_bytes();
    rep.eval();
    let c = compare(&prog, &bytes);
    match &c {
        Cmp::ParseError => rep.count("parse.error"),
        Cmp::ParsePanic(p) => {
            rep.count("parse.panic");
            if rep.get("parse.panic") <= 5 {
                rep.note(format!("parser panic (C30's concern): {} on `{prog}`", panic_sig(p)));
            }
        }
        Cmp::BothPanic => {
            rep.count("parse.ok");
            rep.count("both_panic");
        }
        Cmp::Budget => {
            rep.count("parse.ok");
            rep.inconclusive(json!({"reason": "output budget exceeded", "program": prog, "input_json": String::from_utf8_lossy(&bytes)}));
        }
        Cmp::Agree { outputs, term_kind, hash } => {
            st.digest = st.digest.rotate_left(5) ^ *hash;
            rep.count("parse.ok");
            rep.count(&format!("agree.{term_kind}"));
            if *outputs > 0 {
                rep.count("agree.with_outputs");
            }
            if *outputs > 0 || *term_kind != "end" {
                let mut h = fnv(prog.as_bytes());
                h ^= fnv(&bytes).rotate_left(17);
                rep.nontrivial(h);
            }
            if record {
                rep.sample(json!({"program": prog, "input_json": String::from_utf8_lossy(&bytes), "outputs": outputs, "terminal": term_kind}));
            }
        }
        Cmp::Diverge { class, .. } => {
            rep.count("parse.ok");
            rep.count("diverge.raw");
            let orig_class = class.clone();
            let (me, mi) = if st.min_budget > 0 { minimise(e, input, &mut st.min_budget) } else { (e.clone(), input.clone()) };
            if st.min_budget == 0 {
                rep.count("diverge.minimisation_budget_exhausted");
            }
            let mprog = me.print();
            let mbytes = mi.to_json_text();
            let (class, lib, gen) = match compare(&mprog, mbytes.as_bytes()) {
                Cmp::Diverge { class, lib, gen } => (class, lib, gen),
                _ => (orig_class, String::new(), String::new()),
            };
            let dup = if mi.has_dup_keys() { ":dupkeys" } else { "" };
            let sig = format!("C23:diverge:{}:{}{}", sig_ops(&me), class, dup);
            rep.violation(
                sig.clone(),
                format!("program `{mprog}` on input {mbytes}: library => {lib} ; generic => {gen}"),
                json!({"kind": "pair", "sig": sig, "program": mprog, "input_json": mbytes, "orig_program": prog,
                       "orig_input_json": String::from_utf8_lossy(&bytes), "lib": lib, "generic": gen}),
            );
        }
    }
}

fn adhoc(ctx: &Ctx, p: &str) {
    let input = ctx.arg("input").unwrap_or("null");
    match parse_guarded(p) {
        Ok(Ok(e)) => {
            if ctx.arg("ast").is_some() {
                println!("AST {e:?}");
            }
            println!("LIB {}", show(&run_lib(&e, input.as_bytes())));
            println!("GEN {}", show(&run_gen(&e, input.as_bytes())));
        }
        Ok(Err(m)) => println!("PARSE-ERR {m}"),
        Err(p) => println!("PARSE-PANIC {p}"),
    }
}

/// `svh c23 --dump <dialect> [--count N] [--dumpfile PATH]`: generated (program, input) pairs
/// as JSON lines `{"dialect","program","input_json","parses"}` — the generator's interface for
/// the CLI-level checks (C15/C24/C26/C27), deterministic in `--seed`. Inputs follow the
/// dialect: core-stable gets integers / ASCII+BMP strings / no duplicate keys, the yq dialects
/// get string/int/bool/null leaves with identifier-like keys.
fn dump(ctx: &Ctx, dialect: &str, rep: &mut Report) {
    let Some(d) = Dialect::from_name(dialect) else {
        rep.note(format!("unknown dialect {dialect}; use full|full-extreme|core-stable|navigation|write|presentation-blind"));
        return;
    };
    let n: usize = ctx.arg("count").and_then(|s| s.parse().ok()).unwrap_or(20);
    let mut r = Rng::new(ctx.shard_seed());
    let mut g = JqGen::new();
    let mut out = String::new();
    for _ in 0..n {
        let input = match d {
            Dialect::Full | Dialect::FullExtreme => gen_input(&mut r, false),
            Dialect::CoreStable => gen_tree(
                &mut r,
                &TreeOpts { max_depth: 4, max_width: 4, budget: 20, dup_keys: false, str_class: 1, max_str: 8, num_class: 0, simple_keys: false },
            ),
            _ => gen_tree(
                &mut r,
                &TreeOpts { max_depth: 4, max_width: 4, budget: 20, dup_keys: false, str_class: 1, max_str: 8, num_class: 0, simple_keys: true },
            ),
        };
        let prog = g.gen(&mut r, d, &input).print();
        let parses = matches!(parse_guarded(&prog), Ok(Ok(_)));
        rep.count(if parses { "dump.parses" } else { "dump.rejected" });
        out.push_str(&json!({"dialect": d.name(), "program": prog, "input_json": input.to_json_text(), "parses": parses}).to_string());
        out.push('\n');
    }
    match ctx.arg("dumpfile") {
        Some(p) => {
            if let Err(e) = std::fs::write(p, &out) {
                rep.note(format!("cannot write {p}: {e}"));
            }
        }
        None => print!("{out}"),
    }
    rep.add("builtin_coverage", g.used.len() as u64);
}

pub fn run(ctx: &Ctx) -> Report {
    let mut rep = Report::new("C23", "c23");
    rep.rule = "case = (G-JQ full program that parses, G-JSON input); both evaluators drained to (to_json texts, \
                terminal) and compared; non-trivial = the pair produced >= 1 output or a non-end terminal; distinct \
                by hash(program text, input bytes)"
        .into();
    if let Some(p) = ctx.arg("prog") {
        adhoc(ctx, p);
        rep.note("ad-hoc mode");
        return rep;
    }
    if let Some(d) = ctx.arg("dump") {
        dump(ctx, d, &mut rep);
        return rep;
    }
    if let Some(rp) = &ctx.replay {
        let prog = rp["program"].as_str().unwrap_or(".");
        let input = rp["input_json"].as_str().unwrap_or("null");
        rep.eval();
        match compare(prog, input.as_bytes()) {
            Cmp::Diverge { class, lib, gen } => {
                // same signature as the original report when the class is unchanged
                let sig = match rp["sig"].as_str() {
                    Some(s) if s.contains(&class) => s.to_string(),
                    _ => format!("C23:diverge:replay:{class}"),
                };
                rep.violation(sig, format!("program `{prog}` on input {input}: library => {lib} ; generic => {gen}"), rp.clone());
            }
            other => rep.note(format!("replay outcome: {other:?}")),
        }
        return rep;
    }

    let mut r = Rng::new(ctx.shard_seed());
    let mut g = JqGen::new();
    for d in &g.dropped {
        rep.note(format!("builtin table entry dropped: {d}"));
    }
    rep.add("table.entries", g.table.len() as u64);
    rep.add("table.dropped", g.dropped.len() as u64);
    let inputs = ctx.n(20_000, 200_000, 25);
    let per_input = if ctx.tiny() { 2 } else { 4 };
    let mut st = State { min_budget: ctx.n(40_000, 400_000, 300), digest: 0 };
    for i in 0..inputs {
        let input = gen_input(&mut r, ctx.tiny());
        for k in 0..per_input {
            let e = g.gen(&mut r, Dialect::Full, &input);
            check_pair(&mut rep, &mut st, &e, &input, i < 3 && k == 0);
        }
    }
    // Systematic sweep: every builtin-table entry (any input type) and a list of fixed shapes
    // over a pool of typical values — catches per-builtin type-dispatch drift that random
    // type-directed programs reach only rarely.
    let pool = sweep_pool(&mut r, ctx.tiny());
    let reps = ctx.n(2, 12, 1);
    for inp in &pool {
        for idx in 0..g.table.len() {
            for _ in 0..reps {
                let e = g.gen_call(&mut r, Dialect::Full, idx, inp);
                check_pair(&mut rep, &mut st, &e, inp, false);
                rep.count("sweep.calls");
            }
        }
        for p in FIXED_SHAPES {
            let e = Jx::atom(p, *p);
            check_pair(&mut rep, &mut st, &e, inp, false);
            rep.count("sweep.fixed");
        }
    }
    rep.digest("agreed_results", st.digest);
    rep.add("builtin_coverage", g.used.len() as u64);
    rep.note(format!("constructs emitted: {}", g.used.iter().cloned().collect::<Vec<_>>().join(" ")));
    if !ctx.tiny() {
        rep.require("parse.ok", 5000);
        rep.require("agree.with_outputs", 2500);
        rep.require("agree.error", 500);
        rep.require("builtin_coverage", 150);
    }
    rep
}
