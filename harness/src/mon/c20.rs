//! C20 — the DSV index does not depend on the indexing engine.
//!
//! Every available engine (runtime dispatcher, scalar, SSE2, AVX2, BMI2) indexes the same
//! (text, configuration); each result is compared with the harness's own bit-serial
//! toggle-on-every-quote scan (`model::dsv::marks`): marker/newline words, text length,
//! counts, and `markers_/newlines_ rank1/select1` answers. Equality with the model for every
//! engine implies pairwise equality of the engines.

use crate::gen::dsv as g;
use crate::model::dsv::{self as m, Cfg};
use crate::report::{catch, hex, panic_sig, show_bytes, unhex, Ctx, Report};
use crate::rng::{fnv, mix, Rng};
use serde_json::{json, Value};
use succinctly::dsv::{DsvConfig, DsvIndex};

type Engine = (&'static str, fn(&[u8], &DsvConfig) -> DsvIndex);

fn engines() -> Vec<Engine> {
    let mut v: Vec<Engine> = vec![
        ("dispatch", succinctly::dsv::build_index as fn(&[u8], &DsvConfig) -> DsvIndex),
        ("scalar", succinctly::dsv::build_index_scalar),
    ];
    #[cfg(target_arch = "x86_64")]
    {
        if std::arch::is_x86_feature_detected!("sse2") {
            v.push(("sse2", succinctly::dsv::simd::sse2::build_index_simd));
        }
        if std::arch::is_x86_feature_detected!("avx2") {
            v.push(("avx2", succinctly::dsv::simd::avx2::build_index_simd));
            if std::arch::is_x86_feature_detected!("bmi2") {
                v.push(("bmi2", succinctly::dsv::simd::bmi2::build_index_simd));
            }
        }
    }
    v
}

fn lib_cfg(c: Cfg) -> DsvConfig {
    DsvConfig { delimiter: c.delim, quote_char: c.quote, newline: c.sep }
}

fn replay_of(text: &[u8], c: Cfg) -> Value {
    json!({"kind": "case", "text_hex": hex(text), "delim": c.delim, "quote": c.quote, "sep": c.sep})
}

/// Where does the first differing bit sit? (narrow failure classes for signatures)
fn diff_class(text: &[u8], c: Cfg, got: &[u64], want: &[u64]) -> &'static str {
    if got.len() != want.len() {
        return "word_count";
    }
    for w in 0..want.len() {
        if got[w] != want[w] {
            let tail = text.len() % 64 != 0 && w == want.len() - 1;
            let prev_q63 = w > 0 && text[64 * w - 1] == c.quote;
            return if prev_q63 {
                "chunk_after_quote_at_bit63"
            } else if tail {
                "tail_chunk"
            } else {
                "full_chunk"
            };
        }
    }
    "none"
}

/// Data-derived branch counters for one text.
fn classify(rep: &mut Report, text: &[u8], c: Cfg) {
    let chunks = text.len().div_ceil(64);
    let mut inq = false;
    let mut inside_run = 0usize; // consecutive chunks entered while inside quotes
    let mut max_inside_run = 0usize;
    for k in 0..chunks {
        let lo = 64 * k;
        let hi = (lo + 64).min(text.len());
        if inq {
            rep.count("chunk.carry_in_inside");
            inside_run += 1;
            max_inside_run = max_inside_run.max(inside_run);
        } else {
            inside_run = 0;
        }
        for &b in &text[lo..hi] {
            if b == c.quote {
                inq = !inq;
            }
        }
        if hi - lo == 64 && text[hi - 1] == c.quote {
            // run length of quotes ending at bit 63
            let mut run = 0usize;
            while run < 64 && text[hi - 1 - run] == c.quote {
                run += 1;
            }
            rep.count("chunk.quote_at_bit63");
            rep.count(&format!("q63.run_{}", run.min(7)));
            if hi < text.len() {
                rep.count(if inq { "q63.carry_out_inside" } else { "q63.carry_out_outside" });
            }
        }
    }
    rep.count(&format!("span.inside_chunks_{}", max_inside_run.min(6)));
    rep.count(&format!("len.mod64_{}", match text.len() % 64 { 0 => "0", 1 => "1", 63 => "63", _ => "mid" }));
    if text.is_empty() {
        rep.count("len.empty");
    }
}

/// Check one (text, cfg) on all engines. Returns false if a violation was recorded.
fn check_case(rep: &mut Report, engs: &[Engine], text: &[u8], c: Cfg, full: bool, r: &mut Rng) -> bool {
    let (mb, nb) = m::marks(text, c);
    let mw = m::pack(&mb);
    let nw = m::pack(&nb);
    let mcount = mb.iter().filter(|&&b| b).count();
    let ncount = nb.iter().filter(|&&b| b).count();
    let len = text.len();
    let cfg = lib_cfg(c);
    let mut ok = true;

    // query sets (shared by all engines so answers are comparable)
    let mut pos: Vec<usize> = Vec::new();
    if full {
        pos.extend(0..=len + 2);
    } else {
        for k in 0..=len / 64 + 1 {
            for d in [0usize, 1, 63] {
                pos.push(64 * k + d);
            }
        }
        for _ in 0..200 {
            pos.push(r.below(len + 3));
        }
    }
    pos.extend([usize::MAX, usize::MAX - 1, 1usize << 32, (1usize << 32) + 5, 1usize << 63]);
    let mut ks: Vec<usize> = Vec::new();
    if full {
        ks.extend(0..mcount + 3);
    } else {
        for _ in 0..200 {
            ks.push(r.below(mcount + 3));
        }
        ks.extend([0, mcount.saturating_sub(1), mcount, mcount + 1]);
    }
    ks.extend([usize::MAX, 1usize << 32, (1usize << 32) + 1, 1usize << 63]);

    // prefix counts for the model answers
    let mut mpre = vec![0usize; len + 1];
    let mut npre = vec![0usize; len + 1];
    let mut msel = Vec::with_capacity(mcount);
    let mut nsel = Vec::with_capacity(ncount);
    for i in 0..len {
        mpre[i + 1] = mpre[i] + mb[i] as usize;
        npre[i + 1] = npre[i] + nb[i] as usize;
        if mb[i] {
            msel.push(i);
        }
        if nb[i] {
            nsel.push(i);
        }
    }

    for (name, build) in engs {
        rep.eval();
        let idx = match catch(|| build(text, &cfg)) {
            Ok(i) => i,
            Err(p) => {
                ok = false;
                rep.violation(format!("C20:{name}:build:panic:{}", panic_sig(&p)), p, replay_of(text, c));
                continue;
            }
        };
        let lw = idx.as_lightweight();
        if lw.markers != mw {
            ok = false;
            let cls = diff_class(text, c, &lw.markers, &mw);
            rep.violation(
                format!("C20:{name}:markers_words:{cls}"),
                format!("marker words differ from bit-serial scan: got {:x?} want {:x?}", &lw.markers, &mw),
                replay_of(text, c),
            );
        }
        if lw.newlines != nw {
            ok = false;
            let cls = diff_class(text, c, &lw.newlines, &nw);
            rep.violation(
                format!("C20:{name}:newlines_words:{cls}"),
                format!("newline words differ from bit-serial scan: got {:x?} want {:x?}", &lw.newlines, &nw),
                replay_of(text, c),
            );
        }
        rep.eval();
        if lw.text_len != len || idx.marker_count() != mcount || idx.row_count() != ncount || idx.is_empty() != (len == 0) {
            ok = false;
            rep.violation(
                format!("C20:{name}:counts"),
                format!(
                    "text_len {} marker_count {} row_count {} is_empty {} vs model {len} {mcount} {ncount}",
                    lw.text_len,
                    idx.marker_count(),
                    idx.row_count(),
                    idx.is_empty()
                ),
                replay_of(text, c),
            );
        }
        // rank
        let res = catch(|| {
            let mut bad: Option<(&'static str, usize, usize, usize)> = None;
            for &i in &pos {
                let wm = mpre[i.min(len)];
                let wn = npre[i.min(len)];
                let gm = idx.markers_rank1(i);
                let gn = idx.newlines_rank1(i);
                if gm != wm && bad.is_none() {
                    bad = Some(("markers_rank1", i, gm, wm));
                }
                if gn != wn && bad.is_none() {
                    bad = Some(("newlines_rank1", i, gn, wn));
                }
            }
            bad
        });
        rep.evals(2 * pos.len() as u64);
        match res {
            Ok(None) => {}
            Ok(Some((f, i, got, want))) => {
                ok = false;
                let cls = if i > len { "past_end" } else if i == len { "at_len" } else { "in_range" };
                rep.violation(format!("C20:{name}:{f}:{cls}"), format!("{f}({i}) = {got}, bit-serial {want}"), replay_of(text, c));
            }
            Err(p) => {
                ok = false;
                rep.violation(format!("C20:{name}:rank1:panic:{}", panic_sig(&p)), p, replay_of(text, c));
            }
        }
        // select
        let res = catch(|| {
            let mut bad: Option<(&'static str, usize, Option<usize>, Option<usize>)> = None;
            for &k in &ks {
                let wm = msel.get(k).copied();
                let wn = nsel.get(k).copied();
                let gm = idx.markers_select1(k);
                let gn = idx.newlines_select1(k);
                if gm != wm && bad.is_none() {
                    bad = Some(("markers_select1", k, gm, wm));
                }
                if gn != wn && bad.is_none() {
                    bad = Some(("newlines_select1", k, gn, wn));
                }
            }
            bad
        });
        rep.evals(2 * ks.len() as u64);
        match res {
            Ok(None) => {}
            Ok(Some((f, k, got, want))) => {
                ok = false;
                let cls = if want.is_none() { "beyond_count" } else { "in_range" };
                rep.violation(format!("C20:{name}:{f}:{cls}"), format!("{f}({k}) = {got:?}, bit-serial {want:?}"), replay_of(text, c));
            }
            Err(p) => {
                ok = false;
                rep.violation(format!("C20:{name}:select1:panic:{}", panic_sig(&p)), p, replay_of(text, c));
            }
        }
    }
    ok
}

struct Acc {
    digest: u64,
    cases: u64,
}

fn one(rep: &mut Report, acc: &mut Acc, engs: &[Engine], text: &[u8], c: Cfg, full: bool, r: &mut Rng, fam: &str) {
    classify(rep, text, c);
    check_case(rep, engs, text, c, full, r);
    rep.count(&format!("family.{fam}"));
    let (mb, nb) = m::marks(text, c);
    let h = mix(fnv(text), ((c.delim as u64) << 16) | ((c.quote as u64) << 8) | c.sep as u64);
    acc.digest = mix(acc.digest, mix(h, mix(crate::rng::fnv_words(&m::pack(&mb)), crate::rng::fnv_words(&m::pack(&nb)))));
    acc.cases += 1;
    let has_q = text.contains(&c.quote);
    let has_m = mb.iter().any(|&b| b) || text.iter().any(|&b| b == c.delim || b == c.sep);
    if has_q && has_m {
        rep.nontrivial(h);
    }
    if c.delim >= 0x80 || c.quote >= 0x80 || c.sep >= 0x80 {
        rep.count("cfg.has_high_byte");
    }
    if c.delim == 0 || c.quote == 0 || c.sep == 0 {
        rep.count("cfg.has_nul_byte");
        if text.len() % 64 != 0 {
            rep.count("cfg.nul_special_with_padded_tail");
        }
    }
}

pub fn run(ctx: &Ctx) -> Report {
    let mut rep = Report::new("C20", "c20");
    rep.rule = "case = (byte string, distinct (delimiter, quote, record separator) triple) indexed by every \
                available engine and compared with a bit-serial toggle-on-every-quote scan (words, counts, \
                rank1/select1); non-trivial = text holds >= 1 quote byte and >= 1 delimiter/separator byte; \
                distinct by hash(text, triple)"
        .into();
    let engs = engines();
    rep.note(format!("engines: {}", engs.iter().map(|e| e.0).collect::<Vec<_>>().join(",")));
    for (n, _) in &engs {
        rep.count(&format!("engine.{n}"));
    }
    let mut r = Rng::new(ctx.shard_seed());

    if let Some(rp) = &ctx.replay {
        let text = unhex(rp["text_hex"].as_str().unwrap_or(""));
        let b = |k: &str| rp[k].as_u64().unwrap_or(0) as u8;
        let c = Cfg { delim: b("delim"), quote: b("quote"), sep: b("sep") };
        if c.delim == c.quote || c.delim == c.sep || c.quote == c.sep {
            rep.inconclusive(json!({"why": "replay configuration is not a triple of distinct bytes"}));
            return rep;
        }
        check_case(&mut rep, &engs, &text, c, true, &mut r);
        return rep;
    }

    let mut acc = Acc { digest: 0, cases: 0 };
    let tiny = ctx.tiny();

    // (1) exhaustive configuration sweep over the 12-byte alphabet (sampled under Miri)
    let triples = g::all_triples();
    let per_cfg = ctx.n(4, 24, 1);
    let stride = if tiny { 131 } else { 1 };
    let mut ti = if tiny { r.below(stride) } else { 0 };
    while ti < triples.len() {
        let c = triples[ti];
        for j in 0..per_cfg {
            let len = if tiny { r.range(60, 132) } else { g::edge_len(&mut r, 320) };
            let (a, b, d) = (r.below(7), r.below(3), r.below(3));
            let text = if j % 2 == 0 { g::boundary(&mut r, c, len.max(70), a, b, d) } else { g::soup(&mut r, c, len, a) };
            one(&mut rep, &mut acc, &engs, &text, c, true, &mut r, "cfg_sweep");
        }
        rep.count("cfg.alpha12_triples");
        ti += stride;
    }
    if !tiny {
        rep.exhaustive.push("all 1320 ordered triples of distinct bytes from the 12-byte alphabet {00,7f,80,ff,',','\"',LF,TAB,';',''',CR,'|'}".into());
    }

    // (2) quote runs 0..6 ending at bit 63 x chunk x quoted span 0..5 chunks
    let reps = ctx.n(12, 120, 0);
    for rep_i in 0..reps.max(if tiny { 1 } else { 0 }) {
        for run in 0..=6usize {
            for span in 0..=5usize {
                if tiny && (run + span + rep_i) % 6 != 0 {
                    continue;
                }
                let chunk = r.below(4);
                let c = if r.chance(1, 2) { g::csv() } else { g::random_cfg(&mut r) };
                let need = 64 * (chunk + 1 + span) + 64;
                let len = need + *r.pick(&[0usize, 1, 2, 31, 62, 63, 64, 65]);
                let text = g::boundary(&mut r, c, len, run, chunk, span);
                one(&mut rep, &mut acc, &engs, &text, c, !tiny || len < 300, &mut r, "boundary");
            }
        }
    }

    // (3) random triples x soups / tables, lengths 0..1000 around multiples of 64
    for i in 0..ctx.n(20_000, 300_000, 6) {
        let c = match r.below(4) {
            0 => g::csv(),
            1 => *r.pick(&triples),
            _ => g::random_cfg(&mut r),
        };
        let len = if tiny { g::edge_len(&mut r, 200) } else { g::edge_len(&mut r, 1000) };
        let (a, b, d) = (r.below(7), r.below(8), r.below(6));
        let text = match r.below(4) {
            0 => g::table(&mut r, c, 1 + len / 24, 5, 20, a),
            1 => g::boundary(&mut r, c, len, a, b, d),
            _ => g::soup(&mut r, c, len, a),
        };
        one(&mut rep, &mut acc, &engs, &text, c, text.len() <= 400, &mut r, "random");
        if i < 3 {
            rep.sample(json!({"text": show_bytes(&text), "delim": c.delim, "quote": c.quote, "sep": c.sep,
                "markers": m::marks(&text, c).0.iter().filter(|&&b| b).count()}));
        }
    }

    // (3b) sparse markers: whole 64-byte words without a marker (duplicate cumulative ranks)
    for _ in 0..ctx.n(3000, 40_000, 2) {
        let c = if r.bool() { g::csv() } else { g::random_cfg(&mut r) };
        let len = if tiny { r.range(130, 260) } else { r.range(130, 3000) };
        let gap = *r.pick(&[40usize, 90, 150, 300, 700]);
        let text = g::sparse(&mut r, c, len, gap);
        let zero_words = {
            let (mb, _) = m::marks(&text, c);
            m::pack(&mb).iter().filter(|&&w| w == 0).count()
        };
        if zero_words >= 2 {
            rep.count("text.two_or_more_zero_marker_words");
        }
        one(&mut rep, &mut acc, &engs, &text, c, text.len() <= 1200, &mut r, "sparse");
    }

    // (4) every length 0..=200 once (exact tail handling), csv + one random triple
    if !tiny {
        for len in 0..=200usize {
            for c in [g::csv(), g::random_cfg(&mut r)] {
                let prof = r.below(6);
                let text = g::soup(&mut r, c, len, prof);
                one(&mut rep, &mut acc, &engs, &text, c, true, &mut r, "every_len");
            }
        }
        rep.exhaustive.push("every text length 0..=200".into());
    }

    // (5) large texts, sampled queries
    for _ in 0..ctx.n(12, 150, 0) {
        let c = if r.bool() { g::csv() } else { g::random_cfg(&mut r) };
        let len = r.range(5_000, if ctx.thorough() { 2_000_000 } else { 300_000 });
        let a = r.below(6);
        let text = if r.bool() { g::soup(&mut r, c, len, a) } else { g::table(&mut r, c, len / 30, 8, 40, a) };
        one(&mut rep, &mut acc, &engs, &text, c, false, &mut r, "large");
    }

    rep.digest("model_marks", acc.digest);
    rep.add("cases", acc.cases);
    if !tiny {
        rep.require("cfg.alpha12_triples", 1320);
        rep.require("chunk.quote_at_bit63", 200);
        rep.require("q63.carry_out_inside", 50);
        rep.require("q63.carry_out_outside", 50);
        for k in 1..=6 {
            rep.require(&format!("q63.run_{k}"), 10);
        }
        for k in 0..=5 {
            rep.require(&format!("span.inside_chunks_{k}"), 10);
        }
        rep.require("chunk.carry_in_inside", 500);
        rep.require("len.mod64_0", 50);
        rep.require("len.mod64_63", 20);
        rep.require("len.mod64_1", 20);
        rep.require("cfg.has_high_byte", 200);
        rep.require("cfg.nul_special_with_padded_tail", 100);
        rep.require("text.two_or_more_zero_marker_words", 500);
        rep.require("engine.dispatch", 1);
        rep.require("engine.scalar", 1);
        if cfg!(target_arch = "x86_64") {
            rep.require("engine.sse2", 1);
        }
    }
    rep
}
