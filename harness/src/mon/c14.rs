//! C14 — YAML loading reproduces the value of every well-formed document.
//!
//! Oracle: ground truth by construction (G-YAML, `gen::yaml`), cross-read by serde_yaml
//! (libyaml). A case counts only when libyaml reads exactly the ground truth; otherwise it is
//! generator-suspect (`inconclusive`). For accepted cases succinctly must
//!   * build an index,
//!   * yield the ground-truth tree when walked with `YamlCursor` / `YamlValue` (keys through the
//!     documented `key_string`, plain scalars typed by the library's own `DocumentValue` getters
//!     = `resolve_plain`, quoted/block scalars always strings, aliases followed),
//!   * print JSON (`to_json`, compact `stream_json`, indented `stream_json`) that parses to the
//!     tree's JSON.
//!
//! Violation signatures name the observation point, what differs (value / key / structure), the
//! style of the enclosing collection and the style of the offending node, e.g.
//! `C14:load:key:flow_map:plain_adventurous`.

use crate::gen::yaml::{self as gy, first_diff, path_string, PathSeg, YamlOpts, YamlStream};
use crate::report::{catch, hex, panic_sig, show_bytes, unhex, Ctx, Report};
use crate::rng::{fnv, Rng};
use crate::val::Val;
use serde_json::{json, Value};
use succinctly::jq::document::{DocumentValue, IndentSpec};
use succinctly::yaml::{YamlCursor, YamlIndex, YamlValue};

/// Walk a cursor into a `Val` using only public accessors.
pub fn walk(cur: YamlCursor<'_>, depth: usize) -> Result<Val, String> {
    if depth > 300 {
        return Err("walk: depth > 300".into());
    }
    let v = cur.value();
    walk_value(&v, depth)
}

fn walk_value(v: &YamlValue<'_>, depth: usize) -> Result<Val, String> {
    match v {
        YamlValue::Null => Ok(Val::Null),
        YamlValue::String(s) => {
            if s.is_unquoted() {
                // plain scalar: typed by the library's documented getters (core schema)
                if v.is_null() {
                    return Ok(Val::Null);
                }
                if let Some(b) = v.as_bool() {
                    return Ok(Val::Bool(b));
                }
                if let Some(i) = v.as_i64() {
                    return Ok(Val::int(i));
                }
                if let Some(f) = v.as_f64() {
                    return Ok(Val::Num(format!("{f:?}")));
                }
            }
            match s.as_str() {
                Ok(t) => Ok(Val::Str(t.into_owned())),
                Err(e) => Err(format!("as_str: {e}")),
            }
        }
        YamlValue::Mapping(fields) => {
            let mut kv = Vec::new();
            let mut f = fields.clone();
            let mut guard = 0usize;
            while let Some((field, rest)) = f.uncons() {
                let k = field.key().key_string().into_owned();
                let val = walk(field.value_cursor(), depth + 1)?;
                kv.push((k, val));
                f = rest;
                guard += 1;
                if guard > 1_000_000 {
                    return Err("walk: runaway mapping".into());
                }
            }
            Ok(Val::Obj(kv))
        }
        YamlValue::Sequence(elems) => {
            let mut xs = Vec::new();
            let mut e = *elems;
            let mut guard = 0usize;
            while let Some((c, rest)) = e.uncons_cursor() {
                xs.push(walk(c, depth + 1)?);
                e = rest;
                guard += 1;
                if guard > 1_000_000 {
                    return Err("walk: runaway sequence".into());
                }
            }
            Ok(Val::Arr(xs))
        }
        YamlValue::Alias { target, anchor_name } => match target {
            Some(t) => walk(*t, depth + 1),
            None => Err(format!("alias *{anchor_name} has no target")),
        },
        YamlValue::Error(e) => Err(format!("YamlValue::Error({e})")),
    }
}

struct FmtBuf(String);
impl core::fmt::Write for FmtBuf {
    fn write_str(&mut self, s: &str) -> core::fmt::Result {
        self.0.push_str(s);
        Ok(())
    }
}

fn styles_json(st: &YamlStream) -> Value {
    Value::Array(
        st.styles
            .iter()
            .map(|s| {
                let p: Vec<Value> = s
                    .path
                    .iter()
                    .map(|p| match p {
                        PathSeg::Idx(i) => json!(i),
                        PathSeg::Key(k) => json!(k),
                    })
                    .collect();
                json!([s.doc, p, s.style, s.is_key, s.detail])
            })
            .collect(),
    )
}

const STYLE_NAMES: &[&str] = &[
    "plain", "plain_adventurous", "plain_multiline", "single", "single_multiline", "double", "double_multiline",
    "literal", "folded", "null", "null_empty", "bool", "int", "alias", "block_map", "block_seq", "flow_map", "flow_seq",
    "flow_single_pair", "explicit_key",
];

pub fn stream_from_replay(rp: &Value) -> Option<YamlStream> {
    let bytes = unhex(rp["bytes_hex"].as_str()?);
    let docs: Vec<Val> = rp["docs"].as_array()?.iter().filter_map(Val::from_tagged).collect();
    let mut styles = Vec::new();
    if let Some(a) = rp["styles"].as_array() {
        for s in a {
            let doc = s[0].as_u64()? as usize;
            let path: Vec<PathSeg> = s[1]
                .as_array()?
                .iter()
                .map(|p| match p {
                    Value::String(k) => PathSeg::Key(k.clone()),
                    other => PathSeg::Idx(other.as_u64().unwrap_or(0) as usize),
                })
                .collect();
            let name = s[2].as_str()?;
            let style = STYLE_NAMES.iter().find(|n| **n == name).copied().unwrap_or("?");
            styles.push(gy::NodeStyle {
                doc,
                path,
                style,
                is_key: s[3].as_bool().unwrap_or(false),
                detail: s[4].as_str().unwrap_or("").to_string(),
            });
        }
    }
    // feature names are &'static str in the generator; on replay only the ones that influence
    // signatures are restored
    const SIG_FEATURES: &[&str] = &["doc_start_anchor_then_comment", "doc_start_anchor_block_scalar", "empty_document"];
    let doc_features: Vec<Vec<&'static str>> = rp["doc_features"]
        .as_array()
        .map(|a| {
            a.iter()
                .map(|fs| {
                    fs.as_array()
                        .map(|fs| {
                            fs.iter()
                                .filter_map(|f| SIG_FEATURES.iter().find(|n| Some(**n) == f.as_str()).copied())
                                .collect()
                        })
                        .unwrap_or_default()
                })
                .collect()
        })
        .unwrap_or_default();
    let mut features: Vec<&'static str> = doc_features.iter().flatten().copied().collect();
    features.sort_unstable();
    features.dedup();
    Some(YamlStream {
        bytes,
        docs,
        spans: Vec::new(),
        features,
        doc_features,
        styles,
        line_break: gy::LineBreak::Lf,
        clean: rp["clean"].as_bool().unwrap_or(false),
        trigger: rp["trigger"].as_str().and_then(|t| {
            gy::TRIGGERS.iter().map(|(n, _)| *n).chain(std::iter::once("multi")).find(|n| *n == t)
        }),
    })
}

pub fn replay_json(st: &YamlStream) -> Value {
    json!({
        "kind": "stream",
        "bytes_hex": hex(&st.bytes),
        "text": String::from_utf8_lossy(&st.bytes[..st.bytes.len().min(2000)]),
        "docs": st.docs.iter().map(|d| d.to_tagged()).collect::<Vec<_>>(),
        "styles": styles_json(st),
        "doc_features": st.doc_features,
        "trigger": st.trigger,
        "clean": st.clean,
    })
}

/// Classify the first difference between ground truth and an observed document list.
/// Returns (class, human message).
/// `style(detail)` reduced to the details that identify a construct (chomping style and plain
/// line breaks are dropped so that one defect does not fan out over many signatures).
fn sig_style(st: &YamlStream, d: usize, path: &[PathSeg], is_key: bool) -> String {
    const KEEP: &[&str] = &[
        "ind", "first_compact", "explicit_value", "doc_start_line", "next_line", "then_blank_line", "then_quoted_key",
        "sp_colon", "empty_document", "hash_first_line",
    ];
    // unquoted scalars of any type behave alike in front of a blank line inside a flow collection
    const UNQUOTED: &[&str] = &["plain", "plain_adventurous", "int", "bool", "null"];
    let full = st.style_detail_at(d, path, is_key);
    match full.split_once('(') {
        None => full,
        Some((style, rest)) => {
            let kept: Vec<&str> = rest.trim_end_matches(')').split('+').filter(|t| KEEP.contains(t)).collect();
            if kept.is_empty() {
                style.to_string()
            } else if kept.contains(&"then_blank_line") && UNQUOTED.contains(&style) {
                format!("unquoted({})", kept.join("+"))
            } else {
                format!("{style}({})", kept.join("+"))
            }
        }
    }
}

fn classify(st: &YamlStream, want: &[Val], got: &[Val]) -> (String, String) {
    if want.len() != got.len() {
        const DOC_TAGS: &[&str] = &["doc_start_anchor_then_comment", "doc_start_anchor_block_scalar", "empty_document"];
        let tags: Vec<&str> = DOC_TAGS.iter().copied().filter(|t| st.features.contains(t)).collect();
        return (
            format!("docs:count:{}", if tags.is_empty() { "plain".to_string() } else { tags.join("+") }),
            format!("{} documents loaded, ground truth has {}", got.len(), want.len()),
        );
    }
    for (d, (w, g)) in want.iter().zip(got).enumerate() {
        let Some(p) = first_diff(w, g) else { continue };
        let wv = gy::val_at(w, &p);
        let gv = gy::val_at(g, &p);
        let root_tagged = st.doc_features.get(d).is_some_and(|f| f.contains(&"doc_start_anchor_then_comment"));
        let parent_style = if p.is_empty() {
            if root_tagged {
                "root(doc_start_anchor_then_comment)"
            } else {
                "root"
            }
        } else {
            st.style_at(d, &p[..p.len() - 1], false)
        };
        let show = |v: Option<&Val>| v.map(|v| v.to_json_text().chars().take(200).collect::<String>()).unwrap_or_default();
        // a `[k: v]` single pair whose value is a collection, at or above the difference
        for cut in 0..=p.len() {
            let q = &p[..cut];
            if st.style_at(d, q, false) == "flow_single_pair" {
                if let Some(Val::Obj(kv)) = gy::val_at(w, q) {
                    if kv.len() == 1 && kv[0].1.is_container() {
                        return (
                            "structure:flow_single_pair:collection_value".into(),
                            format!(
                                "document {d} at {}: expected {} got {}",
                                path_string(q),
                                show(gy::val_at(w, q)),
                                show(gy::val_at(g, q))
                            ),
                        );
                    }
                }
            }
        }
        // a container whose key list / length differs: find the offending child
        let (what, style) = match (wv, gv) {
            (Some(Val::Obj(a)), Some(Val::Obj(b))) => {
                // first position where the key differs (or one side ends)
                let i = a.iter().zip(b.iter()).position(|(x, y)| x.0 != y.0).unwrap_or(a.len().min(b.len()));
                let own = st.style_at(d, &p, false);
                if let Some((k, _)) = a.get(i) {
                    let mut kp = p.clone();
                    kp.push(PathSeg::Key(k.clone()));
                    if k == "<<" {
                        // a quoted `"<<"` is an ordinary string key (only a plain `<<` is a merge key)
                        ("key", format!("{own}:quoted_merge_key"))
                    } else {
                        // an empty value in front of this entry is what makes its line ambiguous
                        let after = if i > 0 && own == "block_map" {
                            let mut vp = p.clone();
                            vp.push(PathSeg::Key(a[i - 1].0.clone()));
                            let ps = sig_style(st, d, &vp, false);
                            if ps.starts_with("null_empty") {
                                format!(":after:{ps}")
                            } else {
                                String::new()
                            }
                        } else {
                            String::new()
                        };
                        if after.is_empty() {
                            ("key", format!("{own}:{}", sig_style(st, d, &kp, true)))
                        } else {
                            ("key", format!("{own}{after}"))
                        }
                    }
                } else {
                    ("structure", format!("{own}:extra_entries"))
                }
            }
            (Some(Val::Arr(a)), Some(Val::Arr(b))) => {
                // length differs: the element before the first differing position is where the
                // loader went off the rails
                let i = a.iter().zip(b.iter()).position(|(x, y)| x != y).unwrap_or(a.len().min(b.len()));
                let prev = if i > 0 {
                    let mut cp = p.clone();
                    cp.push(PathSeg::Idx(i - 1));
                    sig_style(st, d, &cp, false)
                } else {
                    "first".to_string()
                };
                ("structure", format!("{parent_style}:{}:len:after:{prev}", sig_style(st, d, &p, false)))
            }
            _ => (
                "value",
                format!("{parent_style}:{}:got_{}", sig_style(st, d, &p, false), gv.map(|v| v.kind()).unwrap_or("nothing")),
            ),
        };
        return (
            format!("{what}:{style}"),
            format!(
                "document {d} at {} [{}]: expected {} got {}",
                path_string(&p),
                st.style_detail_at(d, &p, false),
                show(wv),
                show(gv)
            ),
        );
    }
    ("none".into(), String::new())
}

/// Check one accepted (self-check passed) stream. Returns true if no violation was recorded.
pub fn check_stream(rep: &mut Report, st: &YamlStream) -> bool {
    check_stream_focus(rep, st, None)
}

/// As `check_stream`; with `focus` only violations whose signature contains it are recorded
/// (debugging aid: `svh c14 --focus <substring>`).
pub fn check_stream_focus(rep: &mut Report, st: &YamlStream, focus: Option<&str>) -> bool {
    let bytes = &st.bytes;
    let want: &[Val] = &st.docs;
    let replay = || replay_json(st);
    // One violation per stream. If the stream holds a risk construct (`gen::yaml::TRIGGERS`) the
    // signature names that construct, otherwise the detailed class computed below.
    let report = |rep: &mut Report, detailed: String, msg: String| {
        let sig = match st.trigger {
            Some(t) => format!("C14:trigger:{t}"),
            None => detailed.clone(),
        };
        let msg = if st.trigger.is_some() { format!("[{detailed}] {msg}") } else { msg };
        if focus.is_none_or(|f| sig.contains(f) || detailed.contains(f)) {
            rep.violation(sig, msg, replay());
        }
    };
    let idx = match catch(|| YamlIndex::build(bytes)) {
        Ok(Ok(i)) => i,
        Ok(Err(e)) => {
            let dbg = format!("{e:?}");
            let variant: String = dbg.chars().take_while(|c| c.is_ascii_alphanumeric()).collect();
            // the explanatory tail of the message (after the last ": "), digits and quoted
            // characters removed, distinguishes different causes under one error variant
            let disp = e.to_string();
            let tail = disp.rsplit(": ").next().unwrap_or("");
            let tail: String = if disp.contains(": ") {
                tail.chars().filter(|c| c.is_ascii_alphabetic() || *c == ' ').collect::<String>().trim().replace(' ', "_")
            } else {
                String::new()
            };
            let variant = if tail.is_empty() { variant } else { format!("{variant}:{tail}") };
            rep.eval();
            report(rep, format!("C14:build:error:{variant}"), format!("YamlIndex::build rejects a well-formed stream: {e}"));
            return false;
        }
        Err(p) => {
            rep.eval();
            report(rep, format!("C14:build:panic:{}", panic_sig(&p)), p);
            return false;
        }
    };
    // four observation points
    let mut observed: Vec<(&'static str, Result<Vec<Val>, String>)> = Vec::new();
    let root = idx.root(bytes);
    let w = catch(|| walk(root, 0)).unwrap_or_else(|p| Err(format!("panic: {p}")));
    observed.push((
        "walk",
        w.and_then(|v| match v {
            Val::Arr(ds) => Ok(ds),
            other => Err(format!("root is not a sequence: {}", other.kind())),
        }),
    ));
    let parse_docs = |txt: &str| -> Result<Vec<Val>, String> {
        let v: Value = serde_json::from_str(txt).map_err(|e| format!("output is not JSON: {e}: {}", &txt[..txt.len().min(200)]))?;
        match Val::from_serde(&v) {
            Val::Arr(ds) => Ok(ds),
            other => Err(format!("JSON root is not an array: {}", other.kind())),
        }
    };
    let tj = catch(|| root.to_json()).map_err(|p| format!("panic: {p}")).and_then(|t| parse_docs(&t));
    observed.push(("to_json", tj));
    let sj = catch(|| {
        let mut b = FmtBuf(String::new());
        root.stream_json(&mut b, IndentSpec::COMPACT, false).map(|_| b.0)
    })
    .map_err(|p| format!("panic: {p}"))
    .and_then(|r| r.map_err(|_| "fmt error".to_string()))
    .and_then(|t| parse_docs(&t));
    observed.push(("stream_json", sj));
    let sj2 = catch(|| {
        let mut b = FmtBuf(String::new());
        root.stream_json(&mut b, IndentSpec::spaces(2), false).map(|_| b.0)
    })
    .map_err(|p| format!("panic: {p}"))
    .and_then(|r| r.map_err(|_| "fmt error".to_string()))
    .and_then(|t| parse_docs(&t));
    observed.push(("stream_json_indented", sj2));

    let n_obs = observed.len();
    let mut bad: Vec<(&'static str, Result<Vec<Val>, String>)> = Vec::new();
    for (name, res) in observed {
        rep.eval();
        match &res {
            Ok(ds) if ds.as_slice() == want => {}
            _ => bad.push((name, res)),
        }
    }
    if bad.is_empty() {
        return true;
    }
    // entry: "load" when every observation point is wrong in the same way, otherwise the list of
    // wrong observation points; class and message from the first wrong one
    let all_same = bad.len() == n_obs && bad.iter().all(|(_, r)| *r == bad[0].1);
    let entry = if all_same { "load".to_string() } else { bad.iter().map(|(n, _)| *n).collect::<Vec<_>>().join("+") };
    let (class, msg) = match &bad[0].1 {
        Ok(ds) => classify(st, want, ds),
        Err(e) => {
            let cls: String = e
                .chars()
                .map(|c| if c.is_ascii_alphanumeric() { c } else { '_' })
                .collect::<String>()
                .split('_')
                .filter(|t| !t.is_empty() && !t.chars().all(|c| c.is_ascii_digit()))
                .take(8)
                .collect::<Vec<_>>()
                .join("_");
            (format!("error:{cls}"), e.clone())
        }
    };
    report(rep, format!("C14:{entry}:{class}"), format!("{entry}: {msg}"));
    false
}

/// `st` with a comment line prepended so that the stream length is a multiple of 64 bytes
/// (position tables and the end-of-text sentinel for empty values behave differently there).
/// Spans are shifted accordingly.
pub fn aligned_variant(st: &YamlStream) -> Option<YamlStream> {
    let nl = st.line_break.bytes();
    if st.bytes.starts_with(b"%") {
        return None; // a directive must stay first
    }
    let min_pad = 1 + nl.len();
    let mut pad = (64 - (st.bytes.len() + min_pad) % 64) % 64 + min_pad;
    if pad < min_pad {
        pad += 64;
    }
    let mut bytes = Vec::with_capacity(st.bytes.len() + pad);
    bytes.push(b'#');
    bytes.resize(pad - nl.len(), b'p');
    bytes.extend_from_slice(nl);
    bytes.extend_from_slice(&st.bytes);
    debug_assert_eq!(bytes.len() % 64, 0);
    let mut out = st.clone();
    out.bytes = bytes;
    for sp in &mut out.spans {
        sp.start += pad;
        sp.end += pad;
    }
    Some(out)
}

pub fn run(ctx: &Ctx) -> Report {
    let mut rep = Report::new("C14", "c14");
    rep.rule = "case = one generated YAML stream (1-4 documents, independent presentation choice at every node) \
                accepted by the serde_yaml cross-read; non-trivial = the stream has a collection or a string scalar; \
                distinct by hash(bytes)"
        .into();
    rep.assumptions.push(
        "generated streams are well-formed YAML 1.2 with the recorded value: conservative emit predicates + agreement of libyaml (serde_yaml)"
            .into(),
    );
    if let Some(rp) = &ctx.replay {
        if let Some(st) = stream_from_replay(rp) {
            match gy::load_with_serde_yaml(&st.bytes) {
                Ok(d) if d == st.docs => {
                    check_stream(&mut rep, &st);
                }
                other => rep.inconclusive(json!({"replay": "serde_yaml does not confirm the recorded ground truth", "got": format!("{other:?}")})),
            }
        }
        return rep;
    }
    let mut r = Rng::new(ctx.shard_seed());
    let n = ctx.n(50_000, 600_000, 60);
    for case in 0..n {
        let mut o = YamlOpts::random(&mut r);
        if ctx.tiny() {
            o.budget = o.budget.min(8);
            o.max_str = o.max_str.min(12);
            o.max_docs = o.max_docs.min(2);
        }
        let st = gy::gen_stream(&mut r, &o);
        rep.count("gen.streams");
        if let Err(why) = gy::self_check(&st) {
            rep.count("gen.suspect");
            rep.inconclusive(json!({"why": why, "text": String::from_utf8_lossy(&st.bytes[..st.bytes.len().min(600)]),
                "bytes_hex": hex(&st.bytes[..st.bytes.len().min(600)])}));
            continue;
        }
        rep.count("gen.accepted");
        for f in &st.features {
            rep.count(&format!("feat.{f}"));
        }
        rep.add("docs", st.docs.len() as u64);
        let nontrivial = st.docs.iter().any(|d| d.is_container() || matches!(d, Val::Str(_)));
        if nontrivial {
            rep.nontrivial(fnv(&st.bytes));
        }
        let ok = check_stream_focus(&mut rep, &st, ctx.arg("focus"));
        // every 4th stream also with its length padded to a multiple of 64 bytes
        if ok && case % 4 == 1 {
            if let Some(al) = aligned_variant(&st) {
                if gy::self_check(&al).is_ok() {
                    rep.count("aligned64.streams");
                    let ends_empty = al.styles.last().is_some_and(|s| s.style == "null_empty");
                    if ends_empty {
                        rep.count("aligned64.ends_with_empty_value");
                    }
                    check_stream_focus(&mut rep, &al, ctx.arg("focus"));
                }
            }
        }
        if ok && case % 997 == 3 {
            rep.sample(json!({"yaml": show_bytes(&st.bytes), "docs": st.docs.iter().map(|d| d.to_json_text()).collect::<Vec<_>>(),
                "features": st.features}));
        }
    }
    // the inconclusive rate must stay low, otherwise the run decided little
    let acc = rep.get("gen.accepted");
    let sus = rep.get("gen.suspect");
    rep.note(format!("generator-suspect {sus} of {} streams", acc + sus));
    if !ctx.tiny() {
        rep.require("gen.accepted", (n as u64) * 97 / 100);
        for f in [
            "block_map", "block_seq", "flow_map", "flow_seq", "flow_multiline", "plain", "plain_adventurous",
            "plain_multiline", "single", "single_multiline", "double", "double_multiline", "dq_line_continuation",
            "dq_escape_x", "dq_escape_u", "dq_escape_U8", "dq_escape_named", "literal_clip", "literal_strip",
            "literal_keep", "folded_clip", "folded_strip", "folded_keep", "folded_fold_space", "folded_newline",
            "block_indent_indicator", "compact_map_in_seq", "compact_seq_in_seq", "seq_same_indent_as_key",
            "comment_line", "comment_trailing", "blank_line", "lf", "crlf", "cr", "anchor", "alias", "alias_in_flow",
            "doc_start_marker", "doc_end_marker", "multi_doc", "explicit_key", "null_empty", "null_tilde",
        ] {
            rep.require(&format!("feat.{f}"), 20);
        }
    }
    rep
}
