//! C25 — jq value identities hold for every value.
//!
//! For G-JSON values (duplicate-free, non-ASCII strings, extreme numbers) the monitor runs, on
//! both evaluators (`eval_generic::eval_with_cursor` as the CLI does, and `jq::eval`):
//! `tojson|fromjson`, `to_entries|from_entries` (every object node), `fromstream(tostream)` and
//! `[tostream]|fromstream(.[])`, `@base64|@base64d` and `@uri` + the harness' own percent-decoder
//! on every string (values and keys), `[paths]` against the model's path set, and for every
//! path p: `getpath(p)` against the model lookup, `setpath(p; getpath(p)) == .`,
//! `setpath(p; X)` and the assignment `<path expr> = X` against the model replacement (so every
//! other path is compared too); `sort` / `unique` on every array node, on `[..]` and on
//! synthesised tie-rich arrays against a naive sort under jq's documented total order.
//!
//! Oracle: `model::jqval` (equality with numbers as doubles and objects as maps, comparator,
//! path model, percent-decoder, base64) — independent of succinctly.

use crate::gen::jq::{jq_string_lit, val_literal};
use crate::gen::jqrun::{owned_to_val, parse_guarded, run_gen, run_lib, Terminal};
use crate::gen::json::{gen_string, gen_tree, TreeOpts, INTERESTING_NUMS};
use crate::model::jqval::{
    all_paths, base64_encode, first_diff, jq_cmp, lookup, model_sort, model_unique, path_to_val, percent_decode, replace_at, val_eq,
    Key,
};
use crate::report::{panic_sig, Ctx, Report};
use crate::rng::{fnv, Rng};
use crate::val::Val;
use serde_json::json;
use std::cmp::Ordering;

#[derive(Clone, Copy, PartialEq)]
enum Ev {
    Generic,
    Lib,
}
impl Ev {
    fn name(self) -> &'static str {
        match self {
            Ev::Generic => "generic",
            Ev::Lib => "lib",
        }
    }
}

enum Out {
    Values(Vec<Val>),
    Error(String),
    Panic(String),
    NoParse(String),
}

fn eval(ev: Ev, prog: &str, input: &[u8]) -> Out {
    let expr = match parse_guarded(prog) {
        Ok(Ok(e)) => e,
        Ok(Err(m)) => return Out::NoParse(m),
        Err(p) => return Out::NoParse(format!("parser panic: {p}")),
    };
    let r = match ev {
        Ev::Generic => run_gen(&expr, input),
        Ev::Lib => run_lib(&expr, input),
    };
    match r {
        Err(p) => Out::Panic(p),
        Ok(d) => match d.term {
            Terminal::End => Out::Values(d.outs.iter().map(owned_to_val).collect()),
            other => Out::Error(other.show()),
        },
    }
}

struct Case<'a> {
    rep: &'a mut Report,
    input: &'a Val,
    bytes: Vec<u8>,
}

impl<'a> Case<'a> {
    fn replay(&self, identity: &str, prog: &str, want: Option<&Val>) -> serde_json::Value {
        json!({"kind": "identity", "identity": identity, "program": prog, "input_json": String::from_utf8_lossy(&self.bytes),
               "expected_json": want.map(|w| w.to_json_text())})
    }

    /// Run `prog` on both evaluators and demand exactly one output equal to `want`.
    fn expect_one(&mut self, identity: &str, prog: &str, want: &Val) -> bool {
        let mut ok = true;
        for ev in [Ev::Generic, Ev::Lib] {
            self.rep.eval();
            self.rep.count(&format!("id.{identity}"));
            let sig = |class: &str| format!("C25:{identity}:{}:{class}", ev.name());
            match eval(ev, prog, &self.bytes) {
                Out::Values(vs) => {
                    if vs.len() != 1 {
                        ok = false;
                        self.rep.violation(
                            sig("output_count"),
                            format!("`{prog}` produced {} outputs, expected exactly 1 (input {})", vs.len(), cut(&self.input.to_json_text())),
                            self.replay(identity, prog, Some(want)),
                        );
                    } else if !val_eq(&vs[0], want) {
                        ok = false;
                        let (at, kind) = first_diff(want, &vs[0]).unwrap_or((".".into(), "kind"));
                        self.rep.violation(
                            sig(&format!("mismatch:{kind}")),
                            format!(
                                "`{prog}`: got {} expected {} (first difference at {at}; input {})",
                                cut(&vs[0].to_json_text()),
                                cut(&want.to_json_text()),
                                cut(&self.input.to_json_text())
                            ),
                            self.replay(identity, prog, Some(want)),
                        );
                    }
                }
                Out::Error(m) => {
                    ok = false;
                    self.rep.violation(
                        sig("error"),
                        format!("`{prog}` ended with {m} (input {})", cut(&self.input.to_json_text())),
                        self.replay(identity, prog, Some(want)),
                    );
                }
                Out::Panic(p) => {
                    ok = false;
                    self.rep.violation(sig(&format!("panic:{}", panic_sig(&p))), format!("`{prog}` panicked: {p}"), self.replay(identity, prog, Some(want)));
                }
                Out::NoParse(m) => {
                    // the harness wrote a program the parser rejects: harness suspicion, not a finding
                    self.rep.inconclusive(json!({"reason": "identity program does not parse", "program": prog, "message": m}));
                    return false;
                }
            }
        }
        ok
    }

    /// Run `prog` on both evaluators and hand the single output to `check` (returns a failure
    /// class + message, or None).
    fn expect_with(&mut self, identity: &str, prog: &str, check: &dyn Fn(&Val) -> Option<(String, String)>) {
        for ev in [Ev::Generic, Ev::Lib] {
            self.rep.eval();
            self.rep.count(&format!("id.{identity}"));
            let sig = |class: &str| format!("C25:{identity}:{}:{class}", ev.name());
            match eval(ev, prog, &self.bytes) {
                Out::Values(vs) if vs.len() == 1 => {
                    if let Some((class, msg)) = check(&vs[0]) {
                        self.rep.violation(sig(&class), format!("`{prog}`: {msg} (input {})", cut(&self.input.to_json_text())), self.replay(identity, prog, None));
                    }
                }
                Out::Values(vs) => self.rep.violation(
                    sig("output_count"),
                    format!("`{prog}` produced {} outputs, expected exactly 1", vs.len()),
                    self.replay(identity, prog, None),
                ),
                Out::Error(m) => self.rep.violation(
                    sig("error"),
                    format!("`{prog}` ended with {m} (input {})", cut(&self.input.to_json_text())),
                    self.replay(identity, prog, None),
                ),
                Out::Panic(p) => {
                    self.rep.violation(sig(&format!("panic:{}", panic_sig(&p))), format!("`{prog}` panicked: {p}"), self.replay(identity, prog, None))
                }
                Out::NoParse(m) => {
                    self.rep.inconclusive(json!({"reason": "identity program does not parse", "program": prog, "message": m}));
                    return;
                }
            }
        }
    }
}

fn cut(s: &str) -> String {
    if s.len() <= 300 {
        return s.to_string();
    }
    let mut c = 300;
    while !s.is_char_boundary(c) {
        c -= 1;
    }
    format!("{}…", &s[..c])
}

fn path_lit(p: &[Key]) -> String {
    val_literal_full(&path_to_val(p))
}

/// Full (uncut) jq literal of a value. Every string literal is preceded by a space: the parser
/// panics on `,"é"` (look-ahead slicing inside a multi-byte character — C30's finding), and this
/// monitor is about values, not about the parser.
fn val_literal_full(v: &Val) -> String {
    match v {
        Val::Arr(xs) => format!("[ {}]", xs.iter().map(val_literal_full).collect::<Vec<_>>().join(" , ")),
        Val::Obj(kv) => {
            format!("{{ {}}}", kv.iter().map(|(k, x)| format!("{} : {}", jq_string_lit(k), val_literal_full(x))).collect::<Vec<_>>().join(" , "))
        }
        Val::Str(s) => jq_string_lit(s),
        other => val_literal(other),
    }
}

/// Exact decimal value of a JSON number literal as a canonical key (sign, digits, exponent).
fn exact_key(lit: &str) -> String {
    let (neg, body) = match lit.strip_prefix('-') {
        Some(b) => (true, b),
        None => (false, lit),
    };
    let (mant, exp) = match body.find(['e', 'E']) {
        Some(i) => (&body[..i], body[i + 1..].parse::<i64>().unwrap_or(0)),
        None => (body, 0),
    };
    let (int, frac) = match mant.find('.') {
        Some(i) => (&mant[..i], &mant[i + 1..]),
        None => (mant, ""),
    };
    let mut digits: String = format!("{int}{frac}");
    let mut exp = exp - frac.len() as i64;
    while digits.ends_with('0') && digits.len() > 1 {
        digits.pop();
        exp += 1;
    }
    let digits = digits.trim_start_matches('0');
    if digits.is_empty() {
        return "0".into();
    }
    format!("{}{digits}e{exp}", if neg { "-" } else { "" })
}

/// Two number literals somewhere in `xs` denote different decimal values but the same double:
/// whether they are "equal" depends on literal preservation, which the property leaves open.
fn ambiguous_numbers(xs: &[Val]) -> bool {
    fn collect(v: &Val, out: &mut Vec<(u64, String)>) {
        match v {
            Val::Num(t) => {
                let f = crate::model::jqval::num(t);
                out.push(((if f == 0.0 { 0.0 } else { f }).to_bits(), exact_key(t)));
            }
            Val::Arr(xs) => xs.iter().for_each(|x| collect(x, out)),
            Val::Obj(kv) => kv.iter().for_each(|(_, x)| collect(x, out)),
            _ => {}
        }
    }
    let mut nums = Vec::new();
    xs.iter().for_each(|x| collect(x, &mut nums));
    nums.sort();
    nums.windows(2).any(|w| w[0].0 == w[1].0 && w[0].1 != w[1].1)
}

/// `.a[0]["k k"]` for a path.
fn path_expr(p: &[Key]) -> String {
    let mut s = String::new();
    for (i, k) in p.iter().enumerate() {
        match k {
            Key::Field(f) => {
                if i == 0 {
                    s.push('.');
                }
                s.push_str(&format!("[ {}]", jq_string_lit(f)));
            }
            Key::Index(n) => {
                if i == 0 {
                    s.push('.');
                }
                s.push_str(&format!("[{n}]"));
            }
        }
    }
    if s.is_empty() {
        ".".into()
    } else {
        s
    }
}

fn sort_checks(c: &mut Case, prefix: &str, xs: &[Val], label: &str) {
    if ambiguous_numbers(xs) {
        c.rep.count("sort.skipped_ambiguous_number_literals");
        return;
    }
    let want_sorted = model_sort(xs);
    let want_unique = model_unique(xs);
    let n = xs.len();
    let xs_owned = xs.to_vec();
    let ws = want_sorted.clone();
    c.expect_with(&format!("sort{label}"), &format!("{prefix}sort"), &move |got| {
        let Val::Arr(g) = got else { return Some(("not_array".into(), format!("sort returned {}", cut(&got.to_json_text())))) };
        if g.len() != n {
            return Some(("length".into(), format!("sort returned {} elements for {n}", g.len())));
        }
        for w in g.windows(2) {
            if jq_cmp(&w[0], &w[1]) == Ordering::Greater {
                return Some((
                    "not_ordered".into(),
                    format!("{} is placed before {} but is greater under jq's order", cut(&w[0].to_json_text()), cut(&w[1].to_json_text())),
                ));
            }
        }
        for (i, (a, b)) in g.iter().zip(&ws).enumerate() {
            if jq_cmp(a, b) != Ordering::Equal {
                return Some(("not_permutation".into(), format!("element {i} is {} but the sorted input has {} there", cut(&a.to_json_text()), cut(&b.to_json_text()))));
            }
        }
        // multiset check with value equality (ties under jq_cmp are equal values)
        let mut rest: Vec<&Val> = xs_owned.iter().collect();
        for a in g {
            match rest.iter().position(|x| val_eq(x, a)) {
                Some(i) => {
                    rest.swap_remove(i);
                }
                None => return Some(("not_permutation".into(), format!("{} is not an element of the input", cut(&a.to_json_text())))),
            }
        }
        None
    });
    let wu = want_unique;
    c.expect_with(&format!("unique{label}"), &format!("{prefix}unique"), &move |got| {
        let Val::Arr(g) = got else { return Some(("not_array".into(), format!("unique returned {}", cut(&got.to_json_text())))) };
        if g.len() != wu.len() {
            return Some(("length".into(), format!("unique returned {} elements, the input has {} distinct values", g.len(), wu.len())));
        }
        for (i, (a, b)) in g.iter().zip(&wu).enumerate() {
            if jq_cmp(a, b) != Ordering::Equal {
                return Some(("mismatch".into(), format!("element {i} is {} expected {}", cut(&a.to_json_text()), cut(&b.to_json_text()))));
            }
        }
        None
    });
}

fn collect_strings(v: &Val, out: &mut Vec<String>) {
    match v {
        Val::Str(s) => out.push(s.clone()),
        Val::Arr(xs) => xs.iter().for_each(|x| collect_strings(x, out)),
        Val::Obj(kv) => kv.iter().for_each(|(k, x)| {
            out.push(k.clone());
            collect_strings(x, out)
        }),
        _ => {}
    }
}

fn all_nodes(v: &Val, out: &mut Vec<Val>) {
    out.push(v.clone());
    match v {
        Val::Arr(xs) => xs.iter().for_each(|x| all_nodes(x, out)),
        Val::Obj(kv) => kv.iter().for_each(|(_, x)| all_nodes(x, out)),
        _ => {}
    }
}

/// All identities on one value.
fn check_value(rep: &mut Report, r: &mut Rng, v: &Val, max_paths: usize) {
    let bytes = v.to_json_text().into_bytes();
    let mut c = Case { rep, input: v, bytes };

    c.expect_one("tojson_fromjson", "tojson | fromjson", v);
    c.expect_one("tostream_fromstream", "fromstream(tostream)", v);
    c.expect_one("tostream_fromstream_array", "[tostream] | fromstream(.[])", v);

    // paths as a set
    let paths = all_paths(v);
    let mut want_paths: Vec<String> = paths.iter().map(|p| path_to_val(p).to_json_text()).collect();
    want_paths.sort();
    let wp = want_paths.clone();
    c.expect_with("paths", "[paths]", &move |got| {
        let Val::Arr(g) = got else { return Some(("not_array".into(), "[paths] is not an array".into())) };
        let mut gp: Vec<String> = g.iter().map(|p| p.to_json_text()).collect();
        gp.sort();
        if gp != wp {
            let missing = wp.iter().find(|p| !gp.contains(p));
            let extra = gp.iter().find(|p| !wp.contains(p));
            return Some(("set_mismatch".into(), format!("paths differ from the model: missing {missing:?}, unexpected {extra:?} ({} vs {} paths)", gp.len(), wp.len())));
        }
        None
    });

    // per-path identities (sampled when there are many)
    let mut idx: Vec<usize> = (0..paths.len()).collect();
    if idx.len() > max_paths {
        r.shuffle(&mut idx);
        idx.truncate(max_paths);
    }
    let fresh = Val::Obj(vec![("__new".into(), Val::Arr(vec![Val::int(1), Val::Str("x".into())]))]);
    for &i in &idx {
        let p = &paths[i];
        let pl = path_lit(p);
        let Some(at) = lookup(v, p) else { continue };
        c.rep.count("paths.checked");
        c.expect_one("getpath", &format!("getpath( {pl})"), at);
        c.expect_one("setpath_getpath", &format!("setpath( {pl} ; getpath( {pl}))"), v);
        let replaced = replace_at(v, p, &fresh);
        c.expect_one("setpath_new", &format!("setpath( {pl} ; {})", val_literal_full(&fresh)), &replaced);
        if i % 3 == 0 {
            c.expect_one("assign_new", &format!("{} = {}", path_expr(p), val_literal_full(&fresh)), &replaced);
        }
        // the same location addressed from the end of its array (negative last index)
        if let (Some(Key::Index(n)), Some(Val::Arr(parent))) = (p.last(), lookup(v, &p[..p.len() - 1])) {
            let neg = *n as i64 - parent.len() as i64;
            let mut keys = match path_to_val(&p[..p.len() - 1]) {
                Val::Arr(ks) => ks,
                _ => vec![],
            };
            keys.push(Val::int(neg));
            let npl = val_literal_full(&Val::Arr(keys));
            c.rep.count("paths.negative_index");
            c.expect_one("getpath_negative", &format!("getpath( {npl})"), at);
            c.expect_one("setpath_negative", &format!("setpath( {npl} ; {})", val_literal_full(&fresh)), &replaced);
        }
        if let Val::Obj(_) = at {
            c.rep.count("objects.checked");
            c.expect_one("to_entries_from_entries", &format!("getpath( {pl}) | to_entries | from_entries"), at);
        }
        if let Val::Arr(xs) = at {
            if xs.len() >= 2 {
                c.rep.count("arrays.sorted");
                sort_checks(&mut c, &format!("getpath( {pl}) | "), xs, "");
            }
        }
    }
    match v {
        Val::Obj(_) => {
            c.rep.count("objects.checked");
            c.expect_one("to_entries_from_entries", "to_entries | from_entries", v);
        }
        Val::Arr(xs) if xs.len() >= 2 => {
            c.rep.count("arrays.sorted");
            sort_checks(&mut c, "", xs, "");
        }
        _ => {}
    }
    // all nodes of the document as one heterogeneous array
    let mut nodes = Vec::new();
    all_nodes(v, &mut nodes);
    if nodes.len() >= 2 && nodes.len() <= 80 {
        c.rep.count("arrays.sorted_all_nodes");
        sort_checks(&mut c, "[..] | ", &nodes, "_all_nodes");
    }
}

/// String identities on an array of strings.
fn check_strings(rep: &mut Report, strs: &[String]) {
    if strs.is_empty() {
        return;
    }
    let v = Val::Arr(strs.iter().map(|s| Val::Str(s.clone())).collect());
    let bytes = v.to_json_text().into_bytes();
    let mut c = Case { rep, input: &v, bytes };
    c.rep.add("strings.checked", strs.len() as u64);
    c.expect_one("base64_roundtrip", "map(@base64 | @base64d)", &v);
    let want_b64 = Val::Arr(strs.iter().map(|s| Val::Str(base64_encode(s.as_bytes()))).collect());
    c.expect_one("base64_encode", "map(@base64)", &want_b64);
    let originals: Vec<String> = strs.to_vec();
    c.expect_with("uri_decode", "map(@uri)", &move |got| {
        let Val::Arr(g) = got else { return Some(("not_array".into(), "map(@uri) is not an array".into())) };
        if g.len() != originals.len() {
            return Some(("length".into(), "map(@uri) changed the length".into()));
        }
        for (e, o) in g.iter().zip(&originals) {
            let Val::Str(e) = e else { return Some(("not_string".into(), format!("@uri of {o:?} is not a string"))) };
            match percent_decode(e) {
                Ok(d) if d == *o => {}
                Ok(d) => return Some(("mismatch".into(), format!("@uri of {o:?} is {e:?} which decodes to {d:?}"))),
                Err(m) => return Some(("undecodable".into(), format!("@uri of {o:?} is {e:?}: {m}"))),
            }
        }
        None
    });
}

/// Arrays rich in ties and near-ties under jq's order.
fn gen_sortable(r: &mut Rng) -> Vec<Val> {
    let n = r.range(2, 14);
    let scalar = |r: &mut Rng| -> Val {
        match r.below(12) {
            0 => Val::Null,
            1 => Val::Bool(r.bool()),
            2..=5 => Val::Num((*r.pick(&["0", "-0", "1", "1.0", "1e0", "-1", "2", "10", "9", "0.5", "1e2", "100", "-0.0", "1e-7", "9007199254740993", "9007199254740992", "1e308", "-1e308", "5e-324"])).to_string()),
            6..=9 => Val::Str((*r.pick(&["", "a", "B", "b", "aa", "ab", "a b", "é", "z", "Z", "\u{ffff}", "\u{10000}", "😀", "~", "10", "9", "\u{7f}", "\u{80}", "e\u{301}"])).to_string()),
            10 => Val::Str(gen_string(r, 3, 6)),
            _ => Val::Num((*r.pick(INTERESTING_NUMS)).to_string()),
        }
    };
    let mut out = Vec::new();
    for _ in 0..n {
        let v = match r.below(10) {
            0..=3 => scalar(r),
            4 | 5 => Val::Arr((0..r.below(4)).map(|_| scalar(r)).collect()),
            6 => Val::Arr(vec![Val::Arr((0..r.below(3)).map(|_| scalar(r)).collect()), scalar(r)]),
            _ => {
                let mut keys: Vec<&str> = vec!["a", "b", "c", "aa", "B", "é", ""];
                r.shuffle(&mut keys);
                let k = r.below(4);
                Val::Obj(keys[..k].iter().map(|k| (k.to_string(), scalar(r))).collect())
            }
        };
        out.push(v);
        // duplicates make `unique` work
        if r.chance(1, 4) {
            let d = out[r.below(out.len())].clone();
            // the same object with its keys in another order is an equal value
            let d = match d {
                Val::Obj(mut kv) => {
                    kv.reverse();
                    Val::Obj(kv)
                }
                o => o,
            };
            out.push(d);
        }
    }
    out
}

fn gen_value(r: &mut Rng, tiny: bool) -> Val {
    let o = TreeOpts {
        max_depth: *r.pick(&[1usize, 2, 3, 4, 6]),
        max_width: *r.pick(&[2usize, 3, 5, 8]),
        budget: if tiny { 10 } else { *r.pick(&[5usize, 12, 25, 50]) },
        dup_keys: false,
        str_class: *r.pick(&[1u8, 2, 3, 3]),
        max_str: *r.pick(&[4usize, 12, 30]),
        num_class: *r.pick(&[1u8, 2, 2]),
        simple_keys: r.chance(1, 3),
    };
    gen_tree(r, &o)
}

pub fn run(ctx: &Ctx) -> Report {
    let mut rep = Report::new("C25", "c25");
    rep.rule = "case = one G-JSON value (no duplicate keys) with all identities evaluated on both evaluators; \
                non-trivial = a container with >= 3 nodes; distinct by hash of the value's JSON text"
        .into();
    if let Some(rp) = &ctx.replay {
        let prog = rp["program"].as_str().unwrap_or(".");
        let input = rp["input_json"].as_str().unwrap_or("null");
        let identity = rp["identity"].as_str().unwrap_or("replay");
        let v = serde_json::from_str::<serde_json::Value>(input).map(|x| Val::from_serde(&x)).unwrap_or(Val::Null);
        match rp["expected_json"].as_str().and_then(|t| serde_json::from_str::<serde_json::Value>(t).ok()) {
            Some(w) => {
                let mut c = Case { rep: &mut rep, input: &v, bytes: input.as_bytes().to_vec() };
                c.expect_one(identity, prog, &Val::from_serde(&w));
            }
            None => {
                // checks with a functional oracle: re-run the whole value
                let mut r = Rng::new(1);
                check_value(&mut rep, &mut r, &v, usize::MAX);
                let mut strs = Vec::new();
                collect_strings(&v, &mut strs);
                check_strings(&mut rep, &strs);
            }
        }
        return rep;
    }

    let mut r = Rng::new(ctx.shard_seed());
    let values = ctx.n(5000, 80_000, 6);
    let max_paths = if ctx.tiny() { 4 } else { 24 };
    for i in 0..values {
        let v = gen_value(&mut r, ctx.tiny());
        check_value(&mut rep, &mut r, &v, max_paths);
        let mut strs = Vec::new();
        collect_strings(&v, &mut strs);
        strs.truncate(40);
        check_strings(&mut rep, &strs);
        if v.node_count() >= 3 {
            rep.nontrivial(fnv(v.to_json_text().as_bytes()));
        }
        rep.count(&format!("root.{}", v.kind()));
        if i < 4 {
            rep.sample(json!({"input_json": cut(&v.to_json_text()), "paths": all_paths(&v).len()}));
        }
    }
    // tie-rich arrays for sort / unique
    for _ in 0..ctx.n(10_000, 150_000, 6) {
        let xs = gen_sortable(&mut r);
        let v = Val::Arr(xs.clone());
        let bytes = v.to_json_text().into_bytes();
        let mut c = Case { rep: &mut rep, input: &v, bytes };
        c.rep.count("arrays.sorted_synth");
        sort_checks(&mut c, "", &xs, "_synth");
        c.expect_one("tojson_fromjson", "tojson | fromjson", &v);
        rep.nontrivial(fnv(v.to_json_text().as_bytes()));
    }
    // strings on their own: every class, including long ones crossing base64 group boundaries
    for _ in 0..ctx.n(2000, 30_000, 3) {
        let n = r.range(1, 12);
        let mut strs: Vec<String> = Vec::new();
        for _ in 0..n {
            let max = *r.pick(&[0usize, 1, 2, 3, 4, 5, 16, 63, 64, 65, 200]);
            strs.push(gen_string(&mut r, 3, max));
        }
        check_strings(&mut rep, &strs);
    }
    if !ctx.tiny() {
        rep.require("paths.checked", 15000);
        rep.require("objects.checked", 2000);
        rep.require("paths.negative_index", 3000);
        rep.require("arrays.sorted", 1000);
        rep.require("arrays.sorted_synth", 5000);
        rep.require("strings.checked", 20000);
        rep.require("id.tostream_fromstream", 8000);
    }
    rep
}
