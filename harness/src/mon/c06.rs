//! C06 — navigating the JSON index reproduces every valid document's value.
//!
//! Ground truth: `gen::json` (`Rendered.nodes`: pre-order list of all nodes incl. key tokens, with
//! byte spans, roles, decoded text) plus the value tree it was rendered from. The standard-cursor
//! BP tree has one node per value/key in document order, so node `j` of the ground truth must be
//! reached at BP position `2*j - depth(j)` (j opens and j - depth(j) closes precede it).
//!
//! The walker is iterative (explicit stack) and checks, for every node: BP position, kind,
//! decoded string / number / bool / null, raw span (`text_range`, `raw_bytes`, `JsonString::
//! raw_bytes`, `raw_and_escaped`, `JsonNumber::raw_bytes`), `is_container` (documented: has
//! children), child list via `first_child`/`next_sibling` and via `children()`, `parent()` of
//! every child, `JsonFields` (uncons order with duplicates, `find`/`find_cursor` = LAST duplicate
//! as documented, absent key = None), `JsonElements` (uncons, `get`, `get_fast`, cursor_iter).
//!
//! The generator is cross-checked with serde_json where serde is a faithful reader (depth < 120,
//! all numbers finite); a disagreement there is generator-suspect -> inconclusive, not a violation.

use crate::gen::json::{self as gj, Node, RenderOpts, Rendered, Role, TreeOpts};
use crate::report::{catch, hex, panic_sig, show_bytes, unhex, Ctx, Report};
use crate::rng::{fnv, Rng};
use crate::val::Val;
use serde_json::{json, Value};
use succinctly::json::light::{JsonCursor, JsonError, StandardJson};
use succinctly::json::JsonIndex;

// ------------------------------------------------------------------------------------------
// helpers shared with C07 / C32

/// Pre-order list of the values behind `Rendered.nodes` (None for key tokens). Iterative.
pub fn preorder_vals(v: &Val) -> Vec<Option<&Val>> {
    enum Item<'a> {
        V(&'a Val),
        Key,
    }
    let mut out = Vec::new();
    let mut stack = vec![Item::V(v)];
    while let Some(it) = stack.pop() {
        match it {
            Item::Key => out.push(None),
            Item::V(v) => {
                out.push(Some(v));
                match v {
                    Val::Arr(xs) => {
                        for x in xs.iter().rev() {
                            stack.push(Item::V(x));
                        }
                    }
                    Val::Obj(kv) => {
                        for (_, x) in kv.iter().rev() {
                            stack.push(Item::V(x));
                            stack.push(Item::Key);
                        }
                    }
                    _ => {}
                }
            }
        }
    }
    out
}

/// Expected BP position of ground-truth node `j` in the standard encoding.
pub fn expected_bp(nodes: &[Node], j: usize) -> usize {
    2 * j - nodes[j].depth
}

/// Children of a container in BP order: keys and values interleaved for objects.
pub fn bp_children(n: &Node) -> Vec<usize> {
    if n.kind == "obj" {
        let mut v = Vec::with_capacity(n.children.len() * 2);
        for (k, c) in n.keys.iter().zip(&n.children) {
            v.push(*k);
            v.push(*c);
        }
        v
    } else {
        n.children.clone()
    }
}

/// A document for the JSON monitors: tree, rendering, provenance tag.
pub struct Doc {
    pub val: Val,
    pub rd: Rendered,
    pub tag: &'static str,
}

/// Mixture of document shapes (small random, wide, deep, escape-heavy, number-heavy, dup keys).
pub fn gen_case(r: &mut Rng, tiny: bool, big_ok: bool, i: usize) -> Doc {
    let pick = if tiny { i % 8 } else { r.below(24) };
    match pick {
        0 => {
            // deep chain, well past 128 levels
            let depth = if tiny { r.range(130, 134) } else { *r.pick(&[127usize, 128, 129, 130, 200, 300, 400, 450, 700, 1000]) };
            let kind = r.below(3) as u8;
            let v = gj::gen_deep(r, depth, kind);
            let ro = RenderOpts { ws: r.below(3) as u8, esc: 1, align_to: None };
            let rd = gj::render(r, &ro, &v);
            Doc { val: v, rd, tag: "deep" }
        }
        1 => {
            // escape-heavy strings
            let o = TreeOpts { str_class: 3, max_str: if tiny { 12 } else { 80 }, budget: if tiny { 10 } else { 40 }, dup_keys: r.bool(), ..Default::default() };
            let v = gj::gen_tree(r, &o);
            let ro = RenderOpts { ws: r.below(3) as u8, esc: 2, align_to: None };
            let rd = gj::render(r, &ro, &v);
            Doc { val: v, rd, tag: "escape_heavy" }
        }
        2 => {
            // numbers of every shape in an array
            let n = if tiny { 8 } else { r.range(5, 120) };
            let v = Val::Arr((0..n).map(|_| Val::Num(gj::gen_number(r, 2))).collect());
            let ro = RenderOpts { ws: r.below(3) as u8, esc: 0, align_to: None };
            let rd = gj::render(r, &ro, &v);
            Doc { val: v, rd, tag: "numbers" }
        }
        3 => {
            // duplicate keys guaranteed
            let nk = r.range(1, 4);
            let keys: Vec<String> = (0..nk)
                .map(|_| {
                    let c = r.below(4) as u8;
                    gj::gen_string(r, c, 8)
                })
                .collect();
            let n = if tiny { 6 } else { r.range(2, 40) };
            let kv: Vec<(String, Val)> = (0..n)
                .map(|_| {
                    let k = r.pick(&keys).clone();
                    (k, gj::gen_scalar(r, &TreeOpts::default()))
                })
                .collect();
            let v = if r.bool() { Val::Obj(kv) } else { Val::Arr(vec![Val::Obj(kv), Val::Obj(vec![])]) };
            let ro = RenderOpts { ws: r.below(3) as u8, esc: r.below(3) as u8, align_to: None };
            let rd = gj::render(r, &ro, &v);
            Doc { val: v, rd, tag: "dup_keys_forced" }
        }
        4 => {
            // wide containers
            let w = if tiny { 14 } else { *r.pick(&[64usize, 200, 1000, 2000]) };
            let v = if r.bool() {
                Val::Arr((0..w).map(|_| gj::gen_scalar(r, &TreeOpts::default())).collect())
            } else {
                Val::Obj((0..w).map(|i| (format!("k{i}"), gj::gen_scalar(r, &TreeOpts::default()))).collect())
            };
            let ro = RenderOpts { ws: r.below(3) as u8, esc: 1, align_to: None };
            let rd = gj::render(r, &ro, &v);
            Doc { val: v, rd, tag: "wide" }
        }
        5 if big_ok => {
            // large document (hundreds of KB .. a few MB)
            let budget = *r.pick(&[20_000usize, 50_000, 100_000]);
            let o = TreeOpts { max_depth: 12, max_width: *r.pick(&[8usize, 40, 400]), budget, dup_keys: false, str_class: r.below(4) as u8, max_str: 60, num_class: 2, simple_keys: r.bool() };
            // a wide root so that the budget is actually spent
            let mut items = Vec::new();
            let mut left = budget;
            while left > 0 {
                let sub = TreeOpts { budget: left.min(500), ..o.clone() };
                let t = gj::gen_tree(r, &sub);
                left = left.saturating_sub(t.node_count().max(1));
                items.push(t);
            }
            let v = Val::Arr(items);
            let ro = RenderOpts { ws: r.below(3) as u8, esc: r.below(3) as u8, align_to: None };
            let rd = gj::render(r, &ro, &v);
            Doc { val: v, rd, tag: "large" }
        }
        7 if big_ok => l2_records(r),
        6 => {
            // scalar root / empty containers / whitespace only around
            let v = match r.below(6) {
                0 => Val::Arr(vec![]),
                1 => Val::Obj(vec![]),
                2 => Val::Arr(vec![Val::Arr(vec![]), Val::Obj(vec![]), Val::Arr(vec![Val::Obj(vec![])])]),
                _ => gj::gen_scalar(r, &TreeOpts::default()),
            };
            let ro = RenderOpts { ws: 2, esc: r.below(3) as u8, align_to: None };
            let rd = gj::render(r, &ro, &v);
            Doc { val: v, rd, tag: "root_scalar_or_empty" }
        }
        _ if tiny => {
            let o = TreeOpts { max_depth: 4, max_width: 4, budget: 14, dup_keys: r.bool(), str_class: r.below(4) as u8, max_str: 10, ..Default::default() };
            let v = gj::gen_tree(r, &o);
            let ro = RenderOpts { ws: r.below(3) as u8, esc: r.below(3) as u8, align_to: None };
            let rd = gj::render(r, &ro, &v);
            Doc { val: v, rd, tag: "mixed" }
        }
        _ => {
            let (v, rd) = gj::gen_doc(r);
            Doc { val: v, rd, tag: "mixed" }
        }
    }
}

/// Large document whose BP sequence exceeds one 65,536-bit L2 block (> 32,768 nodes) and whose
/// containers stay open, several levels deep, across L1 (2,048-bit) and L2 block boundaries
/// while the excess only falls gradually: records with a big k-level nested member followed by
/// a flat member of > 1,000 nodes, wrapped in a few outer levels. Hierarchical min-excess
/// summaries are exercised by the sibling / child walk over such documents.
pub fn l2_records(r: &mut Rng) -> Doc {
    fn nested(r: &mut Rng, levels: usize, width: usize) -> Val {
        if levels == 0 {
            return Val::int(r.range_i64(0, 99));
        }
        let n = r.range(2, width.max(2));
        if r.bool() {
            Val::Arr((0..n).map(|_| nested(r, levels - 1, width)).collect())
        } else {
            Val::Obj((0..n).map(|i| (format!("k{i}"), nested(r, levels - 1, width))).collect())
        }
    }
    let target = *r.pick(&[36_000usize, 45_000, 70_000]);
    let mut records = Vec::new();
    let mut total = 0usize;
    while total < target {
        let levels = r.range(3, 7);
        let w = *r.pick(&[3usize, 4, 6]);
        let big = nested(r, levels, w);
        let flat_n = r.range(1000, 3000);
        let flat = Val::Arr((0..flat_n).map(|i| Val::int(i as i64 % 10)).collect());
        let rec = if r.bool() {
            Val::Obj(vec![("n".into(), big), ("f".into(), flat), ("id".into(), Val::int(records.len() as i64))])
        } else {
            Val::Arr(vec![big, flat, Val::int(records.len() as i64)])
        };
        total += rec.node_count();
        records.push(rec);
    }
    let mut v = Val::Arr(records);
    for _ in 0..r.below(4) {
        v = if r.bool() { Val::Arr(vec![Val::int(0), v, Val::int(1)]) } else { Val::Obj(vec![("w".into(), v), ("z".into(), Val::Null)]) };
    }
    let ro = RenderOpts { ws: r.below(2) as u8, esc: 0, align_to: None };
    let rd = gj::render(r, &ro, &v);
    Doc { val: v, rd, tag: "l2_records" }
}

/// serde_json cross-check of the generator. Ok(true) = agrees, Ok(false) = not applicable.
pub fn generator_crosscheck(doc: &Doc) -> Result<bool, String> {
    // serde is a faithful reader only below its recursion limit and for finite numbers
    let max_depth = doc.rd.nodes.iter().map(|n| n.depth).max().unwrap_or(0);
    if max_depth >= 118 {
        return Ok(false);
    }
    for n in &doc.rd.nodes {
        if n.kind == "num" {
            let t = n.text.as_deref().unwrap_or("");
            match t.parse::<f64>() {
                Ok(f) if f.is_finite() => {}
                _ => return Ok(false),
            }
        }
    }
    let sv: Value = serde_json::from_slice(&doc.rd.bytes).map_err(|e| format!("serde_json rejects the rendering: {e}"))?;
    let want = doc.val.collapse_dups();
    // iterative comparison
    let mut stack: Vec<(&Value, &Val)> = vec![(&sv, &want)];
    while let Some((s, v)) = stack.pop() {
        match (s, v) {
            (Value::Null, Val::Null) => {}
            (Value::Bool(a), Val::Bool(b)) if a == b => {}
            (Value::String(a), Val::Str(b)) if a == b => {}
            (Value::Number(a), Val::Num(b)) => {
                let x = a.as_f64().unwrap_or(f64::NAN);
                let y: f64 = b.parse().unwrap_or(f64::NAN);
                let close = x == y || ((x - y).abs() <= 4.0 * f64::EPSILON * x.abs().max(y.abs()));
                if !close {
                    return Err(format!("number {b}: serde {x:e} vs literal {y:e}"));
                }
            }
            (Value::Array(a), Val::Arr(b)) if a.len() == b.len() => stack.extend(a.iter().zip(b.iter())),
            (Value::Object(a), Val::Obj(b)) if a.len() == b.len() => {
                for ((ka, va), (kb, vb)) in a.iter().zip(b.iter()) {
                    if ka != kb {
                        return Err(format!("key {ka:?} vs {kb:?}"));
                    }
                    stack.push((va, vb));
                }
            }
            _ => return Err(format!("shape mismatch: serde {} vs generator {}", short(s), v.kind())),
        }
    }
    Ok(true)
}

fn short(v: &Value) -> &'static str {
    match v {
        Value::Null => "null",
        Value::Bool(_) => "bool",
        Value::Number(_) => "num",
        Value::String(_) => "str",
        Value::Array(_) => "arr",
        Value::Object(_) => "obj",
    }
}

/// Plain decimal integer literal within i64 -> its value (own digit loop, no `parse`).
fn plain_i64(t: &str) -> Option<i64> {
    let (neg, digits) = match t.strip_prefix('-') {
        Some(d) => (true, d),
        None => (false, t),
    };
    if digits.is_empty() || !digits.bytes().all(|b| b.is_ascii_digit()) || digits.len() > 19 {
        return None;
    }
    let mut acc: i128 = 0;
    for b in digits.bytes() {
        acc = acc * 10 + (b - b'0') as i128;
    }
    if neg {
        acc = -acc;
    }
    i64::try_from(acc).ok()
}

fn kind_of<W: AsRef<[u64]>>(v: &StandardJson<'_, W>) -> &'static str {
    match v {
        StandardJson::String(_) => "str",
        StandardJson::Number(_) => "num",
        StandardJson::Object(_) => "obj",
        StandardJson::Array(_) => "arr",
        StandardJson::Bool(_) => "bool",
        StandardJson::Null => "null",
        StandardJson::Error(_) => "error",
    }
}

struct Fail {
    sig: String,
    msg: String,
}

macro_rules! fail {
    ($sig:expr, $($arg:tt)*) => {
        return Err(Fail { sig: $sig.to_string(), msg: format!($($arg)*) })
    };
}

/// Offset of `sub` inside `text` (both from the same allocation).
fn offset_in(text: &[u8], sub: &[u8]) -> usize {
    (sub.as_ptr() as usize).wrapping_sub(text.as_ptr() as usize)
}

/// Identity of the node a `StandardJson` refers to, for comparing `get`/`find` results with the
/// ground truth without trusting another library call: scalars by source offset / value,
/// containers by the BP position of their first child (or emptiness).
fn value_identity<W: AsRef<[u64]>>(text: &[u8], v: &StandardJson<'_, W>) -> String {
    match v {
        StandardJson::String(s) => format!("str@{}", offset_in(text, s.raw_bytes())),
        StandardJson::Number(n) => format!("num@{}", offset_in(text, n.raw_bytes())),
        StandardJson::Bool(b) => format!("bool:{b}"),
        StandardJson::Null => "null".into(),
        StandardJson::Error(e) => format!("error:{e}"),
        StandardJson::Object(f) => match f.uncons() {
            Some((fld, _)) => format!("obj>bp{}", fld.key_cursor().bp_position()),
            None => "obj:empty".into(),
        },
        StandardJson::Array(e) => match e.uncons_cursor() {
            Some((c, _)) => format!("arr>bp{}", c.bp_position()),
            None => "arr:empty".into(),
        },
    }
}

fn expected_identity(nodes: &[Node], vals: &[Option<&Val>], j: usize) -> String {
    let n = &nodes[j];
    match n.kind {
        "str" | "key" => format!("str@{}", n.start),
        "num" => format!("num@{}", n.start),
        "bool" => format!("bool:{}", matches!(vals[j], Some(Val::Bool(true)))),
        "null" => "null".into(),
        "obj" => match n.keys.first() {
            Some(&k) => format!("obj>bp{}", expected_bp(nodes, k)),
            None => "obj:empty".into(),
        },
        _ => match n.children.first() {
            Some(&c) => format!("arr>bp{}", expected_bp(nodes, c)),
            None => "arr:empty".into(),
        },
    }
}

/// Check one node (not its descendants). `cur` is the cursor the walk reached it with.
fn check_node(rep: &mut Report, text: &[u8], nodes: &[Node], vals: &[Option<&Val>], j: usize, cur: JsonCursor<'_>, sample_idx: &mut Rng) -> Result<(), Fail> {
    let n = &nodes[j];
    rep.eval();
    if cur.bp_position() != expected_bp(nodes, j) {
        fail!("C06:navigate:bp_position", "node #{j} ({}) reached at BP {} but the tree puts it at {}", n.kind, cur.bp_position(), expected_bp(nodes, j));
    }
    // raw span
    rep.eval();
    match cur.text_range() {
        Some((s, e)) if s == n.start && e == n.end => {}
        other => fail!(format!("C06:text_range:{}", n.kind), "node #{j} ({}) span {:?}, source token is [{}, {})", n.kind, other, n.start, n.end),
    }
    match cur.raw_bytes() {
        Some(b) if b == &text[n.start..n.end] && offset_in(text, b) == n.start => {}
        other => fail!(format!("C06:raw_bytes:{}", n.kind), "node #{j} raw bytes {:?} != source token [{}, {})", other.map(|b| String::from_utf8_lossy(&b[..b.len().min(40)]).into_owned()), n.start, n.end),
    }
    let v = cur.value();
    let want_kind = if n.kind == "key" { "str" } else { n.kind };
    rep.eval();
    if kind_of(&v) != want_kind {
        let detail = if let StandardJson::Error(e) = &v { *e } else { "" };
        fail!(format!("C06:value:kind:{want_kind}"), "node #{j} at byte {} classified {} {detail}, ground truth {want_kind}", n.start, kind_of(&v));
    }
    let has_children = !n.children.is_empty();
    if cur.is_container() != has_children {
        fail!("C06:is_container", "node #{j} ({}) is_container = {} but it has {} children", n.kind, cur.is_container(), n.children.len());
    }
    match &v {
        StandardJson::String(s) => {
            let want = n.text.as_deref().unwrap_or("");
            rep.eval();
            match s.as_str() {
                Ok(got) if got == want => {}
                Ok(got) => {
                    let cls = if text[n.start..n.end].windows(3).any(|w| w[0] == b'\\' && w[1] == b'u' && (w[2] == b'd' || w[2] == b'D')) { "surrogate_or_uDxxx" } else if text[n.start..n.end].contains(&b'\\') { "escaped" } else { "plain" };
                    fail!(format!("C06:as_str:wrong_text:{cls}"), "node #{j} decodes to {:?}, ground truth {:?} (source {})", got, want, String::from_utf8_lossy(&text[n.start..n.end]))
                }
                Err(e) => fail!(format!("C06:as_str:error:{}", err_name(e)), "node #{j}: as_str() = Err({e:?}) on valid string {} (expected {:?})", String::from_utf8_lossy(&text[n.start..n.end]), want),
            }
            if s.raw_bytes() != &text[n.start..n.end] {
                fail!("C06:JsonString.raw_bytes", "node #{j}: raw_bytes len {} vs token len {}", s.raw_bytes().len(), n.end - n.start);
            }
            let (raw, esc) = s.raw_and_escaped();
            let has_bs = text[n.start..n.end].contains(&b'\\');
            if raw != &text[n.start..n.end] || esc != has_bs {
                fail!("C06:JsonString.raw_and_escaped", "node #{j}: span len {} escaped {esc}; token len {} has backslash {has_bs}", raw.len(), n.end - n.start);
            }
            if has_bs {
                rep.count("str.escaped");
            } else {
                rep.count("str.plain");
            }
            if want.chars().any(|c| c as u32 > 0xFFFF) && has_bs {
                rep.count("str.astral_with_escapes");
            }
        }
        StandardJson::Number(num) => {
            let lit = n.text.as_deref().unwrap_or("");
            rep.eval();
            if num.raw_bytes() != lit.as_bytes() {
                fail!("C06:JsonNumber.raw_bytes", "node #{j}: number span {:?} vs literal {lit}", String::from_utf8_lossy(num.raw_bytes()));
            }
            let want_f: f64 = lit.parse().map_err(|_| Fail { sig: "harness".into(), msg: format!("literal {lit} does not parse") })?;
            match num.as_f64() {
                Ok(f) if f.to_bits() == want_f.to_bits() => {}
                other => fail!("C06:as_f64", "node #{j}: as_f64 = {other:?} for literal {lit} (double {want_f:e})"),
            }
            match (plain_i64(lit), num.as_i64()) {
                (Some(w), Ok(g)) if w == g => rep.count("num.i64_exact"),
                (Some(w), other) => fail!("C06:as_i64:integer_literal", "node #{j}: as_i64 = {other:?} for integer literal {lit} (= {w})"),
                (None, Ok(g)) => {
                    // not a plain in-range integer literal: an Ok answer must still be the value
                    if (g as f64) != want_f {
                        fail!("C06:as_i64:non_integer_literal", "node #{j}: as_i64 = Ok({g}) for literal {lit} (double {want_f:e})");
                    }
                    rep.count("num.i64_ok_nonplain");
                }
                (None, Err(_)) => rep.count("num.i64_err_nonplain"),
            }
            if lit.contains(['e', 'E']) {
                rep.count("num.exponent");
            }
            if lit.contains('.') {
                rep.count("num.fraction");
            }
        }
        StandardJson::Bool(b) => {
            if Some(&Val::Bool(*b)) != vals[j] {
                fail!("C06:value:bool", "node #{j}: Bool({b}) vs ground truth {:?}", vals[j]);
            }
        }
        StandardJson::Null => {}
        StandardJson::Object(fields) => {
            // fields in source order with duplicates
            let mut f = *fields;
            let mut i = 0usize;
            if fields.is_empty() != n.keys.is_empty() {
                fail!("C06:fields:is_empty", "node #{j}: is_empty {} vs {} fields", fields.is_empty(), n.keys.len());
            }
            while let Some((fld, rest)) = f.uncons() {
                rep.eval();
                if i >= n.keys.len() {
                    fail!("C06:fields:count", "node #{j}: more than {} fields", n.keys.len());
                }
                let (kj, cj) = (n.keys[i], n.children[i]);
                if fld.key_cursor().bp_position() != expected_bp(nodes, kj) || fld.value_cursor().bp_position() != expected_bp(nodes, cj) {
                    fail!("C06:fields:order", "node #{j} field {i}: key BP {} value BP {} expected {} / {}", fld.key_cursor().bp_position(), fld.value_cursor().bp_position(), expected_bp(nodes, kj), expected_bp(nodes, cj));
                }
                let kid = value_identity(text, &fld.key());
                let vid = value_identity(text, &fld.value());
                if kid != expected_identity(nodes, vals, kj) || vid != expected_identity(nodes, vals, cj) {
                    fail!("C06:fields:key_value", "node #{j} field {i}: key {kid} value {vid}; expected {} / {}", expected_identity(nodes, vals, kj), expected_identity(nodes, vals, cj));
                }
                i += 1;
                f = rest;
            }
            if i != n.keys.len() {
                fail!("C06:fields:count", "node #{j}: {i} fields enumerated, source has {}", n.keys.len());
            }
            // Iterator impl agrees with uncons
            if fields.count() != n.keys.len() {
                fail!("C06:fields:iterator_count", "node #{j}: iterator yields a different number of fields than {}", n.keys.len());
            }
            // find = LAST occurrence (documented on JsonFields::find)
            let lookups: Vec<usize> = if n.keys.len() <= 24 { (0..n.keys.len()).collect() } else { (0..24).map(|_| sample_idx.below(n.keys.len())).collect() };
            for i in lookups {
                let name = nodes[n.keys[i]].text.as_deref().unwrap_or("");
                let last = (0..n.keys.len()).rev().find(|&t| nodes[n.keys[t]].text.as_deref() == Some(name)).unwrap_or(i);
                let first = (0..n.keys.len()).find(|&t| nodes[n.keys[t]].text.as_deref() == Some(name)).unwrap_or(i);
                let cj = n.children[last];
                rep.eval();
                match fields.find_cursor(name) {
                    Some(c) if c.bp_position() == expected_bp(nodes, cj) => {}
                    other => {
                        let cls = if first != last { "duplicate_key" } else { "unique_key" };
                        fail!(format!("C06:find_cursor:{cls}"), "node #{j}: find_cursor({name:?}) -> BP {:?}, last occurrence (field {last}) is at BP {}", other.map(|c| c.bp_position()), expected_bp(nodes, cj))
                    }
                }
                match fields.find(name) {
                    Some(v) if value_identity(text, &v) == expected_identity(nodes, vals, cj) => {}
                    other => {
                        let cls = if first != last { "duplicate_key" } else { "unique_key" };
                        fail!(format!("C06:find:{cls}"), "node #{j}: find({name:?}) -> {:?}, last occurrence (field {last}) is {}", other.map(|v| value_identity(text, &v)), expected_identity(nodes, vals, cj))
                    }
                }
                if first != last {
                    rep.count("find.duplicate_key");
                } else {
                    rep.count("find.unique_key");
                }
            }
            // absent key
            let absent = "\u{1}__svh_absent__";
            if !n.keys.iter().any(|&k| nodes[k].text.as_deref() == Some(absent)) && (fields.find(absent).is_some() || fields.find_cursor(absent).is_some()) {
                fail!("C06:find:absent_key", "node #{j}: find of an absent key returned Some");
            }
        }
        StandardJson::Array(elems) => {
            let mut e = *elems;
            let mut i = 0usize;
            if elems.is_empty() != n.children.is_empty() {
                fail!("C06:elements:is_empty", "node #{j}: is_empty {} vs {} elements", elems.is_empty(), n.children.len());
            }
            while let Some((c, rest)) = e.uncons_cursor() {
                rep.eval();
                if i >= n.children.len() || c.bp_position() != expected_bp(nodes, n.children[i]) {
                    fail!("C06:elements:order", "node #{j} element {i}: BP {} (source has {} elements)", c.bp_position(), n.children.len());
                }
                if let Some((v, _)) = e.uncons() {
                    if value_identity(text, &v) != expected_identity(nodes, vals, n.children[i]) {
                        fail!("C06:elements:value", "node #{j} element {i}: {} expected {}", value_identity(text, &v), expected_identity(nodes, vals, n.children[i]));
                    }
                } else {
                    fail!("C06:elements:uncons", "node #{j} element {i}: uncons None where uncons_cursor Some");
                }
                i += 1;
                e = rest;
            }
            if i != n.children.len() || elems.count() != n.children.len() || elems.cursor_iter().count() != n.children.len() {
                fail!("C06:elements:count", "node #{j}: {i} elements enumerated, source has {}", n.children.len());
            }
            let len = n.children.len();
            let mut probes: Vec<usize> = if len <= 12 { (0..len + 2).collect() } else { vec![0, 1, len / 2, len - 2, len - 1, len, len + 1, sample_idx.below(len), sample_idx.below(len)] };
            probes.push(len + 7);
            for i in probes {
                let want = if i < len { Some(expected_identity(nodes, vals, n.children[i])) } else { None };
                rep.eval();
                let g1 = elems.get(i).map(|v| value_identity(text, &v));
                let g2 = elems.get_fast(i).map(|v| value_identity(text, &v));
                if g1 != want {
                    fail!("C06:elements:get", "node #{j}: get({i}) = {g1:?}, expected {want:?} ({len} elements)");
                }
                if g2 != want {
                    fail!("C06:elements:get_fast", "node #{j}: get_fast({i}) = {g2:?}, expected {want:?} ({len} elements)");
                }
            }
        }
        StandardJson::Error(_) => {}
    }
    Ok(())
}

fn err_name(e: JsonError) -> &'static str {
    match e {
        JsonError::InvalidUtf8 => "InvalidUtf8",
        JsonError::InvalidNumber => "InvalidNumber",
        JsonError::InvalidEscape => "InvalidEscape",
        JsonError::InvalidUnicodeEscape => "InvalidUnicodeEscape",
    }
}

/// Whole-document check (iterative pre-order walk). Err = first failure.
fn walk(rep: &mut Report, text: &[u8], nodes: &[Node], vals: &[Option<&Val>], probe_seed: u64) -> Result<(), Fail> {
    let index = JsonIndex::build(text);
    let mut pr = Rng::new(probe_seed);
    if nodes.len() != vals.len() {
        return Err(Fail { sig: "harness".into(), msg: "node/value pre-order length mismatch".into() });
    }
    // BP size = 2 x nodes
    rep.eval();
    if index.bp().len() != 2 * nodes.len() {
        fail!("C06:build:bp_len", "BP has {} bits, document has {} nodes", index.bp().len(), nodes.len());
    }
    let root = index.root(text);
    if root.parent().is_some() {
        fail!("C06:navigate:root_parent", "root has a parent");
    }
    if root.next_sibling().is_some() {
        fail!("C06:navigate:root_sibling", "root has a next sibling");
    }
    let mut stack: Vec<(JsonCursor<'_>, usize)> = vec![(root, 0)];
    let mut visited = 0usize;
    while let Some((cur, j)) = stack.pop() {
        visited += 1;
        check_node(rep, text, nodes, vals, j, cur, &mut pr)?;
        let kids = bp_children(&nodes[j]);
        // child chain via first_child / next_sibling, parent round trip
        let mut c = cur.first_child();
        let mut got: Vec<JsonCursor<'_>> = Vec::with_capacity(kids.len());
        while let Some(cc) = c {
            if got.len() >= kids.len() {
                fail!("C06:navigate:too_many_children", "node #{j} ({}): more than {} BP children", nodes[j].kind, kids.len());
            }
            rep.eval();
            match cc.parent() {
                Some(p) if p.bp_position() == cur.bp_position() => {}
                other => fail!("C06:navigate:parent", "child {} of node #{j}: parent() = BP {:?}, expected {}", got.len(), other.map(|p| p.bp_position()), cur.bp_position()),
            }
            got.push(cc);
            c = cc.next_sibling();
        }
        if got.len() != kids.len() {
            fail!("C06:navigate:child_count", "node #{j} ({}): {} BP children, source has {}", nodes[j].kind, got.len(), kids.len());
        }
        // children() iterator agrees
        let mut it = cur.children();
        for (i, g) in got.iter().enumerate() {
            match it.next() {
                Some(x) if x.bp_position() == g.bp_position() => {}
                _ => fail!("C06:navigate:children_iter", "node #{j}: children() differs from the sibling chain at {i}"),
            }
        }
        if it.next().is_some() {
            fail!("C06:navigate:children_iter", "node #{j}: children() yields extra items");
        }
        for (g, k) in got.into_iter().zip(kids).rev() {
            stack.push((g, k));
        }
    }
    if visited != nodes.len() {
        fail!("C06:navigate:visited", "visited {visited} nodes, document has {}", nodes.len());
    }
    Ok(())
}

fn doc_replay(doc: &Doc) -> Value {
    json!({"kind": "doc", "tagged": doc.val.to_tagged(), "bytes_hex": hex(&doc.rd.bytes), "tag": doc.tag})
}

/// Re-derive ground truth for given bytes from the tagged tree: the renderer's choices cannot be
/// replayed, so replays re-parse spans with the harness's own minimal span scanner below.
pub fn rebuild_nodes(val: &Val, bytes: &[u8]) -> Option<Vec<Node>> {
    // Walk the value tree and the bytes together (valid JSON by construction).
    fn skip_ws(b: &[u8], mut i: usize) -> usize {
        while i < b.len() && matches!(b[i], b' ' | b'\t' | b'\n' | b'\r') {
            i += 1;
        }
        i
    }
    fn string_end(b: &[u8], start: usize) -> Option<usize> {
        let mut i = start + 1;
        while i < b.len() {
            match b[i] {
                b'"' => return Some(i + 1),
                b'\\' => i += 2,
                _ => i += 1,
            }
        }
        None
    }
    enum Task<'a> {
        Value(&'a Val, Role, Option<usize>, usize),
        Key(&'a str, usize, usize, usize),
        Expect(u8),
        Close(usize),
    }
    let mut nodes: Vec<Node> = Vec::new();
    let mut pos = 0usize;
    let mut stack = vec![Task::Value(val, Role::Root, None, 0)];
    while let Some(t) = stack.pop() {
        pos = skip_ws(bytes, pos);
        match t {
            Task::Expect(c) => {
                if bytes.get(pos) != Some(&c) {
                    return None;
                }
                pos += 1;
            }
            Task::Close(idx) => {
                pos += 1;
                nodes[idx].end = pos;
            }
            Task::Key(k, i, parent, depth) => {
                let end = string_end(bytes, pos)?;
                let idx = nodes.len();
                nodes.push(Node { start: pos, end, role: Role::Key(i), parent: Some(parent), depth, kind: "key", text: Some(k.to_string()), value_node: None, children: vec![], keys: vec![] });
                nodes[parent].keys.push(idx);
                pos = end;
            }
            Task::Value(v, role, parent, depth) => {
                let idx = nodes.len();
                if let Some(p) = parent {
                    nodes[p].children.push(idx);
                }
                nodes.push(Node { start: pos, end: 0, role, parent, depth, kind: v.kind(), text: None, value_node: None, children: vec![], keys: vec![] });
                match v {
                    Val::Null => pos += 4,
                    Val::Bool(true) => pos += 4,
                    Val::Bool(false) => pos += 5,
                    Val::Num(t) => {
                        pos += t.len();
                        nodes[idx].text = Some(t.clone());
                    }
                    Val::Str(s) => {
                        pos = string_end(bytes, pos)?;
                        nodes[idx].text = Some(s.clone());
                    }
                    Val::Arr(xs) => {
                        pos += 1;
                        stack.push(Task::Close(idx));
                        for (i, x) in xs.iter().enumerate().rev() {
                            stack.push(Task::Value(x, Role::Elem(i), Some(idx), depth + 1));
                            if i > 0 {
                                stack.push(Task::Expect(b','));
                            }
                        }
                    }
                    Val::Obj(kv) => {
                        pos += 1;
                        stack.push(Task::Close(idx));
                        for (i, (k, x)) in kv.iter().enumerate().rev() {
                            stack.push(Task::Value(x, Role::FieldValue(i), Some(idx), depth + 1));
                            stack.push(Task::Expect(b':'));
                            stack.push(Task::Key(k, i, idx, depth + 1));
                            if i > 0 {
                                stack.push(Task::Expect(b','));
                            }
                        }
                    }
                }
                if !v.is_container() {
                    nodes[idx].end = pos;
                }
            }
        }
    }
    Some(nodes)
}

fn check_doc(rep: &mut Report, doc: &Doc, nodes: &[Node], probe_seed: u64) -> bool {
    let vals = preorder_vals(&doc.val);
    let text = &doc.rd.bytes;
    match catch(|| walk(rep, text, nodes, &vals, probe_seed)) {
        Ok(Ok(())) => true,
        Ok(Err(f)) if f.sig == "harness" => {
            rep.inconclusive(json!({"why": f.msg, "tag": doc.tag}));
            true
        }
        Ok(Err(f)) => {
            rep.violation(f.sig, f.msg, doc_replay(doc));
            false
        }
        Err(p) => {
            rep.violation(format!("C06:panic:{}", panic_sig(&p)), p, doc_replay(doc));
            false
        }
    }
}

fn classify(rep: &mut Report, doc: &Doc) {
    let nodes = &doc.rd.nodes;
    let b = &doc.rd.bytes;
    rep.count(&format!("doc.{}", doc.tag));
    let depth = nodes.iter().map(|n| n.depth).max().unwrap_or(0) + 1;
    if depth > 128 {
        rep.count("doc.depth_over_128");
    }
    if depth > 384 {
        rep.count("doc.depth_over_384");
    }
    if b.len() >= 1 << 20 {
        rep.count("doc.over_1MiB");
    }
    if b.len() >= 100_000 {
        rep.count("doc.over_100kB");
    }
    if b.len() <= 16 {
        rep.count("doc.tiny_le_16B");
    }
    if doc.val.has_dup_keys() {
        rep.count("doc.dup_keys");
    }
    for (ws, name) in [(b' ', "space"), (b'\t', "tab"), (b'\n', "lf"), (b'\r', "cr")] {
        if b.contains(&ws) {
            rep.count(&format!("doc.ws_{name}"));
        }
    }
    if b.windows(3).any(|w| w[0] == b'\\' && w[1] == b'u' && (w[2] == b'd' || w[2] == b'D')) {
        rep.count("doc.surrogate_escape");
    }
    if nodes.iter().any(|n| n.is_empty_container()) {
        rep.count("doc.empty_container");
    }
}

trait NodeExt {
    fn is_empty_container(&self) -> bool;
}
impl NodeExt for Node {
    fn is_empty_container(&self) -> bool {
        (self.kind == "arr" || self.kind == "obj") && self.children.is_empty()
    }
}

pub fn run(ctx: &Ctx) -> Report {
    let mut rep = Report::new("C06", "c06");
    rep.rule = "case = one generated valid document (tree + independent rendering) walked completely; \
                evaluation = one compared answer; non-trivial = document with >= 4 nodes incl. a container; \
                distinct by hash(bytes)"
        .into();
    if let Some(rp) = &ctx.replay {
        let bytes = unhex(rp["bytes_hex"].as_str().unwrap_or(""));
        match Val::from_tagged(&rp["tagged"]) {
            Some(val) => match rebuild_nodes(&val, &bytes) {
                Some(nodes) => {
                    let doc = Doc { val, rd: Rendered { bytes, nodes: nodes.clone() }, tag: "replay" };
                    check_doc(&mut rep, &doc, &nodes, 1);
                }
                None => rep.inconclusive(json!({"why": "replay bytes do not match the tagged tree"})),
            },
            None => rep.inconclusive(json!({"why": "bad replay object"})),
        }
        return rep;
    }
    let mut r = Rng::new(ctx.shard_seed());
    let cases = ctx.n(2500, 30_000, 8);
    let mut big_left = ctx.n(3, 25, 0);
    let mut l2_left = ctx.n(2, 12, 0);
    for i in 0..cases {
        let big_ok = big_left > 0 && !ctx.tiny();
        // the first cases of every shard are L2-crossing record documents
        let doc = if l2_left > 0 { l2_records(&mut r) } else { gen_case(&mut r, ctx.tiny(), big_ok, i) };
        if doc.tag == "large" {
            big_left -= 1;
        }
        if doc.tag == "l2_records" {
            l2_left = l2_left.saturating_sub(1);
            rep.count("doc.l2_records");
            if doc.rd.nodes.len() > 32_768 {
                rep.count("doc.bp_over_one_l2_block");
            }
        }
        match generator_crosscheck(&doc) {
            Ok(true) => rep.count("generator.serde_agrees"),
            Ok(false) => rep.count("generator.serde_not_applicable"),
            Err(why) => {
                rep.inconclusive(json!({"why": format!("generator-suspect: {why}"), "input": show_bytes(&doc.rd.bytes)}));
                continue;
            }
        }
        // self-check of the replay span scanner against the renderer's ground truth (small docs)
        if i % 16 == 0 && doc.rd.nodes.len() < 2000 {
            match rebuild_nodes(&doc.val, &doc.rd.bytes) {
                Some(ns) if ns.len() == doc.rd.nodes.len() && ns.iter().zip(&doc.rd.nodes).all(|(a, b)| a.start == b.start && a.end == b.end && a.kind == b.kind && a.depth == b.depth && a.children == b.children && a.keys == b.keys && a.text == b.text) => rep.count("generator.span_scanner_agrees"),
                _ => {
                    rep.inconclusive(json!({"why": "generator-suspect: span scanner disagrees with renderer", "input": show_bytes(&doc.rd.bytes)}));
                    continue;
                }
            }
        }
        classify(&mut rep, &doc);
        let nodes = doc.rd.nodes.clone();
        let ok = check_doc(&mut rep, &doc, &nodes, r.u64());
        if nodes.len() >= 4 && nodes.iter().any(|n| !n.children.is_empty()) {
            rep.nontrivial(fnv(&doc.rd.bytes));
        }
        if ok && rep.samples.len() < 5 && (i % 5 == 0) && doc.rd.bytes.len() < 200 && nodes.len() >= 4 {
            rep.sample(json!({"tag": doc.tag, "input": String::from_utf8_lossy(&doc.rd.bytes), "nodes": nodes.len(),
                "expected_tree": doc.val.to_json_text()}));
        }
    }
    if !ctx.tiny() {
        rep.require("doc.depth_over_128", 20);
        rep.require("doc.depth_over_384", 5);
        rep.require("doc.dup_keys", 100);
        rep.require("find.duplicate_key", 100);
        rep.require("str.escaped", 1000);
        rep.require("doc.surrogate_escape", 50);
        rep.require("str.astral_with_escapes", 50);
        rep.require("num.exponent", 200);
        rep.require("num.fraction", 200);
        rep.require("num.i64_exact", 1000);
        rep.require("doc.empty_container", 100);
        rep.require("doc.ws_cr", 200);
        rep.require("doc.ws_tab", 200);
        rep.require("doc.over_100kB", 1);
        rep.require("doc.bp_over_one_l2_block", 2);
        rep.require("generator.serde_agrees", 1000);
    }
    rep
}
