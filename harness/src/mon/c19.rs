//! C19 (library leg) — malformed input never crashes the library.
//!
//! Refute-by: a byte string (or program string) on which an entry point panics, aborts,
//! overflows the stack or does not come back. There is no value oracle here: every call must
//! simply *return* (a value or a reported error). Entry points (each inside `catch`):
//!
//! * `json_validate`, `json_build`, `json_walk` (iterative cursor traversal + every accessor),
//!   `json_print` (the cursor's JSON / YAML streaming output), `json_simple` (SimpleJsonIndex)
//! * `yaml_validate`, `yaml_build`, `yaml_walk`, `yaml_print` (to_json, stream_json*, stream_yaml*)
//! * `dsv_build`, `dsv_walk` under random distinct (delimiter, quote, newline) triples
//! * `jq_parse` (`parse`, `parse_with_mode(Yq)`, `parse_program*`)
//!
//! Workloads: `--mode normal` (default): random bytes, indicator soups, mutants / truncations
//! of valid documents, exhaustive single-byte edits of a few tiny documents. `--mode deep`:
//! nesting 100..5000 (jq: ..10 000) of every bracket kind, each case executed on a 2 MiB
//! thread, an 8 MiB thread and the big svh thread. A stack overflow kills the process and
//! escapes `catch`, therefore (a) `--caselog PATH` receives the replay object of the case about
//! to run (overwrite + flush) and (b) `--isolate 1` makes the deep mode run every
//! (family, kind, entry point, stack) combination in a child `svh` process and turns a dead
//! child into a violation `C19:<entry point>:crash:...` recovered from the child's case log.
//!
//! Signatures: `C19:<entry point>:panic:<panic_sig>`, `C19:<entry point>:not_terminating`,
//! `C19:<entry point>:crash:<class>:<family>.<kind>` (isolated deep mode only).

use crate::gen::json as gj;
use crate::gen::soup;
use crate::report::{catch, hex, panic_sig, show_bytes, unhex, Ctx, Report};
use crate::rng::{fnv, mix, Rng};
use serde_json::{json, Value};
use std::collections::BTreeMap;
use std::fmt::Write as FmtWrite;
use std::hint::black_box;
use std::io::{Seek, SeekFrom, Write as IoWrite};
use succinctly::dsv::{build_index_scalar, Dsv, DsvConfig, DsvRef};
use succinctly::jq::document::{DocumentCursor, DocumentFields, DocumentValue, IndentSpec};
use succinctly::jq::stream::{stream_lazy_keys_json, stream_lazy_keys_yaml};
use succinctly::jq::ParserMode;
use succinctly::json::light::{JsonCursor, JsonIndex, StandardJson};
use succinctly::json::simple_light::SimpleJsonIndex;
use succinctly::yaml::{stream_yaml_sequence, YamlCursor, YamlIndex, YamlValue};

// ---------------------------------------------------------------------------------------
// bookkeeping shared by the checking functions

#[derive(Default)]
struct Obs {
    c: BTreeMap<&'static str, u64>,
    evals: u64,
    /// nodes / rows / tokens seen: decides "non-trivial"
    size: usize,
}
impl Obs {
    #[inline]
    fn hit(&mut self, k: &'static str) {
        *self.c.entry(k).or_insert(0) += 1;
    }
    fn flush(self, rep: &mut Report) {
        rep.evals(self.evals);
        for (k, v) in self.c {
            rep.add(k, v);
        }
    }
}

#[derive(Clone, Debug)]
struct Fail {
    ep: &'static str,
    /// "panic:<sig>" or "not_terminating"
    class: String,
    msg: String,
}
impl Fail {
    fn sig(&self) -> String {
        format!("C19:{}:{}", self.ep, self.class)
    }
}

/// `report::panic_sig` keeps the first 80 characters of the message with digit runs collapsed;
/// std's slicing messages additionally quote input data ("... it is inside 'é' (bytes 2..4) of
/// `...`"), which must not reach a signature: cut the message where quoted data starts.
fn stable_sig(p: &str) -> String {
    let s = panic_sig(p);
    let (m, loc) = match s.rfind(" @ ") {
        Some(i) => (&s[..i], &s[i..]),
        None => (&s[..], ""),
    };
    // "...; it is inside 'é' (bytes 2..4) of `<input>`" / "...: \"<input>\"": cut before the data
    let mut cut = m.len();
    for pat in ["; it is inside", " of `", "'", "\""] {
        if let Some(i) = m.find(pat) {
            cut = cut.min(i);
        }
    }
    // panic_sig truncates the *uncollapsed* message at 80 chars, so the tail of a long message
    // depends on how many digits the numbers had: keep a prefix that is always complete
    let head: String = m[..cut].chars().take(56).collect();
    format!("{}{}", head.trim_end(), loc)
}

fn guard<R>(ep: &'static str, fails: &mut Vec<Fail>, f: impl FnOnce() -> R) -> Option<R> {
    match catch(f) {
        Ok(r) => Some(r),
        Err(p) => {
            if fails.len() < 64 {
                fails.push(Fail { ep, class: format!("panic:{}", stable_sig(&p)), msg: p });
            }
            None
        }
    }
}

/// Output sink: counts bytes, fails (like a full pipe) past `cap` so that alias bombs and
/// quadratic indentation end with a reported error instead of eating memory.
struct Sink {
    n: usize,
    cap: usize,
}
impl Sink {
    fn new(cap: usize) -> Self {
        Sink { n: 0, cap }
    }
}
impl std::fmt::Write for Sink {
    fn write_str(&mut self, s: &str) -> std::fmt::Result {
        self.n += s.len();
        black_box(s.as_bytes().first());
        if self.n > self.cap {
            Err(std::fmt::Error)
        } else {
            Ok(())
        }
    }
}

const SINK_CAP: usize = 1 << 20;

// ---------------------------------------------------------------------------------------
// JSON

/// Group 1: classify the node and decode it through every typed accessor.
fn visit_json_value(cur: &JsonCursor<'_>, o: &mut Obs) {
    black_box(cur.text_position());
    black_box(cur.bp_position());
    black_box(cur.is_container());
    let v = cur.value();
    match &v {
        StandardJson::String(s) => {
            match s.as_str() {
                Ok(t) => {
                    black_box(t.len());
                    o.hit("json.value.string.ok")
                }
                Err(e) => {
                    black_box(e.to_string().len());
                    o.hit("json.value.string.err")
                }
            }
        }
        StandardJson::Number(n) => {
            black_box(n.raw_bytes().len());
            let a = n.as_i64().is_ok();
            let b = n.as_f64().is_ok();
            o.hit(if a || b { "json.value.number.ok" } else { "json.value.number.err" });
        }
        StandardJson::Object(f) => {
            o.hit("json.value.object");
            black_box(f.is_empty());
            black_box(f.find("a").is_some());
            black_box(f.find_cursor("k").is_some());
            for fld in f.take(4) {
                black_box(DocumentValue::type_name(&fld.key()));
                black_box(DocumentValue::type_name(&fld.value()));
                black_box(fld.key_cursor().raw_bytes().map(|b| b.len()));
                black_box(fld.value_cursor().text_position());
            }
            black_box(DocumentFields::len(f));
        }
        StandardJson::Array(e) => {
            o.hit("json.value.array");
            black_box(e.is_empty());
            black_box(e.get(1).is_some());
            black_box(e.get_fast(2).is_some());
            black_box(e.get_fast(usize::MAX).is_some());
            for c in e.cursor_iter().take(3) {
                black_box(c.bp_position());
            }
            black_box(e.uncons().is_some());
        }
        StandardJson::Bool(_) => o.hit("json.value.bool"),
        StandardJson::Null => o.hit("json.value.null"),
        StandardJson::Error(m) => {
            black_box(m.len());
            o.hit("json.value.error")
        }
    }
    black_box(DocumentValue::number_literal(&v).map(|s| s.len()));
    black_box(DocumentValue::as_str(&v).map(|s| s.len()));
    black_box(DocumentValue::is_error(&v));
    black_box(DocumentValue::error_message(&v));
    black_box(DocumentValue::as_bool(&v));
}

/// Group 2: raw spans of string tokens (kept apart so that one defect does not hide others).
fn visit_json_strraw(cur: &JsonCursor<'_>) {
    if let StandardJson::String(s) = cur.value() {
        black_box(s.raw_and_escaped().1);
        black_box(s.raw_bytes().len());
    }
}

/// Group 3: cursor-level spans and positions.
fn visit_json_cursor(cur: &JsonCursor<'_>, ordinal: usize, o: &mut Obs) {
    black_box(cur.text_range());
    match cur.raw_bytes() {
        Some(b) => {
            black_box(b.len());
            o.hit("json.raw.some")
        }
        None => o.hit("json.raw.none"),
    }
    if ordinal % 8 == 0 {
        black_box(cur.line());
        black_box(cur.column());
    }
    black_box(cur.children().take(2).count());
}

/// Iterative pre-order traversal over whatever the (possibly garbage) BP encodes.
/// Returns false if the walk did not finish within 8·|BP|+64 moves.
fn walk_json(idx: &JsonIndex, text: &[u8], sel: u64, o: &mut Obs, fails: &mut Vec<Fail>) -> bool {
    let root = idx.root(text);
    let bp_len = idx.bp().len();
    let budget = 8 * bp_len + 64;
    let mut steps = 0usize;
    let mut nodes = 0usize;
    let mut cur = root;
    let mut finished = true;
    'outer: loop {
        guard("json_walk", fails, || visit_json_value(&cur, o));
        guard("json_walk", fails, || visit_json_strraw(&cur));
        guard("json_walk", fails, || visit_json_cursor(&cur, nodes, o));
        nodes += 1;
        steps += 1;
        if steps > budget {
            finished = false;
            break;
        }
        if let Some(c) = cur.first_child() {
            cur = c;
            continue;
        }
        loop {
            if let Some(s) = cur.next_sibling() {
                cur = s;
                break;
            }
            match cur.parent() {
                Some(p) => {
                    cur = p;
                    steps += 1;
                    if steps > budget {
                        finished = false;
                        break 'outer;
                    }
                }
                None => break 'outer,
            }
        }
    }
    o.size = o.size.max(nodes);
    // index-level and position-based lookups
    let n = text.len();
    let mut probe = Rng::new(sel);
    let offs = [0usize, n / 2, n.saturating_sub(1), n, n + 1, probe.below(n + 2), probe.below(n + 2)];
    for &off in &offs {
        black_box(idx.to_line_column(off, text));
        black_box(root.cursor_at_offset(off).map(|c| c.bp_position()));
        black_box(idx.ib_rank1(off.min(n)));
        black_box(idx.ib_select1(off));
        black_box(idx.ib_select1_from(off, off / 8));
        black_box(succinctly::json::locate::locate_offset(idx, text, off).map(|s| s.len()));
        black_box(succinctly::json::locate::locate_offset_detailed(idx, text, off).is_some());
    }
    for &(l, c) in &[(0usize, 0usize), (1, 1), (1, n + 2), (2, 1), (probe.below(6), probe.below(40)), (usize::MAX, 1)] {
        black_box(idx.to_offset(l, c, text));
        black_box(root.cursor_at_position(l, c).map(|c| c.bp_position()));
    }
    black_box(idx.ib_len());
    finished
}

fn print_json(idx: &JsonIndex, text: &[u8], o: &mut Obs) {
    let root = idx.root(text);
    let mut targets: Vec<JsonCursor<'_>> = vec![root];
    targets.extend(root.children().take(2));
    for cur in targets {
        let mut s = Sink::new(SINK_CAP);
        match DocumentCursor::stream_json(&cur, &mut s, IndentSpec::COMPACT, false) {
            Ok(()) => o.hit("json.print.json.ok"),
            Err(_) => o.hit("json.print.json.err"),
        }
        let _ = DocumentCursor::stream_json(&cur, &mut Sink::new(SINK_CAP), IndentSpec::spaces(2), false);
        let _ = DocumentCursor::stream_json(&cur, &mut Sink::new(SINK_CAP), IndentSpec::COMPACT, true);
        match DocumentCursor::stream_yaml(&cur, &mut Sink::new(SINK_CAP), IndentSpec::spaces(2), false) {
            Ok(()) => o.hit("json.print.yaml.ok"),
            Err(_) => o.hit("json.print.yaml.err"),
        }
        let _ = DocumentCursor::stream_yaml(&cur, &mut Sink::new(SINK_CAP), IndentSpec::COMPACT, false);
        let _ = DocumentCursor::stream_yaml_as_document(&cur, &mut Sink::new(SINK_CAP), IndentSpec::spaces(4), false);
        black_box(DocumentCursor::is_falsy(&cur));
    }
}

fn simple_json(text: &[u8], sel: u64, o: &mut Obs) {
    let idx = SimpleJsonIndex::build(text);
    let n = text.len();
    black_box(idx.structural_count());
    black_box(idx.ib_len());
    let mut seen = 0usize;
    for p in idx.structural_positions(text).take(4096) {
        seen += 1;
        black_box(idx.structural_index(p));
        if seen <= 256 {
            black_box(idx.find_close(text, p));
            black_box(idx.skip_value(text, p));
            black_box(idx.skip_value(text, p + 1));
            if let Some(ch) = idx.children(text, p) {
                o.hit("json.simple.children");
                black_box(ch.take(64).count());
            }
        }
    }
    o.size = o.size.max(seen);
    let mut probe = Rng::new(sel ^ 0x51);
    for _ in 0..6 {
        let p = probe.below(n + 3);
        black_box(idx.structural_index(p));
        black_box(idx.find_close(text, p));
        black_box(idx.skip_value(text, p));
        black_box(idx.children(text, p).map(|c| c.take(8).count()));
        black_box(idx.structural_pos(p));
    }
    black_box(idx.structural_pos(usize::MAX));
}

/// What to run for the JSON family (deep mode runs one at a time).
#[derive(Clone, Copy, PartialEq, Eq)]
enum What {
    All,
    Only(&'static str),
}
impl What {
    fn wants(&self, ep: &str) -> bool {
        match self {
            What::All => true,
            What::Only(e) => *e == ep,
        }
    }
}

fn run_json(b: &[u8], what: What, o: &mut Obs) -> Vec<Fail> {
    let mut fails = Vec::new();
    let sel = fnv(b);
    if what.wants("json_validate") {
        o.evals += 1;
        if let Some(r) = guard("json_validate", &mut fails, || {
            succinctly::json::validate::validate(b).map_err(|e| black_box(e.to_string().len()))
        }) {
            o.hit(if r.is_ok() { "json.validate.ok" } else { "json.validate.err" });
        }
    }
    if what.wants("json_walk") || what.wants("json_print") || what.wants("json_build") {
        o.evals += 1;
        if let Some(idx) = guard("json_build", &mut fails, || JsonIndex::build(b)) {
            o.hit("json.build");
            if what.wants("json_walk") {
                o.evals += 1;
                let mut inner = Vec::new();
                let done = guard("json_walk", &mut fails, || walk_json(&idx, b, sel, o, &mut inner));
                fails.append(&mut inner);
                if done == Some(false) {
                    fails.push(Fail {
                        ep: "json_walk",
                        class: "not_terminating".into(),
                        msg: "cursor traversal exceeded 8*|BP|+64 moves".into(),
                    });
                }
            }
            if what.wants("json_print") {
                o.evals += 1;
                guard("json_print", &mut fails, || print_json(&idx, b, o));
            }
        }
    }
    if what.wants("json_simple") {
        o.evals += 1;
        guard("json_simple", &mut fails, || simple_json(b, sel, o));
    }
    fails
}

// ---------------------------------------------------------------------------------------
// YAML

/// Group 1: classify the node and decode it through every typed accessor.
fn visit_yaml_value(cur: &YamlCursor<'_>, o: &mut Obs) {
    black_box(cur.text_position());
    black_box(cur.text_end_position());
    black_box(cur.bp_position());
    black_box(cur.is_container());
    let v = cur.value();
    match &v {
        YamlValue::Null => o.hit("yaml.value.null"),
        YamlValue::String(s) => {
            black_box(s.is_unquoted());
            black_box(s.raw_bytes().len());
            match s.as_str() {
                Ok(t) => {
                    black_box(t.len());
                    o.hit("yaml.value.string.ok")
                }
                Err(e) => {
                    black_box(e.to_string().len());
                    o.hit("yaml.value.string.err")
                }
            }
        }
        YamlValue::Mapping(f) => {
            o.hit("yaml.value.mapping");
            black_box(f.is_empty());
            black_box(f.find("a").is_some());
            black_box(f.find_cursor("k0").map(|c| c.bp_position()));
            let mut rest = f.clone();
            for _ in 0..4 {
                let Some((fld, r)) = rest.uncons() else { break };
                let k = fld.key();
                black_box(k.key_string().len());
                black_box(DocumentValue::type_name(&fld.value()));
                black_box(fld.key_cursor().raw_bytes().map(|b| b.len()));
                black_box(fld.value_cursor().text_position());
                rest = r;
            }
            black_box(f.clone().take(64).count());
        }
        YamlValue::Sequence(e) => {
            o.hit("yaml.value.sequence");
            black_box(e.is_empty());
            black_box(e.get(1).is_some());
            black_box(e.uncons().is_some());
            black_box(e.uncons_cursor().map(|(c, _)| c.bp_position()));
            black_box(e.uncons_resolved_cursor().map(|(c, _)| c.bp_position()));
            black_box((*e).take(64).count());
        }
        YamlValue::Alias { anchor_name, target } => {
            o.hit("yaml.value.alias");
            black_box(anchor_name.len());
            black_box(target.map(|t| DocumentValue::type_name(&t.value())));
            // documented panic only past 65 536 hops: unreachable with inputs <= 64 KiB here
            black_box(cur.resolve_alias_target_cursor().map(|c| c.bp_position()));
        }
        YamlValue::Error(m) => {
            black_box(m.len());
            o.hit("yaml.value.error")
        }
    }
    black_box(DocumentValue::is_null(&v));
    black_box(DocumentValue::as_bool(&v));
    black_box(DocumentValue::as_i64(&v));
    black_box(DocumentValue::as_f64(&v));
    black_box(DocumentValue::number_literal(&v).map(|s| s.len()));
    black_box(DocumentValue::as_str(&v).map(|s| s.len()));
    black_box(DocumentValue::type_name(&v));
    black_box(DocumentValue::as_object(&v).is_some());
    black_box(DocumentValue::as_array(&v).is_some());
}

/// Group 2: the node's raw span.
fn visit_yaml_raw(cur: &YamlCursor<'_>, o: &mut Obs) {
    match cur.raw_bytes() {
        Some(b) => {
            black_box(b.len());
            o.hit("yaml.raw.some")
        }
        None => o.hit("yaml.raw.none"),
    }
}

/// Group 3: node properties, comments, style, positions.
fn visit_yaml_meta(cur: &YamlCursor<'_>, ordinal: usize, o: &mut Obs) {
    if cur.anchor().is_some() {
        o.hit("yaml.node.anchor");
    }
    black_box(cur.alias());
    black_box(cur.is_alias());
    if cur.explicit_tag().is_some() {
        o.hit("yaml.node.tag");
    }
    if cur.line_comment().is_some() {
        o.hit("yaml.node.comment");
    }
    black_box(cur.line_comment_raw());
    black_box(cur.line_comment_checked().is_ok());
    black_box(cur.style());
    black_box(cur.tag());
    black_box(cur.kind());
    black_box(cur.document_index());
    if ordinal % 8 == 0 {
        black_box(cur.line());
        black_box(cur.column());
    }
    black_box(cur.children().take(2).count());
}

fn walk_yaml(idx: &YamlIndex, text: &[u8], sel: u64, o: &mut Obs, fails: &mut Vec<Fail>) -> bool {
    let root = idx.root(text);
    let bp_len = idx.bp().len();
    let budget = 8 * bp_len + 64;
    let mut steps = 0usize;
    let mut nodes = 0usize;
    let mut cur = root;
    let mut finished = true;
    'outer: loop {
        guard("yaml_walk", fails, || visit_yaml_value(&cur, o));
        guard("yaml_walk", fails, || visit_yaml_raw(&cur, o));
        guard("yaml_walk", fails, || visit_yaml_meta(&cur, nodes, o));
        nodes += 1;
        steps += 1;
        if steps > budget {
            finished = false;
            break;
        }
        if let Some(c) = cur.first_child() {
            cur = c;
            continue;
        }
        loop {
            if let Some(s) = cur.next_sibling() {
                cur = s;
                break;
            }
            match cur.parent() {
                Some(p) => {
                    cur = p;
                    steps += 1;
                    if steps > budget {
                        finished = false;
                        break 'outer;
                    }
                }
                None => break 'outer,
            }
        }
    }
    o.size = o.size.max(nodes);
    let n = text.len();
    let mut probe = Rng::new(sel);
    let offs = [0usize, n / 2, n.saturating_sub(1), n, n + 1, probe.below(n + 2), probe.below(n + 2)];
    for &off in &offs {
        black_box(idx.to_line_column(off, text));
        black_box(root.cursor_at_offset(off).map(|c| c.bp_position()));
        black_box(succinctly::yaml::locate_offset(idx, text, off).map(|s| s.len()));
        black_box(succinctly::yaml::locate_offset_detailed(idx, text, off).is_some());
    }
    for &(l, c) in &[(0usize, 0usize), (1, 1), (1, n + 2), (2, 1), (probe.below(6), probe.below(40)), (usize::MAX, 1)] {
        black_box(idx.to_offset(l, c, text));
        black_box(root.cursor_at_position(l, c).map(|c| c.bp_position()));
    }
    black_box(idx.has_aliases());
    finished
}

fn print_yaml(idx: &YamlIndex, text: &[u8], sel: u64, light: bool, o: &mut Obs) {
    let root = idx.root(text);
    let sort = sel & 1 == 1;
    let width = ((sel >> 1) % 8) as usize;
    let mut s = Sink::new(SINK_CAP);
    let r = root.stream_json(&mut s, IndentSpec::COMPACT, false);
    match r {
        Ok(()) => o.hit("yaml.print.json.ok"),
        Err(_) => o.hit("yaml.print.json.err"),
    }
    if r.is_ok() && s.n <= 256 * 1024 {
        // same traversal into a String (only when the bounded run showed the size is sane:
        // alias expansion is exponential in the worst case, which is not a C19 matter)
        black_box(root.to_json().len());
        black_box(root.to_json_document().len());
    }
    if light {
        // deep mode: compact JSON, block YAML and flow YAML reach every recursive writer
        match root.stream_yaml_document(&mut Sink::new(SINK_CAP), IndentSpec::spaces(2), false) {
            Ok(()) => o.hit("yaml.print.yaml.ok"),
            Err(_) => o.hit("yaml.print.yaml.err"),
        }
        // flow style: output stays linear in the depth, so the sink cap does not cut the recursion short
        let _ = root.stream_yaml_document(&mut Sink::new(SINK_CAP), IndentSpec::COMPACT, false);
        return;
    }
    let _ = root.stream_json_document(&mut Sink::new(SINK_CAP), IndentSpec::spaces(2), sort);
    let _ = root.stream_json(&mut Sink::new(SINK_CAP), IndentSpec { width: 1, unit: '\t' }, !sort);
    match root.stream_yaml_document(&mut Sink::new(SINK_CAP), IndentSpec::spaces(2), false) {
        Ok(()) => o.hit("yaml.print.yaml.ok"),
        Err(_) => o.hit("yaml.print.yaml.err"),
    }
    let _ = root.stream_yaml(&mut Sink::new(SINK_CAP), IndentSpec::spaces(width), sort);
    let _ = root.stream_yaml_document(&mut Sink::new(SINK_CAP), IndentSpec::COMPACT, sort);
    let _ = root.stream_yaml_as_document(&mut Sink::new(SINK_CAP), IndentSpec::spaces(4), false);
    let _ = stream_yaml_sequence(root.children().take(64), &mut Sink::new(SINK_CAP), 0, 2, ' ', sort);
    let _ = stream_yaml_sequence(root.children().take(64), &mut Sink::new(SINK_CAP), 0, 0, ' ', false);
    black_box(DocumentCursor::is_falsy(&root));
    // navigated results: each document, and the first values below it
    let mut lazy_done = false;
    for doc in root.children().take(3) {
        let _ = doc.stream_yaml_as_document(&mut Sink::new(SINK_CAP), IndentSpec::spaces(2), sort);
        let _ = doc.stream_json(&mut Sink::new(SINK_CAP), IndentSpec::spaces(2), sort);
        black_box(DocumentCursor::is_falsy(&doc));
        if let YamlValue::Mapping(f) = doc.value() {
            if !lazy_done {
                lazy_done = true;
                o.hit("yaml.print.lazy_keys");
                let _ = stream_lazy_keys_json(&f, &mut Sink::new(SINK_CAP), IndentSpec::COMPACT);
                let _ = stream_lazy_keys_yaml(&f, &mut Sink::new(SINK_CAP), IndentSpec::spaces(2));
                let _ = stream_lazy_keys_yaml(&f, &mut Sink::new(SINK_CAP), IndentSpec::COMPACT);
                black_box(DocumentFields::keys(&f).len());
            }
        }
        for sub in doc.children().take(4) {
            let _ = sub.stream_yaml(&mut Sink::new(SINK_CAP), IndentSpec::spaces(2), false);
            let _ = sub.stream_json_document(&mut Sink::new(SINK_CAP), IndentSpec::COMPACT, false);
        }
    }
}

fn run_yaml(b: &[u8], what: What, o: &mut Obs) -> Vec<Fail> {
    let mut fails = Vec::new();
    let sel = fnv(b);
    if what.wants("yaml_validate") {
        o.evals += 1;
        if let Some(r) = guard("yaml_validate", &mut fails, || {
            succinctly::yaml::validate::validate(b).map_err(|e| black_box(e.to_string().len()))
        }) {
            o.hit(if r.is_ok() { "yaml.validate.ok" } else { "yaml.validate.err" });
        }
    }
    if what.wants("yaml_walk") || what.wants("yaml_print") || what.wants("yaml_build") {
        o.evals += 1;
        match guard("yaml_build", &mut fails, || YamlIndex::build(b).map_err(|e| black_box(e.to_string().len()))) {
            Some(Ok(idx)) => {
                o.hit("yaml.build.ok");
                if what.wants("yaml_walk") {
                    o.evals += 1;
                    let mut inner = Vec::new();
                    let done = guard("yaml_walk", &mut fails, || walk_yaml(&idx, b, sel, o, &mut inner));
                    fails.append(&mut inner);
                    if done == Some(false) {
                        fails.push(Fail {
                            ep: "yaml_walk",
                            class: "not_terminating".into(),
                            msg: "cursor traversal exceeded 8*|BP|+64 moves".into(),
                        });
                    }
                }
                if what.wants("yaml_print") {
                    o.evals += 1;
                    guard("yaml_print", &mut fails, || print_yaml(&idx, b, sel, what != What::All, o));
                }
            }
            Some(Err(_)) => o.hit("yaml.build.err"),
            None => {}
        }
    }
    fails
}

// ---------------------------------------------------------------------------------------
// DSV

fn walk_dsv(dsv: &Dsv, text: &[u8], sel: u64, o: &mut Obs) {
    let n = text.len();
    let rc = dsv.row_count();
    black_box(dsv.text().len());
    let mut rows = 0usize;
    let mut fields = 0usize;
    for row in dsv.rows().take(2000) {
        rows += 1;
        let mut nf = 0usize;
        for f in row.fields().take(2000) {
            nf += 1;
            black_box(f.len());
        }
        fields += nf;
        if rows <= 64 {
            for i in [0usize, 1, nf.saturating_sub(1), nf, nf + 1, usize::MAX] {
                black_box(row.get(i).map(|f| f.len()));
            }
        }
    }
    o.size = o.size.max(fields);
    if rows > 1 {
        o.hit("dsv.multi_row");
    }
    if fields > rows {
        o.hit("dsv.multi_field");
    }
    let mut probe = Rng::new(sel ^ 0xd5);
    for k in [0usize, 1, rc.saturating_sub(1), rc, rc + 1, probe.below(rc + 3), usize::MAX] {
        if let Some(row) = dsv.row(k) {
            black_box(row.fields().take(50).count());
            black_box(row.get(1).map(|f| f.len()));
        }
    }
    // cursor moves
    let mut c = dsv.cursor();
    let mut moves = 0usize;
    loop {
        black_box(c.current_field().len());
        black_box(c.position());
        moves += 1;
        if !c.next_field() || moves > 5000 {
            break;
        }
    }
    black_box(c.at_end());
    black_box(c.next_field());
    black_box(c.next_row());
    black_box(c.current_field().len());
    let mut c = dsv.cursor();
    moves = 0;
    while c.next_row() && moves < 5000 {
        black_box(c.current_field_str().is_ok());
        moves += 1;
    }
    for k in [0usize, 1, rc, rc + 1, probe.below(rc + 2), usize::MAX] {
        let mut c = dsv.cursor();
        if c.goto_row(k) {
            black_box(c.current_field().len());
            black_box(c.next_field());
            black_box(c.current_field().len());
        }
    }
    let ix = dsv.index();
    black_box(ix.marker_count());
    black_box(ix.is_empty());
    for i in [0usize, 1, 63, 64, 65, n.saturating_sub(1), n, n + 1, n + 64, probe.below(n + 2), usize::MAX] {
        black_box(ix.markers_rank1(i));
        black_box(ix.newlines_rank1(i));
        black_box(ix.markers_select1(i));
        black_box(ix.newlines_select1(i));
    }
    let r = DsvRef::new(dsv.text(), dsv.index());
    black_box(r.row_count());
    black_box(r.rows().take(8).count());
    black_box(r.row(1).map(|row| row.fields().take(8).count()));
    black_box(r.cursor().current_field().len());
}

fn run_dsv(b: &[u8], cfg: (u8, u8, u8), o: &mut Obs) -> Vec<Fail> {
    let mut fails = Vec::new();
    let sel = fnv(b);
    let config = DsvConfig { delimiter: cfg.0, quote_char: cfg.1, newline: cfg.2 };
    o.evals += 1;
    guard("dsv_build", &mut fails, || {
        let ix = build_index_scalar(b, &config);
        black_box(ix.row_count());
        black_box(ix.marker_count());
    });
    if let Some(dsv) = guard("dsv_build", &mut fails, || Dsv::parse_with_config(b, &config)) {
        o.hit("dsv.build");
        o.evals += 1;
        guard("dsv_walk", &mut fails, || walk_dsv(&dsv, b, sel, o));
    }
    fails
}

// ---------------------------------------------------------------------------------------
// jq program parser

fn run_jq(prog: &str, o: &mut Obs) -> Vec<Fail> {
    let mut fails = Vec::new();
    o.evals += 1;
    if let Some(ok) = guard("jq_parse", &mut fails, || match succinctly::jq::parse(prog) {
        Ok(e) => {
            black_box(&e);
            true
        }
        Err(e) => {
            black_box(e.to_string().len());
            false
        }
    }) {
        o.hit(if ok { "jq.parse.ok" } else { "jq.parse.err" });
    }
    o.evals += 1;
    guard("jq_parse", &mut fails, || {
        black_box(succinctly::jq::parse_with_mode(prog, ParserMode::Yq).map_err(|e| e.to_string().len()).is_ok());
    });
    o.evals += 1;
    if let Some(ok) = guard("jq_parse", &mut fails, || {
        let a = succinctly::jq::parse_program(prog).map_err(|e| e.to_string().len()).is_ok();
        let b = succinctly::jq::parse_program_with_mode(prog, ParserMode::Yq).is_ok();
        black_box(b);
        a
    }) {
        o.hit(if ok { "jq.program.ok" } else { "jq.program.err" });
    }
    fails
}

// ---------------------------------------------------------------------------------------
// cases, replay objects, case log, ddmin

#[derive(Clone, Debug)]
enum Family {
    Json,
    Yaml,
    Dsv(u8, u8, u8),
    Jq,
}
impl Family {
    fn name(&self) -> &'static str {
        match self {
            Family::Json => "json",
            Family::Yaml => "yaml",
            Family::Dsv(..) => "dsv",
            Family::Jq => "jq",
        }
    }
}

fn replay_obj(fam: &Family, bytes: &[u8]) -> Value {
    let mut v = json!({"ep": fam.name(), "hex": hex(bytes)});
    if let Family::Dsv(d, q, n) = fam {
        v["cfg"] = json!([d, q, n]);
    }
    v
}

fn family_from(v: &Value) -> Option<Family> {
    Some(match v["ep"].as_str()? {
        "json" => Family::Json,
        "yaml" => Family::Yaml,
        "jq" => Family::Jq,
        "dsv" => {
            let c = v["cfg"].as_array()?;
            let g = |i: usize| c.get(i).and_then(|x| x.as_u64()).map(|x| x as u8);
            Family::Dsv(g(0)?, g(1)?, g(2)?)
        }
        _ => return None,
    })
}

fn run_family(fam: &Family, bytes: &[u8], what: What, o: &mut Obs) -> Vec<Fail> {
    match fam {
        Family::Json => run_json(bytes, what, o),
        Family::Yaml => run_yaml(bytes, what, o),
        Family::Dsv(d, q, n) => run_dsv(bytes, (*d, *q, *n), o),
        Family::Jq => match std::str::from_utf8(bytes) {
            Ok(s) => run_jq(s, o),
            Err(_) => Vec::new(),
        },
    }
}

const CASELOG_MAX_INPUT: usize = 1 << 20;

/// Overwrite-and-flush log of the case that is about to run (so that the driver can recover
/// the killing input from a dead shard).
struct CaseLog {
    f: Option<std::fs::File>,
}
impl CaseLog {
    fn open(ctx: &Ctx) -> Self {
        let f = ctx.arg("caselog").and_then(|p| std::fs::OpenOptions::new().create(true).write(true).truncate(true).open(p).ok());
        CaseLog { f }
    }
    fn write(&mut self, text: &str) {
        if let Some(f) = self.f.as_mut() {
            let _ = f.set_len(0);
            let _ = f.seek(SeekFrom::Start(0));
            let _ = f.write_all(text.as_bytes());
            let _ = f.flush();
        }
    }
    fn case(&mut self, fam: &Family, bytes: &[u8]) {
        if self.f.is_some() {
            let cut = &bytes[..bytes.len().min(CASELOG_MAX_INPUT)];
            let mut s = String::with_capacity(cut.len() * 2 + 64);
            let _ = write!(s, "{{\"ep\":\"{}\",", fam.name());
            if let Family::Dsv(d, q, n) = fam {
                let _ = write!(s, "\"cfg\":[{d},{q},{n}],");
            }
            let _ = write!(s, "\"truncated\":{},\"hex\":\"", bytes.len() > cut.len());
            for b in cut {
                let _ = write!(s, "{b:02x}");
            }
            s.push_str("\"}");
            self.write(&s);
        }
    }
}

/// Classic ddmin over bytes: smallest input (w.r.t. chunk removal) still satisfying `pred`.
fn ddmin(input: &[u8], mut pred: impl FnMut(&[u8]) -> bool, max_tests: usize) -> Vec<u8> {
    let mut cur = input.to_vec();
    let mut n = 2usize;
    let mut tests = 0usize;
    while cur.len() >= 2 && tests < max_tests {
        let chunk = cur.len().div_ceil(n);
        let mut reduced = false;
        let mut i = 0;
        while i < cur.len() && tests < max_tests {
            let j = (i + chunk).min(cur.len());
            // complement of chunk [i, j)
            let mut cand = Vec::with_capacity(cur.len() - (j - i));
            cand.extend_from_slice(&cur[..i]);
            cand.extend_from_slice(&cur[j..]);
            tests += 1;
            if pred(&cand) {
                cur = cand;
                n = n.saturating_sub(1).max(2);
                reduced = true;
                // keep i: the next chunk moved here
            } else {
                i = j;
            }
        }
        if !reduced {
            if n >= cur.len() {
                break;
            }
            n = (n * 2).min(cur.len());
        }
    }
    // canonicalise surviving bytes where possible (makes reproducers readable)
    for i in 0..cur.len() {
        if tests >= max_tests {
            break;
        }
        for repl in [b'a', b' ', b'0'] {
            if cur[i] != repl && !(cur[i].is_ascii_graphic()) {
                let mut cand = cur.clone();
                cand[i] = repl;
                tests += 1;
                if pred(&cand) {
                    cur = cand;
                    break;
                }
            }
        }
    }
    cur
}

struct Runner {
    log: CaseLog,
    minimised: BTreeMap<String, Vec<u8>>,
    minimise: bool,
}

impl Runner {
    /// The one checking function: normal workload, deep workload and `--replay` all come here.
    fn check(&mut self, rep: &mut Report, fam: &Family, bytes: &[u8], what: What, origin: &str) -> Vec<String> {
        self.log.case(fam, bytes);
        let mut o = Obs::default();
        let fails = run_family(fam, bytes, what, &mut o);
        if o.size >= 2 {
            rep.nontrivial(mix(fnv(bytes), fnv(fam.name().as_bytes())));
        }
        rep.count(&format!("cases.{}", fam.name()));
        rep.count(&format!("origin.{}.{origin}", fam.name()));
        o.flush(rep);
        let mut sigs: Vec<String> = Vec::new();
        for f in fails {
            let sig = f.sig();
            if sigs.contains(&sig) {
                continue;
            }
            let mut replay = replay_obj(fam, bytes);
            replay["origin"] = json!(origin);
            if self.minimise && !self.minimised.contains_key(&sig) && bytes.len() <= 64 * 1024 {
                let min = ddmin(
                    bytes,
                    |cand| run_family(fam, cand, what, &mut Obs::default()).iter().any(|g| g.sig() == sig),
                    4000,
                );
                replay["min_hex"] = json!(hex(&min));
                replay["min_lossy"] = json!(String::from_utf8_lossy(&min));
                self.minimised.insert(sig.clone(), min);
            } else if let Some(m) = self.minimised.get(&sig) {
                replay["min_hex"] = json!(hex(m));
            }
            rep.violation(sig.clone(), format!("{} [{} bytes, {}]", f.msg, bytes.len(), origin), replay);
            sigs.push(sig);
        }
        sigs
    }
}

// ---------------------------------------------------------------------------------------
// corpus sources (pluggable: add richer generators to these lists)

pub type CorpusFn = fn(&mut Rng) -> Vec<u8>;

fn json_corpus_doc(r: &mut Rng) -> Vec<u8> {
    gj::gen_doc(r).1.bytes
}
fn json_corpus_nested(r: &mut Rng) -> Vec<u8> {
    let d = r.range(2, 90);
    let kind = r.below(3) as u8;
    let v = gj::gen_deep(r, d, kind);
    let ws = r.below(2) as u8;
    gj::render(r, &gj::RenderOpts { ws, esc: 1, align_to: None }, &v).bytes
}

/// Valid-JSON sources for mutants / truncations.
pub fn json_corpora() -> Vec<(&'static str, CorpusFn)> {
    vec![("gjson", json_corpus_doc as CorpusFn), ("gjson_nested", json_corpus_nested as CorpusFn)]
}

fn yaml_corpus_json(r: &mut Rng) -> Vec<u8> {
    // JSON is (nearly) a YAML subset: flow collections with double-quoted scalars
    let o = gj::TreeOpts { budget: 25, max_depth: 4, str_class: 1, num_class: 1, ..Default::default() };
    let v = gj::gen_tree(r, &o);
    gj::render(r, &gj::RenderOpts { ws: 1, esc: 0, align_to: None }, &v).bytes
}

/// Valid-YAML sources for mutants / truncations. The richer G-YAML generator is meant to be
/// appended here (`("gyaml", crate::gen::yaml::corpus as CorpusFn)`).
pub fn yaml_corpora() -> Vec<(&'static str, CorpusFn)> {
    vec![
        ("small_yaml", soup::yaml_doc as CorpusFn),
        ("json_as_yaml", yaml_corpus_json as CorpusFn),
        ("gyaml", yaml_corpus_gyaml as CorpusFn),
        ("yaml_corpus", yaml_corpus_text as CorpusFn),
    ]
}

/// G-YAML streams (full presentation space).
fn yaml_corpus_gyaml(r: &mut Rng) -> Vec<u8> {
    let o = crate::gen::yaml::YamlOpts::random(r);
    crate::gen::yaml::gen_stream(r, &o).bytes
}

/// The C16 text corpus (chunk-edge documents, block scalars, anchors).
fn yaml_corpus_text(r: &mut Rng) -> Vec<u8> {
    let seed = r.u64();
    let j = r.below(1 << 20);
    if r.bool() {
        crate::gen::yaml_corpus::text_doc(seed, j, false)
    } else {
        crate::gen::yaml_corpus::edge_doc(seed, j, false)
    }
}

/// A corpus document; under `--scale tiny` (Miri) a small one (redraw a few times, then cut).
fn corpus_doc(r: &mut Rng, ctx: &Ctx, corp: &[(&'static str, CorpusFn)]) -> Vec<u8> {
    let (_, f) = corp[r.below(corp.len())];
    let mut doc = f(r);
    if ctx.tiny() {
        for _ in 0..6 {
            if doc.len() <= 96 {
                break;
            }
            doc = f(r);
        }
        doc.truncate(96);
    }
    doc
}

fn pick_len(r: &mut Rng, ctx: &Ctx) -> usize {
    if ctx.tiny() {
        return r.below(56);
    }
    match r.below(60) {
        0 => r.below(4),
        1..=30 => r.below(160),
        31..=52 => r.below(600),
        53..=58 => r.below(5000),
        _ => r.below(if ctx.thorough() { 60_000 } else { 20_000 }),
    }
}

fn gen_json_case(r: &mut Rng, ctx: &Ctx, corp: &[(&'static str, CorpusFn)]) -> (Vec<u8>, &'static str) {
    let len = pick_len(r, ctx);
    match r.below(20) {
        0..=1 => (soup::random_bytes(r, len), "random"),
        2..=7 => (gj::json_soup(r, len), "soup"),
        8..=15 => {
            let doc = corpus_doc(r, ctx, corp);
            let mut m = doc;
            for _ in 0..*r.pick(&[1usize, 1, 2, 4]) {
                let mu = gj::random_mutation(r, m.len());
                m = gj::apply_mutation(&m, &mu);
            }
            (m, "mutant")
        }
        16..=17 => {
            let doc = corpus_doc(r, ctx, corp);
            let at = r.below(doc.len() + 1);
            (doc[..at].to_vec(), "truncation")
        }
        18 => {
            (corpus_doc(r, ctx, corp), "valid")
        }
        _ => {
            // two documents glued / a document inside soup
            let (pre, post) = (r.below(40), r.below(40));
            let mut a = gj::json_soup(r, pre);
            a.extend_from_slice(&corpus_doc(r, ctx, corp));
            a.extend_from_slice(&gj::json_soup(r, post));
            (a, "embedded")
        }
    }
}

fn gen_yaml_case(r: &mut Rng, ctx: &Ctx, corp: &[(&'static str, CorpusFn)]) -> (Vec<u8>, &'static str) {
    let len = pick_len(r, ctx);
    match r.below(20) {
        0 => (soup::random_bytes(r, len), "random"),
        1..=7 => (soup::yaml_soup(r, len), "soup"),
        8..=15 => {
            let doc = corpus_doc(r, ctx, corp);
            (soup::mutate_bytes(r, &doc, soup::YAML_HOT_BYTES), "mutant")
        }
        16..=17 => {
            let doc = corpus_doc(r, ctx, corp);
            let at = r.below(doc.len() + 1);
            (doc[..at].to_vec(), "truncation")
        }
        18 => {
            (corpus_doc(r, ctx, corp), "valid")
        }
        _ => {
            let mut a = corpus_doc(r, ctx, corp);
            let post = r.below(60);
            a.extend_from_slice(&soup::yaml_soup(r, post));
            (a, "embedded")
        }
    }
}

fn gen_dsv_case(r: &mut Rng, ctx: &Ctx) -> (Vec<u8>, (u8, u8, u8), &'static str) {
    let cfg = soup::dsv_config_bytes(r);
    let len = pick_len(r, ctx);
    match r.below(10) {
        0 => (soup::random_bytes(r, len), cfg, "random"),
        1..=7 => (soup::dsv_soup(r, len, cfg.0, cfg.1, cfg.2), cfg, "soup"),
        _ => {
            // soup written for one config, read under another
            let other = soup::dsv_config_bytes(r);
            (soup::dsv_soup(r, len, other.0, other.1, other.2), cfg, "cross_config")
        }
    }
}

fn gen_jq_case(r: &mut Rng, ctx: &Ctx) -> (String, &'static str) {
    let max_tok = if ctx.tiny() { 12 } else { 60 };
    let ntok = r.range(1, max_tok);
    match r.below(10) {
        0..=4 => (soup::jq_soup(r, ntok), "soup"),
        5..=7 => {
            let p = *r.pick(soup::JQ_PROGRAMS);
            (soup::mutate_str(r, p), "mutant")
        }
        8 => {
            let p = *r.pick(soup::JQ_PROGRAMS);
            (soup::truncate_str(p, r.below(p.len() + 1)).to_string(), "truncation")
        }
        _ => {
            // moderate nesting of a random kind, possibly cut
            let k = *r.pick(soup::DEEP_JQ_KINDS);
            let d = if ctx.tiny() { r.range(1, 12) } else { r.range(1, 300) };
            let s = soup::deep_jq(k, d);
            if r.bool() {
                (soup::truncate_str(&s, r.below(s.len() + 1)).to_string(), "nest")
            } else {
                (s, "nest")
            }
        }
    }
}

const TINY_JSON: &[&str] = &[
    r#"{"a":[1,-2.5e3,"xé\n"],"b":{"c":null,"d":true}}"#,
    r#"[[],{},"",0,false,"😀"]"#,
    " [ 1 , { \"k\" : \"v\" } ]\r\n",
];
const TINY_YAML: &[&str] = &[
    "a: &x [1, 'q']\nb: *x\nc:\n  - d: |\n      t\n  - \"e\\n\"\n",
    "--- !!map\n? k\n: v # c\n<<: {m: 1}\n...\n",
    "- - a\n  - b: >-\n     f\n- {x: y, z: [1, 2]}\n",
];
const TINY_DSV: &[&str] = &["a,b,c\n1,\"x,y\",3\n\"q\"\"q\",,\n", "h\r\n\"multi\nline\",2\r\n"];

// ---------------------------------------------------------------------------------------
// deep workload

const DEPTHS: &[usize] = &[100, 127, 128, 129, 200, 255, 256, 257, 383, 384, 385, 500, 700, 1000, 1500, 2000, 3000, 5000];
const QUICK_DEPTHS: &[usize] = &[100, 128, 129, 256, 257, 384, 385, 1000, 2000, 5000];
/// Far beyond the design's 100..5000: needed to see a *removed* depth guard on small frames
/// (only for linear-size documents and entry points that are linear in the depth).
const EXTREME_DEPTHS: &[usize] = &[20_000, 100_000];
const JQ_EXTRA_DEPTHS: &[usize] = &[7500, 10_000];
/// 0 = the calling (big, 1 GiB) svh thread
const STACKS: &[usize] = &[0, 8 << 20, 2 << 20];

const JSON_WHATS: &[&str] = &["json_validate", "json_walk", "json_print", "json_simple"];
const YAML_WHATS: &[&str] = &["yaml_validate", "yaml_walk", "yaml_print"];
const JQ_WHATS: &[&str] = &["jq_parse"];

#[derive(Clone, Debug)]
struct Combo {
    family: &'static str,
    kind: &'static str,
    what: &'static str,
    stack: usize,
}
impl Combo {
    fn id(&self) -> String {
        format!("{}:{}:{}:{}", self.family, self.kind, self.what, self.stack)
    }
}

fn all_combos(ctx: &Ctx) -> Vec<Combo> {
    let mut v = Vec::new();
    for &stack in STACKS {
        // quick tier: ordinary stacks only (a panic at depth shows there as well, unless the
        // stack goes first); the 1 GiB thread is added in the thorough tier
        if stack == 0 && !ctx.thorough() && ctx.arg("only").is_none() {
            continue;
        }
        for &kind in soup::DEEP_JSON_KINDS {
            for &what in JSON_WHATS {
                // the comma shape is about sibling recursion in SimpleJsonIndex::children only
                if (kind == "commas" || kind == "flat") && what != "json_simple" && what != "json_walk" {
                    continue;
                }
                v.push(Combo { family: "json", kind, what, stack });
            }
        }
        for &kind in soup::DEEP_YAML_KINDS {
            for &what in YAML_WHATS {
                v.push(Combo { family: "yaml", kind, what, stack });
            }
        }
        for &kind in soup::DEEP_JQ_KINDS {
            for &what in JQ_WHATS {
                v.push(Combo { family: "jq", kind, what, stack });
            }
        }
    }
    v
}

fn deep_input(family: &str, kind: &str, depth: usize) -> (Family, Vec<u8>) {
    match family {
        "json" => (Family::Json, soup::deep_json(kind, if kind == "commas" || kind == "flat" { depth * 20 } else { depth })),
        "yaml" => (Family::Yaml, soup::deep_yaml(kind, depth)),
        _ => (Family::Jq, soup::deep_jq(kind, depth).into_bytes()),
    }
}

fn static_what(what: &str) -> &'static str {
    JSON_WHATS.iter().chain(YAML_WHATS).chain(JQ_WHATS).copied().find(|w| *w == what).unwrap_or("json_walk")
}

fn depths_for(ctx: &Ctx, family: &str, kind: &str, what: &str) -> Vec<usize> {
    let mut d: Vec<usize> = DEPTHS.to_vec();
    if !ctx.thorough() {
        d.retain(|x| QUICK_DEPTHS.contains(x));
    }
    let linear_doc = !matches!(kind, "block_map" | "block_seq" | "block_mixed" | "commas" | "flat");
    let linear_work = !matches!(what, "json_walk" | "yaml_walk") || family == "yaml";
    if linear_doc && linear_work {
        d.extend_from_slice(EXTREME_DEPTHS);
    }
    if family == "jq" {
        d.extend_from_slice(JQ_EXTRA_DEPTHS);
    }
    // block indentation documents are O(depth^2) bytes: 5000 -> 12.5 MB, keep that for thorough
    if !ctx.thorough() && matches!(kind, "block_map" | "block_seq" | "block_mixed") {
        d.retain(|&x| x <= 2000);
    }
    d
}

/// One deep case on the requested stack. Returns the failures seen (panics are caught inside
/// the thread; a stack overflow never returns).
fn run_deep_case(fam: &Family, bytes: &[u8], what: &'static str, stack: usize) -> (Vec<Fail>, Obs) {
    if stack == 0 {
        let mut o = Obs::default();
        let f = run_family(fam, bytes, What::Only(what), &mut o);
        return (f, o);
    }
    std::thread::scope(|s| {
        let h = std::thread::Builder::new()
            .stack_size(stack)
            .spawn_scoped(s, || {
                let mut o = Obs::default();
                let f = run_family(fam, bytes, What::Only(what), &mut o);
                (f, o)
            })
            .expect("spawn deep thread");
        h.join().unwrap_or_else(|_| (vec![Fail { ep: what, class: "panic:escaped".into(), msg: "panic escaped catch".into() }], Obs::default()))
    })
}

/// The answers whose depth ranges are reported (documented limits: 128 / 128 / 256).
const ANSWER_KEYS: &[&str] = &[
    "json.validate.ok", "json.validate.err", "json.print.yaml.ok", "json.print.yaml.err", "yaml.validate.ok",
    "yaml.validate.err", "yaml.build.ok", "yaml.build.err", "yaml.print.json.ok", "yaml.print.json.err",
    "yaml.print.yaml.ok", "yaml.print.yaml.err", "jq.parse.ok", "jq.parse.err",
];

fn deep_in_process(ctx: &Ctx, rep: &mut Report, combos: &[Combo]) {
    let mut log = CaseLog::open(ctx);
    for c in combos {
        let mut answers: BTreeMap<&'static str, (usize, usize)> = BTreeMap::new();
        for depth in depths_for(ctx, c.family, c.kind, c.what) {
            let (fam, bytes) = deep_input(c.family, c.kind, depth);
            let desc = json!({"ep": "deep", "family": c.family, "kind": c.kind, "what": c.what, "depth": depth, "stack": c.stack});
            log.write(&desc.to_string());
            let (fails, o) = run_deep_case(&fam, &bytes, static_what(c.what), c.stack);
            for k in ANSWER_KEYS {
                if o.c.contains_key(k) {
                    let e = answers.entry(k).or_insert((depth, depth));
                    e.0 = e.0.min(depth);
                    e.1 = e.1.max(depth);
                }
            }
            rep.count(&format!("deep.cases.{}", c.what));
            rep.count(&format!("deep.stack_mib.{}", c.stack >> 20));
            match depth {
                0..=128 => rep.count("deep.depth.le128"),
                129..=384 => rep.count("deep.depth.129_384"),
                385..=2000 => rep.count("deep.depth.385_2000"),
                _ => rep.count("deep.depth.gt2000"),
            }
            rep.nontrivial(mix(fnv(c.id().as_bytes()), depth as u64));
            o.flush(rep);
            for f in fails {
                rep.violation(
                    f.sig(),
                    format!("{} [deep {}.{} depth {depth} stack {} MiB]", f.msg, c.family, c.kind, c.stack >> 20),
                    desc.clone(),
                );
            }
        }
        if (c.stack == 0 || c.stack == 8 << 20) && !answers.is_empty() {
            let txt: Vec<String> = answers.iter().map(|(k, (lo, hi))| format!("{k} at depth {lo}..{hi}")).collect();
            rep.note(format!("deep-answers {}.{} [{}]: {}", c.family, c.kind, c.what, txt.join("; ")));
        }
    }
    log.write("{\"ep\":\"none\"}");
}

fn signal_name(sig: i32) -> String {
    match sig {
        4 => "SIGILL".into(),
        6 => "SIGABRT".into(),
        7 => "SIGBUS".into(),
        9 => "SIGKILL".into(),
        11 => "SIGSEGV".into(),
        n => format!("SIG{n}"),
    }
}

fn merge_child(rep: &mut Report, cr: &Value) {
    rep.evals(cr["evaluations"].as_u64().unwrap_or(0));
    if let Some(m) = cr["counters"].as_object() {
        for (k, v) in m {
            rep.add(k, v.as_u64().unwrap_or(0));
        }
    }
    for k in cr["distinct_keys"].as_array().into_iter().flatten() {
        if let Some(h) = k.as_str().and_then(|s| u64::from_str_radix(s, 16).ok()) {
            rep.nontrivial(h);
        }
    }
    for v in cr["violations"].as_array().into_iter().flatten() {
        rep.violation(v["sig"].as_str().unwrap_or("C19:deep:unknown"), v["msg"].as_str().unwrap_or(""), v["replay"].clone());
    }
    for n in cr["notes"].as_array().into_iter().flatten() {
        if let Some(t) = n.as_str() {
            if t.starts_with("deep-answers") {
                rep.note(t);
            }
        }
    }
}

/// Run the combinations in child svh processes (one child per (family, entry point, stack)
/// batch); a dead child becomes a violation recovered from its case log, and the batch is
/// resumed after the combination that died.
fn deep_isolated(ctx: &Ctx, rep: &mut Report, combos: &[Combo]) {
    let exe = match std::env::current_exe() {
        Ok(e) => e,
        Err(e) => {
            rep.inconclusive(json!({"why": format!("current_exe: {e}")}));
            return;
        }
    };
    let dir = std::env::temp_dir().join(format!("svh-c19-{}-{}", std::process::id(), ctx.seed));
    let _ = std::fs::create_dir_all(&dir);
    let mut batches: BTreeMap<(usize, &'static str, &'static str), Vec<Combo>> = BTreeMap::new();
    for c in combos {
        batches.entry((c.stack, c.family, c.what)).or_default().push(c.clone());
    }
    let mut serial = 0usize;
    for (_, batch) in batches {
        let mut pending: Vec<Combo> = batch;
        while !pending.is_empty() {
            serial += 1;
            let caselog = dir.join(format!("case{serial}.json"));
            let out = dir.join(format!("rep{serial}.json"));
            let only: Vec<String> = pending.iter().map(|c| c.id()).collect();
            let mut cmd = std::process::Command::new(&exe);
            cmd.arg("c19")
                .args(["--seed", &ctx.seed.to_string()])
                .args(["--tier", if ctx.thorough() { "thorough" } else { "quick" }])
                .args(["--mode", "deep", "--isolate", "0", "--only", &only.join(",")])
                .args(["--caselog", &caselog.to_string_lossy()])
                .args(["--out", &out.to_string_lossy()])
                .env("RUST_BACKTRACE", "0")
                .stdout(std::process::Stdio::null())
                .stderr(std::process::Stdio::piped());
            let outp = match cmd.output() {
                Ok(o) => o,
                Err(e) => {
                    rep.inconclusive(json!({"why": format!("spawn: {e}"), "batch": only}));
                    break;
                }
            };
            rep.count("deep.children");
            let child_rep: Option<Value> = std::fs::read_to_string(&out).ok().and_then(|t| serde_json::from_str(&t).ok());
            let _ = std::fs::remove_file(&out);
            if outp.status.success() {
                match child_rep {
                    Some(cr) => merge_child(rep, &cr),
                    None => rep.inconclusive(json!({"why": "child exited 0 without a report", "batch": only})),
                }
                let _ = std::fs::remove_file(&caselog);
                break;
            }
            use std::os::unix::process::ExitStatusExt;
            let stderr = String::from_utf8_lossy(&outp.stderr).to_string();
            let class = if stderr.contains("has overflowed its stack") {
                "stack_overflow".to_string()
            } else if let Some(s) = outp.status.signal() {
                signal_name(s)
            } else {
                format!("exit{}", outp.status.code().unwrap_or(-1))
            };
            let case: Option<Value> = std::fs::read_to_string(&caselog).ok().and_then(|t| serde_json::from_str(&t).ok());
            let _ = std::fs::remove_file(&caselog);
            let died_at = case.as_ref().and_then(|cv| {
                pending.iter().position(|c| {
                    cv["family"].as_str() == Some(c.family)
                        && cv["kind"].as_str() == Some(c.kind)
                        && cv["what"].as_str() == Some(c.what)
                        && cv["stack"].as_u64() == Some(c.stack as u64)
                })
            });
            rep.count("deep.children.died");
            let tail: String = stderr.lines().rev().take(3).collect::<Vec<_>>().join(" | ");
            match (died_at, case) {
                (Some(i), Some(cv)) => {
                    let c = pending[i].clone();
                    rep.violation(
                        format!("C19:{}:crash:{class}:{}.{}", c.what, c.family, c.kind),
                        format!(
                            "child process died ({:?}) in deep case {} (stack {} MiB; 0 = 1 GiB svh thread): {}",
                            outp.status,
                            cv,
                            c.stack >> 20,
                            tail
                        ),
                        cv,
                    );
                    // the combinations before the dead one completed, but their report is lost
                    // with the child: re-run them (cheap), then resume behind the dead one
                    let redo: Vec<Combo> = pending[..i].to_vec();
                    pending.drain(..=i);
                    if !redo.is_empty() {
                        let mut again = redo;
                        again.append(&mut pending);
                        pending = again;
                    }
                }
                _ => {
                    rep.inconclusive(json!({"why": "child died and its case log is unusable", "batch": only, "stderr": tail}));
                    pending.remove(0);
                }
            }
        }
    }
    let _ = std::fs::remove_dir_all(&dir);
}

fn run_deep(ctx: &Ctx, rep: &mut Report) {
    let mut combos = all_combos(ctx);
    if let Some(only) = ctx.arg("only") {
        let want: Vec<&str> = only.split(',').collect();
        combos.retain(|c| want.contains(&c.id().as_str()));
    }
    // shards split the combinations
    if ctx.shards > 1 {
        combos = combos.into_iter().enumerate().filter(|(i, _)| i % ctx.shards == ctx.shard).map(|(_, c)| c).collect();
    }
    // isolation is the default: on a tree with an unguarded recursion the in-process form
    // dies at the first such case
    if ctx.arg("isolate") != Some("0") {
        deep_isolated(ctx, rep, &combos);
        rep.require("deep.children", 1);
    } else {
        deep_in_process(ctx, rep, &combos);
    }
    rep.require("deep.depth.le128", 1);
    rep.require("deep.depth.gt2000", 1);
    rep.note(
        "deep mode: every (family, kind, entry point) at depths 100..5000 (jq ..10000; JSON also 20000 in the \
         thorough tier) on the 1 GiB svh thread, an 8 MiB thread and a 2 MiB thread (std default). Default is \
         --isolate 1 (child process per (stack, family, entry point) batch, a dead child = violation \
         C19:<entry point>:crash:<class>:<family>.<kind>); --isolate 0 runs in-process and relies on --caselog. \
         Documented limits: json::validate and yaml::validate report NestingTooDeep past 128; YamlIndex::build past \
         128 for flow / compact nesting; jq::parse reports a ParseError past 256 (its doc comment says 256 levels \
         are safe on the 8 MiB main thread in debug and release, but *not* guaranteed on 2 MiB in debug builds: a \
         2 MiB debug-build overflow of jq_parse would be documented behaviour; release builds are checked here).",
    );
}

// ---------------------------------------------------------------------------------------
// entry

fn notes(rep: &mut Report) {
    rep.note(
        "excluded documented panics: JsonIndex::build / LineIndex::build / DsvIndexLightweight::new / BalancedParens::new \
         on inputs > u32::MAX bytes (inputs here <= 12.5 MB); *::from_parts / from_bytes constructors (caller-supplied \
         index words, not input-driven); YamlNumber::new (caller-supplied range); YamlCursor::resolve_alias_target_cursor \
         and the typed accessors behind resolve_alias_chain panic past 65 536 alias hops (needs > 300 KB of anchors; \
         normal-mode inputs are <= 64 KiB, so out of the explored scale, per DESIGN §5 C19); OwnedValue::to_json / \
         to_owned / collect_owned / assert_value_tree_depth panic past depth 384 by documented design (#1005) and are \
         not called: this leg walks cursors iteratively and prints only through the streaming writers.",
    );
    rep.note(
        "output goes to a sink that fails after 1 MiB (like a closed pipe), so alias bombs end in a reported \
         fmt::Error; to_json()/to_json_document() (unbounded String) run only when the bounded run stayed <= 256 KiB.",
    );
    rep.note(
        "DSV configs use pairwise distinct delimiter / quote / newline bytes (equal bytes are not a meaningful config).",
    );
}

pub fn run(ctx: &Ctx) -> Report {
    let mut rep = Report::new("C19", "c19");
    rep.rule = "case = (entry-point family, input bytes [, DSV config]); every call must return. Non-trivial = the \
                index/parse exposes >= 2 nodes / fields / structural positions (something was traversed) or, for \
                deep mode, each (kind, entry point, stack, depth); distinct by hash(family, bytes)"
        .into();
    notes(&mut rep);
    let minimise = ctx.arg("ddmin").map(|v| v != "0").unwrap_or(true) && !ctx.tiny();
    let mut run = Runner { log: CaseLog::open(ctx), minimised: BTreeMap::new(), minimise };

    if let Some(rp) = &ctx.replay {
        if rp["ep"].as_str() == Some("deep") {
            let family = rp["family"].as_str().unwrap_or("json");
            let kind = rp["kind"].as_str().unwrap_or("arr");
            let what = static_what(rp["what"].as_str().unwrap_or("json_walk"));
            let depth = rp["depth"].as_u64().unwrap_or(100) as usize;
            let stack = rp["stack"].as_u64().unwrap_or(0) as usize;
            let kind_s = soup::DEEP_JSON_KINDS
                .iter()
                .chain(soup::DEEP_YAML_KINDS)
                .chain(soup::DEEP_JQ_KINDS)
                .copied()
                .find(|k| *k == kind)
                .unwrap_or("arr");
            let fam_s = ["json", "yaml", "jq"].into_iter().find(|f| *f == family).unwrap_or("json");
            let (fam, bytes) = deep_input(fam_s, kind_s, depth);
            let (fails, o) = run_deep_case(&fam, &bytes, what, stack);
            o.flush(&mut rep);
            for f in fails {
                rep.violation(f.sig(), f.msg.clone(), rp.clone());
            }
            return rep;
        }
        if let Some(fam) = family_from(rp) {
            let bytes = unhex(rp["hex"].as_str().unwrap_or(""));
            run.check(&mut rep, &fam, &bytes, What::All, "replay");
            if let Some(m) = rp["min_hex"].as_str() {
                run.check(&mut rep, &fam, &unhex(m), What::All, "replay_min");
            }
        } else {
            rep.inconclusive(json!({"why": "unrecognised replay object"}));
        }
        return rep;
    }

    if ctx.arg("mode") == Some("deep") {
        run_deep(ctx, &mut rep);
        return rep;
    }

    let root = Rng::new(ctx.shard_seed());
    let jc = json_corpora();
    let yc = yaml_corpora();

    // exhaustive single-byte edits and truncations of tiny documents (first shard only)
    if ctx.shard == 0 && !ctx.tiny() {
        let hot_j = gj::JSON_HOT_BYTES;
        let hot_y = soup::YAML_HOT_BYTES;
        for (fam, docs, hot) in [
            (Family::Json, TINY_JSON, hot_j),
            (Family::Yaml, TINY_YAML, hot_y),
            (Family::Dsv(b',', b'"', b'\n'), TINY_DSV, &b",\"\n\r\x00\xff a"[..]),
        ] {
            let take = if ctx.thorough() { docs.len() } else { 1 };
            for d in docs.iter().take(take) {
                let d = d.as_bytes();
                for at in 0..=d.len() {
                    run.check(&mut rep, &fam, &d[..at], What::All, "tiny_trunc");
                    run.check(&mut rep, &fam, &d[at..], What::All, "tiny_suffix");
                }
                for at in 0..d.len() {
                    let mut del = d.to_vec();
                    del.remove(at);
                    run.check(&mut rep, &fam, &del, What::All, "tiny_delete");
                    for &h in hot {
                        if h != d[at] {
                            let mut m = d.to_vec();
                            m[at] = h;
                            run.check(&mut rep, &fam, &m, What::All, "tiny_replace");
                        }
                    }
                    if ctx.thorough() {
                        for &h in hot {
                            let mut m = d.to_vec();
                            m.insert(at, h);
                            run.check(&mut rep, &fam, &m, What::All, "tiny_insert");
                        }
                    }
                }
                rep.count("exhaustive.docs");
            }
        }
        rep.exhaustive.push(
            "every truncation, suffix, single-byte deletion and single-byte replacement by each indicator byte of \
             the built-in tiny JSON / YAML / DSV documents (all of them + insertions in the thorough tier)"
                .into(),
        );
    }

    // `--fam json|yaml|dsv|jq` restricts the normal workload to one family
    let fam_on = |f: &str| ctx.arg("fam").map(|w| w == f).unwrap_or(true);
    let mut r = root.fork(1);
    for i in 0..if fam_on("json") { ctx.n(36_000, 1_000_000, 30) } else { 0 } {
        let (b, origin) = gen_json_case(&mut r, ctx, &jc);
        run.check(&mut rep, &Family::Json, &b, What::All, origin);
        if i < 2 {
            rep.sample(json!({"family": "json", "origin": origin, "input": show_bytes(&b)}));
        }
    }
    let mut r = root.fork(2);
    for i in 0..if fam_on("yaml") { ctx.n(30_000, 800_000, 30) } else { 0 } {
        let (b, origin) = gen_yaml_case(&mut r, ctx, &yc);
        run.check(&mut rep, &Family::Yaml, &b, What::All, origin);
        if i < 2 {
            rep.sample(json!({"family": "yaml", "origin": origin, "input": show_bytes(&b)}));
        }
    }
    let mut r = root.fork(3);
    for i in 0..if fam_on("dsv") { ctx.n(30_000, 800_000, 25) } else { 0 } {
        let (b, cfg, origin) = gen_dsv_case(&mut r, ctx);
        run.check(&mut rep, &Family::Dsv(cfg.0, cfg.1, cfg.2), &b, What::All, origin);
        if i < 1 {
            rep.sample(json!({"family": "dsv", "cfg": [cfg.0, cfg.1, cfg.2], "origin": origin, "input": show_bytes(&b)}));
        }
    }
    let mut r = root.fork(4);
    for i in 0..if fam_on("jq") { ctx.n(40_000, 1_000_000, 24) } else { 0 } {
        let (p, origin) = gen_jq_case(&mut r, ctx);
        run.check(&mut rep, &Family::Jq, p.as_bytes(), What::All, origin);
        if i < 1 {
            rep.sample(json!({"family": "jq", "origin": origin, "program": p}));
        }
    }
    run.log.write("{\"ep\":\"none\"}");

    if !ctx.tiny() && ctx.arg("fam").is_none() {
        rep.require("cases.json", 5_000);
        rep.require("cases.yaml", 5_000);
        rep.require("cases.dsv", 5_000);
        rep.require("cases.jq", 5_000);
        rep.require("json.value.error", 200);
        rep.require("json.value.string.err", 200);
        rep.require("json.raw.none", 200);
        rep.require("json.validate.ok", 200);
        rep.require("json.validate.err", 2_000);
        rep.require("yaml.build.ok", 1_000);
        rep.require("yaml.build.err", 1_000);
        rep.require("yaml.validate.ok", 100);
        rep.require("yaml.value.alias", 50);
        rep.require("yaml.value.string.err", 20);
        rep.require("yaml.node.anchor", 100);
        rep.require("yaml.node.tag", 100);
        rep.require("dsv.multi_row", 1_000);
        rep.require("dsv.multi_field", 1_000);
        rep.require("jq.parse.ok", 500);
        rep.require("jq.parse.err", 2_000);
    }
    rep
}
