//! C21 — DSV rows and fields follow quote-aware splitting.
//!
//! Oracle: `model::dsv::split` (rows at record separators outside quotes; a final separator
//! opens no extra row; every row has >= 1 field; empty fields kept, also at the end of a row;
//! raw bytes). Compared: `Dsv::rows()` -> `fields()`, `row_count()` (documented as the newline
//! count), `row(n)` and `DsvRow::get(i)` for all n, i incl. out of range, `DsvRef`, cursor
//! walks (`next_field`, `next_row`, `goto_row`, `current_field`, `position`) and the
//! metamorphic rule (appending a record separator to a non-empty balanced-quote text that does
//! not end with one changes neither rows nor fields).
//!
//! Failure classes are kept narrow: `trailing_empty_field_no_final_sep` is used only when the
//! text lacks a final separator, the oracle's last field is the empty field at the end of the
//! text, and the observed answer is exactly "that one field is missing"; everything else is
//! `mismatch`.
//!
//! `DsvCursor::next_field` is position based and documented as "false if at end of data": the
//! step onto the empty field that starts at the very end of the text lands *on* the end of
//! data, so `true` and `false` are both accepted there (counted), and only the resulting
//! position / field are checked.

use crate::gen::dsv as g;
use crate::model::dsv::{self as m, Cfg, Span, Split};
use crate::report::{catch, hex, panic_sig, show_bytes, unhex, Ctx, Report};
use crate::rng::{fnv, mix, Rng};
use serde_json::{json, Value};
use succinctly::dsv::{Dsv, DsvConfig, DsvRef};

const TRAIL: &str = "trailing_empty_field_no_final_sep";

fn lib_cfg(c: Cfg) -> DsvConfig {
    DsvConfig { delimiter: c.delim, quote_char: c.quote, newline: c.sep }
}

fn replay_of(text: &[u8], c: Cfg) -> Value {
    json!({"kind": "case", "text_hex": hex(text), "delim": c.delim, "quote": c.quote, "sep": c.sep})
}

type Rows = Vec<Vec<Vec<u8>>>;

fn want_rows(text: &[u8], sp: &Split) -> Rows {
    sp.rows.iter().map(|r| r.iter().map(|&(a, b)| text[a..b].to_vec()).collect()).collect()
}

/// The defect precondition: no final separator and the last field of the last row is the
/// empty field sitting at the very end of the text.
fn has_trailing_empty(text: &[u8], sp: &Split) -> bool {
    !sp.final_sep
        && sp.rows.last().and_then(|r| r.last()).map(|&(a, b)| a == text.len() && b == text.len()).unwrap_or(false)
}

/// `got` equals `want` with exactly the last field of the last row removed.
fn is_trailing_loss(got: &Rows, want: &Rows) -> bool {
    if got.len() != want.len() || want.is_empty() {
        return false;
    }
    let last = want.len() - 1;
    got[..last] == want[..last]
        && want[last].len() >= 2
        && got[last].len() + 1 == want[last].len()
        && got[last][..] == want[last][..want[last].len() - 1]
}

fn short(rows: &Rows) -> String {
    let mut s = String::new();
    for (i, r) in rows.iter().enumerate().take(6) {
        if i > 0 {
            s.push_str(" | ");
        }
        s.push_str(&format!("{:?}", r.iter().take(8).map(|f| String::from_utf8_lossy(f).into_owned()).collect::<Vec<_>>()));
    }
    if rows.len() > 6 {
        s.push_str(&format!(" … ({} rows)", rows.len()));
    }
    s
}

/// Drain `rows()` -> `fields()` with iteration caps so a non-terminating iterator is reported
/// instead of hanging the monitor.
fn iterate<'a>(dsv_rows: impl Iterator<Item = succinctly::dsv::DsvRow<'a>>, cap: usize) -> Result<Rows, &'static str> {
    let mut out: Rows = Vec::new();
    for row in dsv_rows {
        if out.len() > cap {
            return Err("rows");
        }
        let mut fs = Vec::new();
        for f in row.fields() {
            if fs.len() > cap {
                return Err("fields");
            }
            fs.push(f.to_vec());
        }
        out.push(fs);
    }
    Ok(out)
}

fn collect_fields(row: &succinctly::dsv::DsvRow<'_>, cap: usize) -> Option<Vec<Vec<u8>>> {
    let mut fs = Vec::new();
    for f in row.fields() {
        if fs.len() > cap {
            return None;
        }
        fs.push(f.to_vec());
    }
    Some(fs)
}

thread_local! {
    static SEEN: std::cell::RefCell<std::collections::HashMap<String, u32>> = std::cell::RefCell::new(Default::default());
}

struct Case<'a> {
    text: &'a [u8],
    c: Cfg,
    sp: Split,
    want: Rows,
    trailing: bool,
}

impl Case<'_> {
    fn viol(&self, rep: &mut Report, api: &str, class: &str, msg: String) {
        // `Report` keeps 3 witnesses per signature; skip building replays it would drop
        let sig = format!("C21:{api}:{class}");
        let n = SEEN.with(|m| {
            let mut m = m.borrow_mut();
            let k = m.entry(sig.clone()).or_insert(0u32);
            *k += 1;
            *k
        });
        let rp = if n <= 3 { replay_of(self.text, self.c) } else { Value::Null };
        rep.violation(sig, msg, rp);
    }
}

fn check_rows_fields(rep: &mut Report, cs: &Case, api: &str, got: Result<Rows, &'static str>) -> bool {
    rep.eval();
    match got {
        Err(which) => {
            cs.viol(rep, api, "nonterminating", format!("{which} iterator exceeded text length + 2 items"));
            false
        }
        Ok(got) => {
            if got == cs.want {
                return true;
            }
            let class = if cs.trailing && is_trailing_loss(&got, &cs.want) { TRAIL } else { "mismatch" };
            cs.viol(rep, api, class, format!("got {} ; quote-aware split gives {}", short(&got), short(&cs.want)));
            false
        }
    }
}

/// All checks for one (text, configuration). Returns false if a violation was recorded.
fn check_text(rep: &mut Report, text: &[u8], c: Cfg, r: &mut Rng) -> bool {
    let sp = m::split(text, c);
    // harness self-check: two formulations of the splitter must agree
    if sp.rows != m::split_via_marks(text, c) {
        rep.inconclusive(json!({"why": "model::dsv::split and split_via_marks disagree (harness suspect)", "replay": replay_of(text, c)}));
        return true;
    }
    let want = want_rows(text, &sp);
    let trailing = has_trailing_empty(text, &sp);
    let cs = Case { text, c, sp, want, trailing };
    let cap = text.len() + 2;
    let cfg = lib_cfg(c);
    let mut ok = true;

    let dsv = match catch(|| Dsv::parse_with_config(text, &cfg)) {
        Ok(d) => d,
        Err(p) => {
            cs.viol(rep, "parse", &format!("panic:{}", panic_sig(&p)), p);
            return false;
        }
    };
    let dsv_ref: &Dsv = &dsv;

    // 1. iteration
    match catch(|| iterate(dsv_ref.rows(), cap)) {
        Ok(got) => ok &= check_rows_fields(rep, &cs, "rows_fields", got),
        Err(p) => {
            ok = false;
            cs.viol(rep, "rows_fields", &format!("panic:{}", panic_sig(&p)), p);
        }
    }

    // 2. row_count: documented as "Number of rows (newline count)"
    rep.eval();
    let rc = dsv.row_count();
    if rc != cs.sp.newlines {
        ok = false;
        cs.viol(rep, "row_count", "mismatch", format!("row_count() = {rc}, unquoted record separators = {}", cs.sp.newlines));
    }
    if rc != cs.want.len() {
        rep.count("row_count.differs_from_iterated_rows(no_final_sep)");
    }

    // 3. random access: row(n) for all n incl. out of range, get(i) for all i incl. out of range
    let nrows = cs.want.len();
    let mut ns: Vec<usize> = (0..nrows + 3).collect();
    ns.extend([usize::MAX, usize::MAX - 1, 1usize << 32, nrows + 1000]);
    for &n in &ns {
        rep.eval();
        let row = match catch(|| dsv_ref.row(n)) {
            Ok(x) => x,
            Err(p) => {
                ok = false;
                cs.viol(rep, "row_n", &format!("panic:{}", panic_sig(&p)), format!("row({n}): {p}"));
                continue;
            }
        };
        if n >= nrows {
            rep.count("row_n.out_of_range");
        }
        match (row, n < nrows) {
            (None, false) => {}
            (Some(_), false) => {
                ok = false;
                cs.viol(rep, "row_n", "exists_beyond_last", format!("row({n}) is Some but the text has {nrows} rows"));
            }
            (None, true) => {
                ok = false;
                cs.viol(rep, "row_n", "missing", format!("row({n}) is None but the text has {nrows} rows"));
            }
            (Some(row), true) => {
                let wrow = &cs.want[n];
                let is_last = n + 1 == nrows;
                // fields() of the randomly accessed row
                rep.eval();
                match catch(|| collect_fields(&row, cap)) {
                    Ok(Some(got)) => {
                        if &got != wrow {
                            ok = false;
                            let lost = cs.trailing && is_last && got.len() + 1 == wrow.len() && got[..] == wrow[..wrow.len() - 1];
                            cs.viol(rep, "row_n_fields", if lost { TRAIL } else { "mismatch" },
                                format!("row({n}).fields() = {} ; want {}", short(&vec![got]), short(&vec![wrow.clone()])));
                        }
                    }
                    Ok(None) => {
                        ok = false;
                        cs.viol(rep, "row_n_fields", "nonterminating", format!("row({n}).fields() exceeded {cap} items"));
                    }
                    Err(p) => {
                        ok = false;
                        cs.viol(rep, "row_n_fields", &format!("panic:{}", panic_sig(&p)), p);
                    }
                }
                // get(i)
                let mut is: Vec<usize> = (0..wrow.len() + 3).collect();
                is.extend([usize::MAX, 1usize << 32]);
                for &i in &is {
                    rep.eval();
                    let w = wrow.get(i).map(|f| f.as_slice());
                    if w.is_none() {
                        rep.count("get.out_of_range");
                    }
                    match catch(|| row.get(i)) {
                        Ok(got) => {
                            if got != w {
                                ok = false;
                                let lost = cs.trailing && is_last && i + 1 == wrow.len() && got.is_none();
                                cs.viol(rep, "row_get", if lost { TRAIL } else if w.is_none() { "some_beyond_last_column" } else { "mismatch" },
                                    format!("row({n}).get({i}) = {:?} ; want {:?}", got.map(String::from_utf8_lossy), w.map(String::from_utf8_lossy)));
                            }
                        }
                        Err(p) => {
                            ok = false;
                            cs.viol(rep, "row_get", &format!("panic:{}", panic_sig(&p)), p);
                        }
                    }
                }
            }
        }
    }

    // 3b. get(i) on rows obtained by iteration must agree with iteration too
    if let Ok(v) = catch(|| {
        let mut bad: Option<(usize, usize)> = None;
        for (n, row) in dsv_ref.rows().enumerate().take(cap) {
            if n >= cs.want.len() {
                break;
            }
            for i in 0..cs.want[n].len() + 2 {
                let w = cs.want[n].get(i).map(|f| f.as_slice());
                let lost = cs.trailing && n + 1 == cs.want.len() && i + 1 == cs.want[n].len();
                if row.get(i) != w && !lost && bad.is_none() {
                    bad = Some((n, i));
                }
            }
        }
        bad
    }) {
        rep.eval();
        if let Some((n, i)) = v {
            ok = false;
            cs.viol(rep, "iter_row_get", "mismatch", format!("rows().nth({n}).get({i}) differs from the quote-aware split"));
        }
    }

    // 4. borrowed form with the scalar engine's index
    {
        let index = succinctly::dsv::build_index_scalar(text, &cfg);
        let dr = DsvRef::new(text, &index);
        match catch(|| iterate(dr.rows(), cap)) {
            Ok(got) => ok &= check_rows_fields(rep, &cs, "dsvref_rows_fields", got),
            Err(p) => {
                ok = false;
                cs.viol(rep, "dsvref_rows_fields", &format!("panic:{}", panic_sig(&p)), p);
            }
        }
        if dr.row_count() != cs.sp.newlines || dr.row(nrows).is_some() || (nrows > 0 && dr.row(nrows - 1).is_none()) {
            ok = false;
            cs.viol(rep, "dsvref_row", "mismatch", "DsvRef row_count/row(n) disagree with the split".into());
        }
    }

    // 5. cursor walks
    ok &= cursor_walks(rep, &cs, dsv_ref, r);

    // 6. metamorphic: append a record separator
    if !text.is_empty() && cs.sp.balanced && *text.last().unwrap() != c.sep {
        rep.count("metamorphic.applied");
        let mut t2 = text.to_vec();
        t2.push(c.sep);
        let d2 = Dsv::parse_with_config(&t2, &cfg);
        let d2r: &Dsv = &d2;
        let a = catch(|| iterate(dsv_ref.rows(), cap));
        let b = catch(|| iterate(d2r.rows(), cap + 1));
        rep.eval();
        match (a, b) {
            (Ok(Ok(a)), Ok(Ok(b))) => {
                if a != b {
                    ok = false;
                    // exactly: the appended separator makes the lost trailing empty field appear
                    let class = if cs.trailing && is_trailing_loss(&a, &b) && b == cs.want { TRAIL } else { "mismatch" };
                    cs.viol(rep, "metamorphic_append_sep", class,
                        format!("rows before: {} ; after appending a separator: {}", short(&a), short(&b)));
                }
            }
            _ => {
                ok = false;
                cs.viol(rep, "metamorphic_append_sep", "panic_or_nonterminating", "iteration failed on text or text+separator".into());
            }
        }
    }
    ok
}

/// Cursor model: flat list of fields (in row order); the cursor sits on one of them.
fn cursor_walks(rep: &mut Report, cs: &Case, dsv: &Dsv, r: &mut Rng) -> bool {
    let len = cs.text.len();
    let flat: Vec<(Span, usize)> = cs.sp.rows.iter().enumerate().flat_map(|(ri, row)| row.iter().map(move |&s| (s, ri))).collect();
    let row_first: Vec<usize> = {
        let mut v = Vec::new();
        let mut k = 0usize;
        for row in &cs.sp.rows {
            v.push(k);
            k += row.len();
        }
        v
    };
    let mut ok = true;

    let res = catch(|| {
        let mut out: Vec<(String, String, String)> = Vec::new(); // (api, class, msg)
        let on_field = |cur: &succinctly::dsv::DsvCursor<'_>, k: usize, out: &mut Vec<(String, String, String)>, ctx: &str| {
            let ((a, b), _) = flat[k];
            if cur.position() != a {
                out.push(("cursor_position".into(), "mismatch".into(), format!("{ctx}: position {} want {a}", cur.position())));
            }
            let f = cur.current_field();
            if f != &cs.text[a..b] {
                out.push(("cursor_current_field".into(), "mismatch".into(),
                    format!("{ctx}: current_field {:?} want {:?}", String::from_utf8_lossy(f), String::from_utf8_lossy(&cs.text[a..b]))));
            }
            if a < len && cur.at_end() {
                out.push(("cursor_at_end".into(), "mismatch".into(), format!("{ctx}: at_end() on a field starting at {a} < {len}")));
            }
        };
        // is moving from field k to k+1 the step onto the trailing empty field?
        let onto_trailing = |k: usize| cs.trailing && k + 2 == flat.len();

        // (a) flat walk with next_field
        let mut cur = dsv.cursor();
        if flat.is_empty() {
            if cur.next_field() || cur.next_row() || cur.goto_row(0) || !cur.at_end() {
                out.push(("cursor_empty".into(), "mismatch".into(), "empty text: a move succeeded or at_end() is false".into()));
            }
        } else {
            let mut k = 0usize;
            loop {
                on_field(&cur, k, &mut out, "next_field walk");
                let got = cur.next_field();
                if onto_trailing(k) {
                    // The next field is the empty field at the very end of the text. The cursor
                    // API is position based and documents `false if at end of data`; that
                    // position *is* the end of data, so both answers are documented behaviour.
                    out.push(("__count".into(), format!("cursor.next_field_onto_trailing_empty.{got}"), String::new()));
                    if cur.position() != len || !cur.current_field().is_empty() {
                        out.push(("cursor_position".into(), "mismatch".into(),
                            format!("after stepping over the final delimiter: position {} (text length {len}), field {:?}", cur.position(), cur.current_field())));
                    }
                    if cur.next_field() {
                        out.push(("cursor_next_field".into(), "mismatch".into(), "next_field() true past the last field".into()));
                    }
                    break;
                }
                let want = k + 1 < flat.len();
                if got != want {
                    out.push(("cursor_next_field".into(), "mismatch".into(), format!("next_field() from field #{k} = {got}, want {want}")));
                    break;
                }
                if !want {
                    break;
                }
                k += 1;
            }
            // (b) row walk with next_row
            let mut cur = dsv.cursor();
            let mut ri = 0usize;
            loop {
                on_field(&cur, row_first[ri], &mut out, "next_row walk");
                let got = cur.next_row();
                let want = ri + 1 < row_first.len();
                if got != want {
                    out.push(("cursor_next_row".into(), "mismatch".into(), format!("next_row() from row {ri} = {got}, want {want}")));
                    break;
                }
                if !want {
                    break;
                }
                ri += 1;
            }
        }
        out
    });
    rep.evals(flat.len() as u64 + cs.sp.rows.len() as u64 + 1);
    match res {
        Ok(v) => {
            for (api, class, msg) in v {
                if api == "__count" {
                    rep.count(&class);
                    continue;
                }
                ok = false;
                cs.viol(rep, &api, &class, msg);
            }
        }
        Err(p) => {
            ok = false;
            cs.viol(rep, "cursor_walk", &format!("panic:{}", panic_sig(&p)), p);
        }
    }

    // (c) random operation sequence
    if !flat.is_empty() {
        let nops = 12 + r.below(40);
        let ops: Vec<(u8, usize)> = (0..nops)
            .map(|_| match r.below(10) {
                0..=4 => (0u8, 0usize),
                5..=6 => (1, 0),
                _ => (2, r.below(cs.sp.rows.len() + 2)),
            })
            .collect();
        let nrows = cs.sp.rows.len();
        let res = catch(|| {
            let mut out: Vec<(String, String, String)> = Vec::new();
            let mut cur = dsv.cursor();
            let mut k: Option<usize> = Some(0);
            for (oi, &(op, arg)) in ops.iter().enumerate() {
                let Some(kk) = k else {
                    // cursor state after a failed move is unspecified: re-position
                    let n = arg % nrows;
                    if !cur.goto_row(n) {
                        out.push(("cursor_goto_row".into(), "mismatch".into(), format!("goto_row({n}) = false, text has {nrows} rows (op #{oi})")));
                        break;
                    }
                    k = Some(row_first[n]);
                    continue;
                };
                let ((a, b), ri) = flat[kk];
                if a == len {
                    // sitting on the trailing empty field: only re-positioning is meaningful
                    k = None;
                    continue;
                }
                if cur.position() != a || cur.current_field() != &cs.text[a..b] {
                    out.push(("cursor_current_field".into(), "mismatch".into(),
                        format!("random walk op #{oi}: position {} field {:?}; want {a} {:?}", cur.position(),
                            String::from_utf8_lossy(cur.current_field()), String::from_utf8_lossy(&cs.text[a..b]))));
                    break;
                }
                match op {
                    0 => {
                        let got = cur.next_field();
                        let want = kk + 1 < flat.len();
                        if cs.trailing && kk + 2 == flat.len() {
                            // stepping onto the empty field at the end of the text: see the flat walk
                            k = None;
                        } else if got != want {
                            out.push(("cursor_next_field".into(), "mismatch".into(), format!("random walk op #{oi}: next_field() = {got}, want {want}")));
                            k = None;
                        } else {
                            k = if want { Some(kk + 1) } else { None };
                        }
                    }
                    1 => {
                        let got = cur.next_row();
                        let want = ri + 1 < nrows;
                        if got != want {
                            out.push(("cursor_next_row".into(), "mismatch".into(), format!("random walk op #{oi}: next_row() = {got}, want {want}")));
                            break;
                        }
                        k = if want { Some(row_first[ri + 1]) } else { None };
                    }
                    _ => {
                        let got = cur.goto_row(arg);
                        let want = arg < nrows;
                        if got != want {
                            out.push(("cursor_goto_row".into(), "mismatch".into(), format!("random walk op #{oi}: goto_row({arg}) = {got}, want {want}")));
                            break;
                        }
                        k = if want { Some(row_first[arg]) } else { None };
                    }
                }
            }
            out
        });
        rep.evals(nops as u64);
        rep.add("cursor.random_ops", nops as u64);
        match res {
            Ok(v) => {
                for (api, class, msg) in v {
                    ok = false;
                    cs.viol(rep, &api, &class, msg);
                }
            }
            Err(p) => {
                ok = false;
                cs.viol(rep, "cursor_walk", &format!("panic:{}", panic_sig(&p)), p);
            }
        }
    }
    ok
}

fn classify(rep: &mut Report, text: &[u8], c: Cfg) -> bool {
    let sp = m::split(text, c);
    let (mb, _) = m::marks(text, c);
    rep.count(if text.is_empty() { "text.empty" } else if sp.final_sep { "text.final_sep" } else { "text.no_final_sep" });
    if has_trailing_empty(text, &sp) {
        rep.count("text.trailing_empty_field_no_final_sep");
    }
    if !sp.balanced {
        rep.count("text.unbalanced_quotes");
    }
    if sp.rows.len() >= 2 {
        rep.count("text.rows_ge_2");
    }
    if sp.rows.iter().any(|r| r.len() >= 2 && r.last().map(|&(a, b)| a == b).unwrap_or(false)) {
        rep.count("row.ends_with_empty_field");
    }
    if sp.rows.iter().any(|r| r.len() == 1 && r[0].0 == r[0].1) {
        rep.count("row.single_empty_field");
    }
    let quoted_special = text.iter().zip(mb.iter()).any(|(&b, &mk)| (b == c.delim || b == c.sep) && !mk);
    if quoted_special {
        rep.count("text.quoted_delim_or_sep");
    }
    if sp.rows.iter().flatten().any(|&(a, b)| b - a >= 128) {
        rep.count("field.spans_zero_marker_word");
    }
    sp.rows.len() >= 2 || sp.rows.iter().any(|r| r.len() >= 2) || quoted_special
}

fn one(rep: &mut Report, text: &[u8], c: Cfg, r: &mut Rng, fam: &str) {
    let nontrivial = classify(rep, text, c);
    check_text(rep, text, c, r);
    rep.count(&format!("family.{fam}"));
    if nontrivial {
        rep.nontrivial(mix(fnv(text), ((c.delim as u64) << 16) | ((c.quote as u64) << 8) | c.sep as u64));
    }
}

pub fn run(ctx: &Ctx) -> Report {
    let mut rep = Report::new("C21", "c21");
    rep.rule = "case = (byte string, distinct (delimiter, quote, record separator) triple); iteration, random \
                access and cursor walks compared with a quote-aware splitter; non-trivial = >= 2 rows, or a row \
                with >= 2 fields, or a delimiter/separator inside quotes; distinct by hash(text, triple)"
        .into();
    rep.assumptions.push(
        "row_count() is checked against its documentation (\"Number of rows (newline count)\"): the number of \
         unquoted record separators. For a text without a final separator this is one less than the number of \
         rows that rows() yields; the property text does not constrain row_count, so this is counted \
         (row_count.differs_from_iterated_rows) and not reported."
            .into(),
    );
    rep.assumptions.push(
        "DsvCursor::next_field stepping over a delimiter that is the last byte of the text may return true or \
         false (documented: false if at end of data); counted as cursor.next_field_onto_trailing_empty.*"
            .into(),
    );
    let mut r = Rng::new(ctx.shard_seed());

    if let Some(rp) = &ctx.replay {
        let text = unhex(rp["text_hex"].as_str().unwrap_or(""));
        let b = |k: &str| rp[k].as_u64().unwrap_or(0) as u8;
        let c = Cfg { delim: b("delim"), quote: b("quote"), sep: b("sep") };
        if c.delim == c.quote || c.delim == c.sep || c.quote == c.sep {
            rep.inconclusive(json!({"why": "replay configuration is not a triple of distinct bytes"}));
            return rep;
        }
        let mut rr = Rng::new(fnv(&text));
        check_text(&mut rep, &text, c, &mut rr);
        return rep;
    }
    let tiny = ctx.tiny();

    // (1) exhaustive: every string over {delim, quote, sep, 'a'} up to a length bound (CSV config)
    let maxlen = ctx.n(7, 9, 3);
    let c = g::csv();
    let sym = [c.delim, c.quote, c.sep, b'a'];
    for l in 0..=maxlen {
        let total = 4usize.pow(l as u32);
        for code in 0..total {
            let mut x = code;
            let text: Vec<u8> = (0..l)
                .map(|_| {
                    let s = sym[x % 4];
                    x /= 4;
                    s
                })
                .collect();
            one(&mut rep, &text, c, &mut r, "exhaustive");
        }
    }
    rep.exhaustive.push(format!("every byte string of length 0..={maxlen} over {{',', '\"', LF, 'a'}} with the CSV configuration"));

    // (2) tables and soups under random / alphabet configurations
    let triples = g::all_triples();
    for i in 0..ctx.n(40_000, 600_000, 12) {
        let c = match r.below(4) {
            0 => g::csv(),
            1 => *r.pick(&triples),
            _ => g::random_cfg(&mut r),
        };
        let (a, b, d, e) = (r.below(7), r.below(4), r.below(4), r.below(if tiny { 3 } else { 12 }));
        let blen = if tiny { r.range(60, 140) } else { g::edge_len(&mut r, 400) };
        let slen = if tiny { r.below(40) } else { r.small_len(300) };
        let text = match r.below(6) {
            0 | 1 => g::table(&mut r, c, 1 + e, 6, if tiny { 6 } else { 24 }, a),
            2 => g::table(&mut r, c, 1 + b, 3, if tiny { 10 } else { 200 }, a),
            3 => g::boundary(&mut r, c, blen, a, b, d),
            _ => g::soup(&mut r, c, slen, a),
        };
        one(&mut rep, &text, c, &mut r, "random");
        if i < 2 {
            let sp = m::split(&text, c);
            rep.sample(json!({"text": show_bytes(&text), "delim": c.delim, "quote": c.quote, "sep": c.sep,
                "rows": sp.rows.len(), "fields_row0": sp.rows.first().map(|r| r.len()), "final_sep": sp.final_sep}));
        }
    }

    // (2b) sparse markers: fields / rows spanning several whole 64-byte words without a marker
    for _ in 0..ctx.n(3000, 40_000, 3) {
        let c = if r.bool() { g::csv() } else { g::random_cfg(&mut r) };
        let len = if tiny { r.range(130, 260) } else { r.range(130, 1500) };
        let gap = *r.pick(&[40usize, 90, 150, 300, 700]);
        let text = g::sparse(&mut r, c, len, gap);
        one(&mut rep, &text, c, &mut r, "sparse");
    }

    // (3) the ending classes on purpose, incl. the class from DESIGN §7.3
    for _ in 0..ctx.n(2000, 30_000, 4) {
        let c = if r.bool() { g::csv() } else { g::random_cfg(&mut r) };
        for end in 0..4 {
            let nr = 1 + r.below(4);
            let text = g::table(&mut r, c, nr, 4, 8, end);
            one(&mut rep, &text, c, &mut r, "endings");
        }
    }
    // two written-out samples of the property's own corner
    for (t, note) in [(&b"a,b\n1,2\n"[..], "final separator"), (&b"a,\nb,c"[..], "inner trailing empty field, no final separator")] {
        let sp = m::split(t, c);
        rep.sample(json!({"text": String::from_utf8_lossy(t), "note": note, "oracle_rows": short(&want_rows(t, &sp))}));
    }

    if !tiny {
        rep.require("text.final_sep", 500);
        rep.require("text.no_final_sep", 500);
        rep.require("text.trailing_empty_field_no_final_sep", 100);
        rep.require("text.unbalanced_quotes", 200);
        rep.require("text.quoted_delim_or_sep", 500);
        rep.require("row.ends_with_empty_field", 200);
        rep.require("row.single_empty_field", 200);
        rep.require("field.spans_zero_marker_word", 1000);
        rep.require("metamorphic.applied", 500);
        rep.require("row_n.out_of_range", 1000);
        rep.require("get.out_of_range", 1000);
        rep.require("cursor.random_ops", 10_000);
    }
    rep
}
