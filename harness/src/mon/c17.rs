//! C17 — YAML position tables return the recorded positions under any access order.
//!
//! `YamlIndex::from_parts` is fed arbitrary start / end position sequences (model = the two
//! `Vec<u32>`); one index then receives a random *history* of lookups through
//! `text_pos_by_open_idx`, `text_end_pos_by_open_idx`, `bp_to_text_pos`, `bp_to_text_end_pos`
//! and `open_positions().get`. Every answer is compared with the (history-free) model; a clone
//! taken before any lookup must answer identically, and so must clones of the used index.
//!
//! Rule for a node without a recorded end (end value 0), exactly as the property states:
//! `None`, or an end recorded for an *earlier* node that lies at or before this node's start.

use crate::gen::yamlpos as g;
use crate::report::{catch, panic_sig, Ctx, Report};
use crate::rng::{fnv, mix, Rng};
use serde_json::{json, Value};
use std::collections::BTreeMap;
use succinctly::yaml::YamlIndex;

const APIS: [&str; 5] = ["text_pos_by_open_idx", "text_end_pos_by_open_idx", "bp_to_text_pos", "bp_to_text_end_pos", "open_positions_get"];

#[derive(Clone, Debug)]
struct Case {
    text_len: usize,
    starts: Vec<u32>,
    ends: Vec<u32>,
    bp: Vec<bool>,
    /// (api, open index — translated to a BP position for the bp_* entry points)
    ops: Vec<(u8, usize)>,
}

fn case_json(c: &Case, upto: usize) -> Value {
    json!({
        "kind": "history",
        "text_len": c.text_len,
        "starts": c.starts,
        "ends": c.ends,
        "bp": c.bp.iter().map(|&b| if b { '(' } else { ')' }).collect::<String>(),
        "ops": c.ops[..upto.min(c.ops.len())].iter().map(|&(a, i)| json!([a, i.to_string()])).collect::<Vec<_>>(),
    })
}

fn case_from(v: &Value) -> Option<Case> {
    let arr = |k: &str| -> Option<Vec<u32>> { Some(v[k].as_array()?.iter().map(|x| x.as_u64().unwrap_or(0) as u32).collect()) };
    Some(Case {
        text_len: v["text_len"].as_u64()? as usize,
        starts: arr("starts")?,
        ends: arr("ends")?,
        bp: v["bp"].as_str()?.chars().map(|ch| ch == '(').collect(),
        ops: v["ops"]
            .as_array()?
            .iter()
            .filter_map(|o| Some((o.get(0)?.as_u64()? as u8, o.get(1)?.as_str()?.parse::<usize>().ok()?)))
            .collect(),
    })
}

/// `Report::violation` keeps 3 witnesses per signature; building the (large) replay object for
/// the ones it would drop is wasted work, so count signatures here and pass `Null` afterwards.
struct Seen(std::collections::HashMap<String, u32>);

impl Seen {
    fn viol(&mut self, rep: &mut Report, sig: impl Into<String>, msg: impl Into<String>, replay: impl FnOnce() -> Value) {
        let sig: String = sig.into();
        let k = self.0.entry(sig.clone()).or_insert(0);
        *k += 1;
        let rp = if *k <= 3 { replay() } else { Value::Null };
        rep.violation(sig, msg, rp);
    }
}

fn pack(bits: &[bool]) -> Vec<u64> {
    let mut w = vec![0u64; bits.len().div_ceil(64)];
    for (i, &b) in bits.iter().enumerate() {
        if b {
            w[i / 64] |= 1u64 << (i % 64);
        }
    }
    w
}

fn build(c: &Case) -> YamlIndex {
    let ib = vec![0u64; c.text_len.div_ceil(64)];
    let bpw = pack(&c.bp);
    let cont = vec![0u64; bpw.len()];
    YamlIndex::from_parts(
        ib,
        c.text_len,
        bpw,
        c.bp.len(),
        Vec::new(),
        0,
        c.starts.clone(),
        c.ends.clone(),
        cont,
        BTreeMap::new(),
        BTreeMap::new(),
        BTreeMap::new(),
    )
}

fn ask(idx: &YamlIndex, api: u8, arg: usize) -> Option<usize> {
    match api {
        0 => idx.text_pos_by_open_idx(arg),
        1 => idx.text_end_pos_by_open_idx(arg),
        2 => idx.bp_to_text_pos(arg),
        3 => idx.bp_to_text_end_pos(arg),
        _ => idx.open_positions().get(arg).map(|p| p as usize),
    }
}

/// Verdict on one answer. `Ok(class)` = acceptable (class for counters), `Err(class)` = not.
fn judge(c: &Case, is_end: bool, i: usize, got: Option<usize>) -> Result<&'static str, &'static str> {
    let n = c.starts.len();
    if i >= n {
        return if got.is_none() { Ok("out_of_range_none") } else { Err("out_of_range_some") };
    }
    if !is_end {
        return if got == Some(c.starts[i] as usize) {
            Ok("start")
        } else if got.is_none() && c.starts[i] as usize == c.text_len && c.text_len % 64 == 0 {
            // the start needs bit `text_len` of a bitmap that has text_len/64 words
            Err("start_eq_text_len_at_word_boundary")
        } else {
            Err("mismatch")
        };
    }
    let e = c.ends[i];
    if e != 0 {
        return if got == Some(e as usize) { Ok("end_recorded") } else { Err("recorded_end_mismatch") };
    }
    match got {
        None => Ok("end_unrecorded_none"),
        Some(v) => {
            let earlier = c.ends[..i].iter().any(|&x| x != 0 && x as usize == v);
            if !earlier {
                Err("unrecorded_not_an_earlier_end")
            } else if v <= c.starts[i] as usize {
                Ok("end_unrecorded_inherited")
            } else {
                Err("unrecorded_inherits_end_after_start")
            }
        }
    }
}

struct Enc {
    open_compact: bool,
    end_compact: bool,
}

/// Encodings as the documentation defines them (data-derived, cross-checked with
/// `open_positions().is_compact()` where the library exposes it).
fn encodings(c: &Case) -> Enc {
    let open_compact = c.starts.windows(2).all(|w| w[0] <= w[1]);
    let mut prev = 0u32;
    let mut end_compact = true;
    for &e in &c.ends {
        if e != 0 {
            if e < prev {
                end_compact = false;
            }
            prev = e;
        }
    }
    Enc { open_compact, end_compact }
}

/// Number of distinct values among the first i+1 entries of a non-decreasing sequence.
fn distinct_rank(vals: &[u32]) -> Vec<u32> {
    let mut out = Vec::with_capacity(vals.len());
    let mut k = 0u32;
    for i in 0..vals.len() {
        if i == 0 || vals[i] != vals[i - 1] {
            k += 1;
        }
        out.push(k);
    }
    out
}

/// Run one case (sequences + history). Returns false if a violation was recorded.
fn check_case(rep: &mut Report, seen: &mut Seen, c: &Case, count_classes: bool, sweep_cap: usize) -> bool {
    let n = c.starts.len();
    let enc = encodings(c);
    let opens: Vec<usize> = c.bp.iter().enumerate().filter(|(_, &b)| b).map(|(i, _)| i).collect();
    if opens.len() != n || c.ends.len() != n {
        rep.inconclusive(json!({"why": "malformed case: BP opens / ends length differ from number of nodes"}));
        return true;
    }
    let idx = match catch(|| build(c)) {
        Ok(i) => i,
        Err(p) => {
            seen.viol(rep, format!("C17:from_parts:panic:{}", panic_sig(&p)), p, || case_json(c, 0));
            return false;
        }
    };
    rep.eval();
    if idx.open_positions().is_compact() != enc.open_compact || idx.open_positions().len() != n {
        seen.viol(rep, 
            "C17:open_positions:encoding_choice",
            format!("is_compact() = {}, len() = {}; starts monotone = {}, n = {n}", idx.open_positions().is_compact(), idx.open_positions().len(), enc.open_compact),
            || case_json(c, 0),
        );
        return false;
    }
    let pristine = idx.clone();
    let bp_arg = |i: usize| -> usize { if i < n { opens[i] } else { c.bp.len().saturating_add(i - n) } };
    let enc_name = |api: u8| -> &'static str {
        let is_end = api == 1 || api == 3;
        if (is_end && enc.end_compact) || (!is_end && enc.open_compact) {
            "compact"
        } else {
            "dense"
        }
    };
    // distinct ranks (compact encodings only) for the sample-boundary counters
    let srank = if enc.open_compact { distinct_rank(&c.starts) } else { Vec::new() };

    let mut ok = true;
    // previous in-range index per underlying table (0 = opens, 1 = ends)
    let mut prev: [Option<usize>; 2] = [None, None];
    let mut prev_oor = [false, false];
    for (oi, &(api, i)) in c.ops.iter().enumerate() {
        let is_end = api == 1 || api == 3;
        let t = is_end as usize;
        let arg = if api == 2 || api == 3 { bp_arg(i) } else { i };
        rep.eval();
        if count_classes {
            let cls = if i >= n {
                "out_of_range"
            } else {
                match prev[t] {
                    None => "cold",
                    Some(p) if i == p + 1 => "sequential",
                    Some(p) if i == p => "repeat",
                    Some(p) if i > p => "forward_gap",
                    _ => "backward",
                }
            };
            rep.count(&format!("hist.{}.{}.{cls}", if is_end { "end" } else { "open" }, enc_name(api)));
            if i < n && prev_oor[t] {
                rep.count("hist.after_out_of_range");
            }
            if i < n && !is_end && enc.open_compact {
                if let Some(p) = prev[t] {
                    if i == p + 1 && c.starts[i] == c.starts[p] {
                        rep.count("hist.open.sequential_duplicate");
                    }
                    if i > p && (c.starts[i] as usize) / 64 >= (c.starts[p] as usize) / 64 + 8 {
                        rep.count("hist.open.forward_scan_ge_8_words");
                    }
                    if i <= p && srank[i] > 256 {
                        rep.count("hist.open.backward_beyond_first_select_sample");
                    }
                    if i <= p && srank[i] % 256 <= 1 && srank[i] > 1 {
                        rep.count("hist.open.backward_at_select_sample_boundary");
                    }
                }
            }
            if is_end && i < n && c.ends[i] == 0 {
                rep.count("q.end.unrecorded");
            }
        }
        let got = match catch(|| ask(&idx, api, arg)) {
            Ok(g) => g,
            Err(p) => {
                ok = false;
                seen.viol(rep, format!("C17:{}:{}:panic:{}", APIS[api as usize], enc_name(api), panic_sig(&p)), p, || case_json(c, oi + 1));
                break;
            }
        };
        match judge(c, is_end, i, got) {
            Ok(cls) => {
                if count_classes {
                    rep.count(&format!("ans.{cls}"));
                }
            }
            Err(cls) => {
                ok = false;
                let want = if i < n { if is_end { c.ends[i] } else { c.starts[i] } } else { 0 };
                seen.viol(rep, 
                    format!("C17:{}:{}:{cls}", APIS[api as usize], enc_name(api)),
                    format!("op #{oi}: {}({arg}) [node {i} of {n}] = {got:?}; recorded {} = {want}{}, text_len {}",
                        APIS[api as usize], if is_end { "end" } else { "start" },
                        if is_end && i < n { format!(", start = {}", c.starts[i]) } else { String::new() }, c.text_len),
                    || case_json(c, oi + 1),
                );
            }
        }
        // a never-queried clone must answer identically (history independence)
        if oi % 5 == 0 {
            rep.eval();
            let fresh = pristine.clone();
            let f = catch(|| ask(&fresh, api, arg));
            if f.as_ref().ok() != Some(&got) {
                ok = false;
                seen.viol(rep, 
                    format!("C17:{}:{}:history_dependent", APIS[api as usize], enc_name(api)),
                    format!("op #{oi}: used index answers {got:?}, never-queried clone answers {f:?} for node {i}"),
                    || case_json(c, oi + 1),
                );
            }
        }
        if i < n {
            prev[t] = Some(i);
            prev_oor[t] = false;
        } else {
            prev_oor[t] = true;
        }
    }

    // clones of the *used* index (cursor state copied): forward and reverse sweeps
    if ok {
        let used_fwd = idx.clone();
        let used_rev = idx.clone();
        // all nodes, or (interpreted runs) an evenly spaced subset in the same order
        let step = (n + 2).div_ceil(sweep_cap.max(1)).max(1);
        let sweep: Vec<usize> = (0..n + 2).filter(|i| i % step == 0 || *i + 3 > n).collect();
        let res = catch(|| {
            let mut bad: Option<(u8, usize, Option<usize>, &'static str)> = None;
            for &i in &sweep {
                for api in [0u8, 1] {
                    let got = ask(&used_fwd, api, i);
                    if let Err(cls) = judge(c, api == 1, i, got) {
                        bad.get_or_insert((api, i, got, cls));
                    }
                }
            }
            for &i in sweep.iter().rev() {
                for api in [3u8, 2] {
                    let got = ask(&used_rev, api, bp_arg(i));
                    if let Err(cls) = judge(c, api == 3, i, got) {
                        bad.get_or_insert((api, i, got, cls));
                    }
                }
            }
            bad
        });
        rep.evals(4 * sweep.len() as u64);
        match res {
            Ok(None) => {}
            Ok(Some((api, i, got, cls))) => {
                ok = false;
                seen.viol(rep, 
                    format!("C17:{}:{}:{cls}", APIS[api as usize], enc_name(api)),
                    format!("sweep on a clone of the used index: node {i} of {n} = {got:?}"),
                    || case_json(c, c.ops.len()),
                );
            }
            Err(p) => {
                ok = false;
                seen.viol(rep, format!("C17:sweep:panic:{}", panic_sig(&p)), p, || case_json(c, c.ops.len()));
            }
        }
    }
    ok
}

fn gen_case(r: &mut Rng, n: usize, text_len: usize, sk: usize, ek: usize, nops: usize) -> Case {
    // a start equal to text_len needs IB bit text_len; see the note in run()
    let starts = g::gen_starts(r, n, text_len, sk);
    let ends = g::gen_ends(r, &starts, text_len, ek);
    let shape = r.below(3);
    let (bp, _) = g::gen_bp(r, n, shape);
    let hist = g::gen_history(r, n, nops);
    // the open table and the end table have separate cursors; interleave entry points
    let mode = r.below(4);
    let ops = hist
        .into_iter()
        .map(|i| {
            let api = match mode {
                0 => *r.pick(&[0u8, 2, 4]),
                1 => *r.pick(&[1u8, 3]),
                _ => r.below(5) as u8,
            };
            (api, i)
        })
        .collect();
    Case { text_len, starts, ends, bp, ops }
}

pub fn run(ctx: &Ctx) -> Report {
    let mut rep = Report::new("C17", "c17");
    rep.rule = "case = (start sequence, end sequence, BP shape, lookup history on ONE YamlIndex built by from_parts); \
                every answer compared with the two recorded Vec<u32>; non-trivial = >= 2 nodes and >= 8 lookups; \
                distinct by hash(sequences, history)"
        .into();
    if let Some(rp) = &ctx.replay {
        match case_from(rp) {
            Some(c) => {
                check_case(&mut rep, &mut Seen(Default::default()), &c, true, usize::MAX);
            }
            None => rep.inconclusive(json!({"why": "unreadable replay object"})),
        }
        return rep;
    }
    let mut r = Rng::new(ctx.shard_seed());
    let tiny = ctx.tiny();

    let mut seen = Seen(Default::default());
    let sweep_cap = if ctx.tiny() { 24 } else { usize::MAX };
    let mut run_one = |rep: &mut Report, r: &mut Rng, n: usize, text_len: usize, sk: usize, ek: usize, nops: usize, fam: &str| {
        let c = gen_case(r, n, text_len, sk, ek, nops);
        let enc = encodings(&c);
        rep.count(&format!("enc.open.{}", if enc.open_compact { "compact" } else { "dense" }));
        rep.count(&format!("enc.end.{}", if enc.end_compact { "compact" } else { "dense" }));
        rep.count(&format!("seq.start.{}", g::START_KINDS[sk]));
        rep.count(&format!("seq.end.{}", g::END_KINDS[ek]));
        rep.count(&format!("family.{fam}"));
        if c.starts.iter().any(|&s| s as usize == text_len) {
            rep.count("seq.start_eq_text_len");
            if text_len % 64 == 0 {
                rep.count("seq.start_eq_text_len_at_word_boundary");
            }
        }
        if c.ends.iter().any(|&s| s as usize == text_len && s != 0) {
            rep.count("seq.end_eq_text_len");
        }
        if enc.open_compact && c.starts.windows(2).filter(|w| w[0] != w[1]).count() > 256 {
            rep.count("seq.start_over_256_distinct");
        }
        if enc.end_compact && {
            let nz: Vec<u32> = c.ends.iter().copied().filter(|&e| e != 0).collect();
            nz.windows(2).filter(|w| w[0] != w[1]).count() > 256
        } {
            rep.count("seq.end_over_256_distinct");
        }
        check_case(rep, &mut seen, &c, true, sweep_cap);
        if n >= 2 && c.ops.len() >= 8 {
            let mut h = mix(fnv(&c.starts.iter().flat_map(|x| x.to_le_bytes()).collect::<Vec<_>>()), text_len as u64);
            h = mix(h, fnv(&c.ends.iter().flat_map(|x| x.to_le_bytes()).collect::<Vec<_>>()));
            h = mix(h, fnv(format!("{:?}", c.ops).as_bytes()));
            rep.nontrivial(h);
        }
        c
    };

    // (1) edge grid: every node count edge x every text-length edge, all sequence kinds in turn
    let mut kind = r.below(36);
    for (ni, &n) in g::N_EDGES.iter().enumerate() {
        for (li, &tl) in g::LEN_EDGES.iter().enumerate() {
            if tiny && ((ni * 7 + li) % 11 != 0 || n > 257) {
                continue;
            }
            for _ in 0..ctx.n(6, 40, 1) {
                kind += 1;
                let nops = if tiny { 24 } else { (3 * n + 20).min(1500) };
                let c = run_one(&mut rep, &mut r, n, tl, kind % 6, (kind / 6) % 6, nops, "edge_grid");
                if rep.samples.len() < 3 && n == 3 && tl >= 63 {
                    rep.sample(json!({"text_len": tl, "starts": c.starts, "ends": c.ends, "ops": c.ops.iter().take(10).map(|&(a, i)| json!([APIS[a as usize], i])).collect::<Vec<_>>()}));
                }
            }
        }
    }

    // (2) random sizes
    for _ in 0..ctx.n(10_000, 150_000, 6) {
        let n = match r.below(5) {
            0 => (*r.pick(&g::N_EDGES)).min(if tiny { 257 } else { usize::MAX }),
            1 => r.below(20),
            _ => r.below(if tiny { 80 } else { 1500 }),
        };
        let tl = match r.below(4) {
            0 => *r.pick(&g::LEN_EDGES),
            1 => 64 * r.below(if tiny { 4 } else { 200 }),
            _ => r.below(if tiny { 300 } else { 70_000 }),
        };
        let nops = if tiny { 30 } else { r.range(8, 600) };
        let (sk, ek) = (r.below(6), r.below(6));
        run_one(&mut rep, &mut r, n, tl, sk, ek, nops, "random");
    }

    // (3) large tables (n around 10 k; > 256 distinct positions so that select samples matter)
    for k in 0..ctx.n(96, 1200, 0) {
        let n = *r.pick(&[9_999usize, 10_000, 10_001, 4096, 16_384, 16_385]);
        let tl = *r.pick(&[10_000usize, 65_536, 70_001, 200_000]);
        let sk = [0usize, 3, 2, 0, 4, 5][k % 6];
        let ek = [0usize, 1, 0, 3, 4, 1][(k / 2) % 6];
        run_one(&mut rep, &mut r, n, tl, sk, ek, 4000, "large");
    }

    rep.note(
        "positions are drawn from 0..=text_len for starts and 1..=text_len (0 = none) for ends; \
         'parser_like' end sequences keep every recorded end at or before all later starts, the other \
         end kinds are independent of the starts",
    );
    if !tiny {
        for t in ["open", "end"] {
            for cls in ["cold", "sequential", "repeat", "forward_gap", "backward", "out_of_range"] {
                rep.require(&format!("hist.{t}.compact.{cls}"), 200);
                rep.require(&format!("hist.{t}.dense.{cls}"), 50);
            }
        }
        rep.require("hist.open.sequential_duplicate", 200);
        rep.require("hist.open.forward_scan_ge_8_words", 100);
        rep.require("hist.open.backward_beyond_first_select_sample", 100);
        rep.require("hist.open.backward_at_select_sample_boundary", 5);
        rep.require("hist.after_out_of_range", 100);
        rep.require("seq.start_over_256_distinct", 5);
        rep.require("seq.end_over_256_distinct", 5);
        rep.require("seq.start_eq_text_len", 50);
        rep.require("seq.end_eq_text_len", 50);
        rep.require("ans.end_unrecorded_none", 200);
        rep.require("ans.end_unrecorded_inherited", 200);
        rep.require("ans.end_recorded", 1000);
        rep.require("ans.out_of_range_none", 200);
    }
    rep
}
