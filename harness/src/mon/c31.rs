//! C31 — index serialization round-trips and tolerates any byte alignment.
//!
//! Three parts, each with its own signatures:
//!  A. `succinctly::binary`: words -> bytes -> words on G-BITS vectors; then the same bytes
//!     placed at every offset 0..=8 of a 64-byte aligned buffer, through `bytes_to_words`
//!     (borrowed), `try_bytes_to_words` (fallible borrowed) and `bytes_to_words_vec` (owned),
//!     each under `catch`. The property demands success with the same words at every offset;
//!     lengths that are not a multiple of 8 must give the documented panic / `None`.
//!  B. `BitVec` and `BalancedParens` rebuilt from serialized words (owned and borrowed
//!     storage) answer every query like the original.
//!  C. `JsonIndex::from_parts` (owned and borrowed) and `SemiIndex::from_bytes` (standard and
//!     simple) rebuilt from the serialized parts of G-JSON documents answer the rank/select,
//!     BP navigation and cursor-walk query sets exactly like the original index.
//!
//! The byte form is checked against `u64::to_le_bytes` (the module documents "raw
//! little-endian u64 words"), which is independent of bytemuck.

use crate::gen::bits::{self as gb, Stray};
use crate::gen::json as gj;
use crate::model::bits as mb;
use crate::report::{catch, hex, panic_sig, unhex, Ctx, Report};
use crate::rng::{fnv, fnv_words, mix, Rng};
use serde_json::{json, Value};
use succinctly::binary::{bytes_to_words, bytes_to_words_vec, try_bytes_to_words, words_to_bytes};
use succinctly::json::light::{JsonCursor, JsonIndex, StandardJson};
use succinctly::trees::BalancedParens;
use succinctly::{BitVec, RankSelect};

type Counters = std::collections::BTreeMap<String, u64>;
fn bump(c: &mut Counters, k: &str) {
    *c.entry(k.to_string()).or_insert(0) += 1;
}

/// A byte buffer whose `at(0)` address is a multiple of 64, so that `at(off)` has exactly the
/// alignment class of `off`.
struct Aligned {
    raw: Vec<u8>,
    base: usize,
}
impl Aligned {
    fn new(cap: usize) -> Aligned {
        let raw = vec![0xA5u8; cap + 160];
        let addr = raw.as_ptr() as usize;
        let base = (64 - addr % 64) % 64;
        Aligned { raw, base }
    }
    /// Copy `data` to offset `off` from the aligned base and return that slice.
    fn place(&mut self, off: usize, data: &[u8]) -> &[u8] {
        let s = self.base + off;
        self.raw[s..s + data.len()].copy_from_slice(data);
        let out = &self.raw[s..s + data.len()];
        debug_assert_eq!(out.as_ptr() as usize % 64, off % 64);
        out
    }
}

fn le_bytes(words: &[u64]) -> Vec<u8> {
    let mut out = Vec::with_capacity(words.len() * 8);
    for w in words {
        out.extend_from_slice(&w.to_le_bytes());
    }
    out
}

fn panic_class(p: &str) -> String {
    if p.contains("TargetAlignmentGreaterAndInputNotAligned") {
        "alignment_panic".to_string()
    } else {
        // `panic_sig` keeps the location from the FIRST "src/"; panics raised inside a registry
        // crate (bytemuck) have a machine-specific registry directory after it, so cut at the
        // last "src/" instead to keep the signature stable.
        let s = panic_sig(p);
        match s.rfind(" @ ") {
            Some(i) => {
                let (m, loc) = (&s[..i], &s[i + 3..]);
                let loc = loc.rfind("src/").map(|j| &loc[j..]).unwrap_or(loc);
                format!("panic:{m} @ {loc}")
            }
            None => format!("panic:{s}"),
        }
    }
}

const ENTRY: [&str; 3] = ["bytes_to_words", "try_bytes_to_words", "bytes_to_words_vec"];

/// Call entry point `which` on `bytes`: Ok(Some(words)) / Ok(None) (only the fallible form) /
/// Err(panic).
fn call_entry(which: usize, bytes: &[u8]) -> Result<Option<Vec<u64>>, String> {
    match which {
        0 => catch(|| Some(bytes_to_words(bytes).to_vec())),
        1 => catch(|| try_bytes_to_words(bytes).map(|w| w.to_vec())),
        _ => catch(|| Some(bytes_to_words_vec(bytes))),
    }
}

/// Part A on one word vector.
fn check_binary(rep: &mut Report, c: &mut Counters, words: &[u64], offsets: &[usize], bad_lens: bool) {
    let want_bytes = le_bytes(words);
    let rp = |off: usize, extra: usize| json!({"kind": "binary", "words_rle": gb::words_to_rle(words), "offset": off, "extra_bytes": extra});
    // words -> bytes
    rep.eval();
    match catch(|| words_to_bytes(words).to_vec()) {
        Ok(b) => {
            if b != want_bytes {
                rep.violation("C31:words_to_bytes:not_le_bytes", format!("words_to_bytes of {} words differs from the little-endian byte form", words.len()), rp(0, 0));
            }
        }
        Err(p) => rep.violation(format!("C31:words_to_bytes:{}", panic_class(&p)), p, rp(0, 0)),
    }
    // bytes -> words straight from the library's own (aligned) byte view
    for which in 0..3 {
        rep.eval();
        let got = catch(|| {
            let b = words_to_bytes(words);
            match which {
                0 => Some(bytes_to_words(b).to_vec()),
                1 => try_bytes_to_words(b).map(|w| w.to_vec()),
                _ => Some(bytes_to_words_vec(b)),
            }
        });
        bump(c, "binary.roundtrip_native_view");
        match got {
            Ok(Some(w)) if w == words => {}
            Ok(other) => rep.violation(format!("C31:{}:roundtrip_mismatch", ENTRY[which]), format!("round trip of {} words gave {:?}", words.len(), other.map(|w| w.len())), rp(0, 0)),
            Err(p) => rep.violation(format!("C31:{}:roundtrip_{}", ENTRY[which], panic_class(&p)), p, rp(0, 0)),
        }
    }
    // every placement
    let mut buf = Aligned::new(want_bytes.len() + 16);
    for &off in offsets {
        let aligned = off % 8 == 0;
        for which in 0..3 {
            rep.eval();
            let slice = buf.place(off, &want_bytes);
            let got = call_entry(which, slice);
            let where_ = if aligned { "aligned" } else { "misaligned" };
            if words.is_empty() {
                bump(c, "binary.empty_slice");
            } else {
                bump(c, &format!("binary.{where_}.{}", ENTRY[which]));
            }
            match got {
                Ok(Some(w)) => {
                    if w != words {
                        rep.violation(format!("C31:{}:{where_}:wrong_words", ENTRY[which]), format!("{} bytes at offset {off}: words differ from the source", want_bytes.len()), rp(off, 0));
                    }
                }
                Ok(None) => rep.violation(
                    format!("C31:{}:{where_}:none_for_good_length", ENTRY[which]),
                    format!("{} bytes (a multiple of 8) at offset {off} (address mod 8 = {}): returned None", want_bytes.len(), off % 8),
                    rp(off, 0),
                ),
                Err(p) => rep.violation(
                    format!("C31:{}:{where_}:{}", ENTRY[which], panic_class(&p)),
                    format!("{} bytes (a multiple of 8) at offset {off} (address mod 8 = {}): panicked: {p}", want_bytes.len(), off % 8),
                    rp(off, 0),
                ),
            }
        }
    }
    // bad lengths: documented panic (two forms) / None (fallible form), wherever the slice starts
    if bad_lens {
        for extra in 1..8usize {
            let mut b = want_bytes.clone();
            b.extend(std::iter::repeat(0x11u8).take(extra));
            for off in [0usize, extra] {
                for which in 0..3 {
                    rep.eval();
                    let slice = buf.place(off, &b);
                    let got = call_entry(which, slice);
                    bump(c, "binary.bad_length");
                    match (which, got) {
                        (1, Ok(None)) => {}
                        (1, Ok(Some(_))) => rep.violation("C31:try_bytes_to_words:bad_length:some", format!("{} bytes: returned Some", b.len()), rp(off, extra)),
                        (1, Err(p)) => rep.violation(format!("C31:try_bytes_to_words:bad_length:{}", panic_class(&p)), format!("{} bytes at offset {off}: the fallible form panicked: {p}", b.len()), rp(off, extra)),
                        (_, Err(_)) => {}
                        (w, Ok(_)) => rep.violation(format!("C31:{}:bad_length:no_panic", ENTRY[w]), format!("{} bytes: returned instead of the documented panic", b.len()), rp(off, extra)),
                    }
                }
            }
        }
    }
}

// ---------------------------------------------------------------------------------------
// Part B: BitVec / BalancedParens rebuilt from serialized words

fn bitvec_transcript(bv: &BitVec, len: usize, ones: usize) -> Vec<u64> {
    let mut t = vec![bv.len() as u64, bv.count_ones() as u64, bv.count_zeros() as u64];
    for p in 0..=len + 70 {
        t.push(bv.rank1(p) as u64);
        t.push(bv.rank0(p) as u64);
        if p < len {
            t.push(bv.get(p) as u64);
        }
    }
    for k in 0..=ones + 2 {
        t.push(bv.select1(k).map(|x| x as u64).unwrap_or(u64::MAX));
    }
    for k in 0..=(len - ones) + 2 {
        t.push(bv.select0(k).map(|x| x as u64).unwrap_or(u64::MAX));
    }
    t
}

fn check_bitvec_rt(rep: &mut Report, c: &mut Counters, words: &[u64], len: usize) {
    let rp = json!({"kind": "bitvec_rt", "words_rle": gb::words_to_rle(words), "len": len});
    let tab = mb::BitTable::build(words, len);
    let res = catch(|| {
        let orig = BitVec::from_words(words.to_vec(), len);
        let bytes = words_to_bytes(orig.words()).to_vec();
        let rebuilt = BitVec::from_words(bytes_to_words_vec(words_to_bytes(orig.words())), len);
        // through a detached byte copy as well (what a file round trip does); the copy sits in
        // an aligned buffer so the known alignment defect does not mask this part
        let mut buf = Aligned::new(bytes.len());
        let via_copy = BitVec::from_words(bytes_to_words_vec(buf.place(0, &bytes)), len);
        (bitvec_transcript(&orig, len, tab.ones()), bitvec_transcript(&rebuilt, len, tab.ones()), bitvec_transcript(&via_copy, len, tab.ones()))
    });
    rep.eval();
    bump(c, "rt.bitvec");
    match res {
        Ok((a, b, d)) => {
            rep.evals(a.len() as u64);
            if a != b || a != d {
                let i = a.iter().zip(b.iter().zip(d.iter())).position(|(x, (y, z))| x != y || x != z).unwrap_or(0);
                rep.violation("C31:BitVec:rebuilt_differs", format!("answer #{i} differs between the original and the rebuilt bit vector (len {len})"), rp);
            } else {
                // anchor the differential to the model
                let want = [tab.len as u64, tab.ones() as u64, tab.zeros() as u64];
                if a[..3] != want || a[3] != 0 {
                    bump(c, "anchor.bitvec_orig_vs_model_mismatch");
                }
            }
        }
        Err(p) => rep.violation(format!("C31:BitVec:roundtrip_{}", panic_class(&p)), p, rp),
    }
}

/// Balanced / arbitrary parenthesis strings (1 = open). Returns (words, len).
fn gen_parens(r: &mut Rng, max_bits: usize, large: bool) -> (Vec<u64>, usize, &'static str) {
    let n = match r.below(6) {
        _ if large => max_bits / 2 + r.below(max_bits / 2),
        0 => r.below(6),
        1..=3 => r.below(300),
        _ => r.below(max_bits + 1),
    };
    let (class, bits): (&'static str, Vec<bool>) = match r.below(5) {
        // balanced random walk of length 2m
        0..=2 => {
            let m = n / 2;
            let mut v = Vec::with_capacity(2 * m);
            let mut opens_left = m;
            let mut excess = 0usize;
            let bias = 1 + r.below(4) as u32;
            for i in 0..2 * m {
                let remaining = 2 * m - i;
                let open = if excess == 0 {
                    true
                } else if opens_left == 0 || excess == remaining {
                    false
                } else {
                    r.chance(bias, bias + 2)
                };
                if open {
                    opens_left -= 1;
                    excess += 1;
                } else {
                    excess -= 1;
                }
                v.push(open);
            }
            ("balanced", v)
        }
        // deep nest (((...)))
        3 => {
            let m = n / 2;
            let mut v = vec![true; m];
            v.extend(std::iter::repeat(false).take(m));
            ("nest", v)
        }
        _ => ("arbitrary", (0..n).map(|_| r.bool()).collect()),
    };
    let len = bits.len();
    let mut words = vec![0u64; len.div_ceil(64)];
    for (i, &b) in bits.iter().enumerate() {
        if b {
            words[i / 64] |= 1u64 << (i % 64);
        }
    }
    (words, len, class)
}

fn o(x: Option<usize>) -> u64 {
    x.map(|v| v as u64).unwrap_or(u64::MAX)
}

fn bp_transcript<W: AsRef<[u64]>>(bp: &BalancedParens<W>, positions: &[usize]) -> Vec<u64> {
    let mut t = vec![bp.len() as u64, bp.total_ones() as u64, bp.total_zeros() as u64, fnv_words(bp.words())];
    for &p in positions {
        t.push(bp.is_open(p) as u64);
        t.push(bp.is_close(p) as u64);
        t.push(bp.rank1(p) as u64);
        t.push(bp.rank0(p) as u64);
        t.push(bp.excess(p) as i64 as u64);
        t.push(o(bp.find_close(p)));
        t.push(o(bp.find_open(p)));
        t.push(o(bp.enclose(p)));
        t.push(o(bp.next_sibling(p)));
        t.push(o(bp.first_child(p)));
        t.push(o(bp.subtree_size(p)));
    }
    t
}
const BP_FIELDS: [&str; 11] = ["is_open", "is_close", "rank1", "rank0", "excess", "find_close", "find_open", "enclose", "next_sibling", "first_child", "subtree_size"];

fn naive_find_close(words: &[u64], len: usize) -> Vec<Option<usize>> {
    let mut out = vec![None; len];
    let mut stack = Vec::new();
    for p in 0..len {
        if mb::bit(words, p) {
            stack.push(p);
        } else if let Some(q) = stack.pop() {
            out[q] = Some(p);
        }
    }
    out
}

fn bp_positions(r: &mut Rng, len: usize) -> Vec<usize> {
    if len <= 700 {
        (0..len + 3).collect()
    } else {
        let mut v: Vec<usize> = (0..300).map(|_| r.below(len)).collect();
        for b in (0..len).step_by((64 * 32).max(len / 64 / 16 * 64)) {
            for d in 0..4 {
                v.push((b + d).saturating_sub(2));
            }
        }
        v.extend([len - 1, len, len + 1]);
        v
    }
}

/// `words` may carry stray bits above `len` in the last used word (never surplus words: that
/// is C04's separate finding). The original is built with `new` (which cleans its own copy);
/// the rebuilt ones come from the byte form of the original's words AND from the byte form
/// of the caller's raw words (what a user who serialises his own buffer has on disk).
fn check_bp_rt(rep: &mut Report, c: &mut Counters, words: &[u64], len: usize, positions: &[usize]) {
    let rp = json!({"kind": "bp_rt", "words_rle": gb::words_to_rle(words), "len": len});
    let has_stray = mb::canonical(words, len) != words;
    if has_stray {
        bump(c, "rt.bp.raw_words_with_stray_last_word");
    }
    let raw = catch(|| {
        let orig = BalancedParens::new(words.to_vec(), len);
        let mut t0 = bp_transcript(&orig, positions);
        let bytes = le_bytes(words);
        let mut buf = Aligned::new(bytes.len());
        let placed = buf.place(0, &bytes);
        let borrowed: BalancedParens<&[u64]> = BalancedParens::from_words(bytes_to_words(placed), len);
        let owned_fw = BalancedParens::from_words(bytes_to_words_vec(placed), len);
        let mut t1 = bp_transcript(&borrowed, positions);
        let mut t2 = bp_transcript(&owned_fw, positions);
        // `words()` hands back the storage as given; it is the one item allowed to differ
        t0[3] = 0;
        t1[3] = 0;
        t2[3] = 0;
        (t0, t1, t2)
    });
    match raw {
        Ok((t0, t1, t2)) => {
            rep.evals(2 * t0.len() as u64);
            for (name, t) in [("from_words_borrowed", &t1), ("from_words_owned", &t2)] {
                if *t != t0 {
                    let i = t.iter().zip(t0.iter()).position(|(a, b)| a != b).unwrap_or(0);
                    let what = if i < 4 { ["len", "total_ones", "total_zeros", "words"][i].to_string() } else { format!("{}({})", BP_FIELDS[(i - 4) % 11], positions[(i - 4) / 11]) };
                    let cls = if has_stray { "raw_words_stray_last_word" } else { "raw_words" };
                    rep.violation(format!("C31:BalancedParens::{name}:{cls}:rebuilt_differs"), format!("{what}: original {:#x}, rebuilt {:#x} (len {len})", t0[i], t[i]), rp.clone());
                }
            }
        }
        Err(p) => rep.violation(format!("C31:BalancedParens:raw_words:roundtrip_{}", panic_class(&p)), p, rp.clone()),
    }
    let res = catch(|| {
        let orig = BalancedParens::new(words.to_vec(), len);
        let bytes = words_to_bytes(orig.words()).to_vec();
        let mut buf = Aligned::new(bytes.len());
        let placed = buf.place(0, &bytes);
        let owned = BalancedParens::new(bytes_to_words_vec(placed), len);
        let owned_fw = BalancedParens::from_words(bytes_to_words_vec(placed), len);
        let borrowed: BalancedParens<&[u64]> = BalancedParens::from_words(bytes_to_words(placed), len);
        let t0 = bp_transcript(&orig, positions);
        let anchor_bad = if len <= 6000 {
            let nf = naive_find_close(words, len);
            (0..len).filter(|&p| mb::bit(words, p) && orig.find_close(p) != nf[p]).count() + (orig.total_ones() != mb::rank1(words, len, len)) as usize
        } else {
            0
        };
        (t0, bp_transcript(&owned, positions), bp_transcript(&owned_fw, positions), bp_transcript(&borrowed, positions), anchor_bad)
    });
    rep.eval();
    bump(c, "rt.bp");
    match res {
        Ok((t0, t1, t2, t3, anchor_bad)) => {
            rep.evals(3 * t0.len() as u64);
            if anchor_bad > 0 {
                bump(c, "anchor.bp_orig_find_close_vs_naive_mismatch");
            }
            for (name, t) in [("new_from_bytes", &t1), ("from_words_owned", &t2), ("from_words_borrowed", &t3)] {
                if *t != t0 {
                    let i = t.iter().zip(t0.iter()).position(|(a, b)| a != b).unwrap_or(0);
                    let what = if i < 4 { ["len", "total_ones", "total_zeros", "words"][i].to_string() } else { format!("{}({})", BP_FIELDS[(i - 4) % 11], positions[(i - 4) / 11]) };
                    rep.violation(format!("C31:BalancedParens::{name}:rebuilt_differs"), format!("{what}: original {:#x}, rebuilt {:#x} (len {len})", t0[i], t[i]), rp.clone());
                }
            }
        }
        Err(p) => rep.violation(format!("C31:BalancedParens:roundtrip_{}", panic_class(&p)), p, rp),
    }
}

// ---------------------------------------------------------------------------------------
// Part C: JSON indexes

fn value_digest<W: AsRef<[u64]>>(v: &StandardJson<'_, W>) -> u64 {
    match v {
        StandardJson::String(s) => match s.as_str() {
            Ok(t) => mix(1, fnv(t.as_bytes())),
            Err(e) => mix(2, fnv(format!("{e:?}").as_bytes())),
        },
        StandardJson::Number(n) => {
            let f = n.as_f64().map(|x| x.to_bits()).unwrap_or(0x7ff8_dead);
            let i = n.as_i64().unwrap_or(i64::MIN + 1);
            mix(mix(3, fnv(n.raw_bytes())), f ^ (i as u64).rotate_left(17))
        }
        StandardJson::Object(f) => mix(4, f.is_empty() as u64),
        StandardJson::Array(e) => mix(5, e.is_empty() as u64),
        StandardJson::Bool(b) => mix(6, *b as u64),
        StandardJson::Null => 7,
        StandardJson::Error(e) => mix(8, fnv(e.as_bytes())),
    }
}

struct JsonTranscript {
    /// (label, value) in a fixed order
    items: Vec<(&'static str, u64, u64)>,
    /// text positions of the nodes in document order
    node_starts: Vec<Option<usize>>,
}

fn json_transcript<W: AsRef<[u64]>>(idx: &JsonIndex<W>, text: &[u8], sample: &[usize]) -> JsonTranscript {
    let mut items: Vec<(&'static str, u64, u64)> = Vec::new();
    items.push(("ib_len", 0, idx.ib_len() as u64));
    items.push(("ib_words", 0, fnv_words(idx.ib())));
    items.push(("bp_len", 0, idx.bp().len() as u64));
    items.push(("bp_words", 0, fnv_words(idx.bp().words())));
    let len = text.len();
    let dense = len <= 3000;
    // IB rank / select
    let mut ones = 0usize;
    for w in idx.ib() {
        ones += mb::popcount(*w) as usize;
    }
    if dense {
        for p in 0..=len + 70 {
            items.push(("ib_rank1", p as u64, idx.ib_rank1(p) as u64));
        }
        for k in 0..=ones + 3 {
            items.push(("ib_select1", k as u64, o(idx.ib_select1(k))));
            items.push(("ib_select1_from", k as u64, o(idx.ib_select1_from(k, k / 8))));
        }
    } else {
        for &s in sample {
            let p = s % (len + 70);
            items.push(("ib_rank1", p as u64, idx.ib_rank1(p) as u64));
            let k = s % (ones + 3);
            items.push(("ib_select1", k as u64, o(idx.ib_select1(k))));
            items.push(("ib_select1_from", k as u64, o(idx.ib_select1_from(k, s % 97))));
        }
    }
    // BP navigation
    let bp = idx.bp();
    let bl = bp.len();
    let mut bp_pos: Vec<usize> = if bl <= 4000 { (0..bl + 2).collect() } else { sample.iter().map(|s| s % (bl + 2)).collect() };
    bp_pos.push(bl);
    for &p in &bp_pos {
        items.push(("bp.find_close", p as u64, o(bp.find_close(p))));
        items.push(("bp.find_open", p as u64, o(bp.find_open(p))));
        items.push(("bp.enclose", p as u64, o(bp.enclose(p))));
        items.push(("bp.rank1", p as u64, bp.rank1(p) as u64));
        items.push(("bp.excess", p as u64, bp.excess(p) as i64 as u64));
        items.push(("bp.next_sibling", p as u64, o(bp.next_sibling(p))));
    }
    // cursor walk in document order (explicit stack: documents may be deep)
    let mut node_starts = Vec::new();
    let mut stack: Vec<JsonCursor<'_, W>> = vec![idx.root(text)];
    let mut n = 0u64;
    while let Some(cur) = stack.pop() {
        let tp = cur.text_position();
        node_starts.push(tp);
        items.push(("cursor.bp_position", n, cur.bp_position() as u64));
        items.push(("cursor.text_position", n, o(tp)));
        let tr = cur.text_range();
        items.push(("cursor.text_range", n, tr.map(|(a, b)| mix(a as u64, b as u64)).unwrap_or(u64::MAX)));
        items.push(("cursor.raw_bytes", n, cur.raw_bytes().map(fnv).unwrap_or(u64::MAX)));
        items.push(("cursor.is_container", n, cur.is_container() as u64));
        items.push(("cursor.value", n, value_digest(&cur.value())));
        items.push(("cursor.parent", n, cur.parent().map(|p| p.bp_position() as u64).unwrap_or(u64::MAX)));
        // push next sibling first so that the first child is visited next (pre-order)
        if let Some(s) = cur.next_sibling() {
            stack.push(s);
        }
        if let Some(ch) = cur.first_child() {
            stack.push(ch);
        }
        n += 1;
        if n > 2_000_000 {
            break;
        }
    }
    // offset -> cursor, line/column
    let root = idx.root(text);
    let offs: Vec<usize> = if dense { (0..len + 2).collect() } else { sample.iter().map(|s| s % (len + 2)).collect() };
    for &off in &offs {
        items.push(("cursor_at_offset", off as u64, root.cursor_at_offset(off).map(|c| c.bp_position() as u64).unwrap_or(u64::MAX)));
    }
    for &off in offs.iter().take(40) {
        let (l, col) = idx.to_line_column(off, text);
        items.push(("to_line_column", off as u64, mix(l as u64, col as u64)));
    }
    JsonTranscript { items, node_starts }
}

fn first_diff(a: &JsonTranscript, b: &JsonTranscript) -> Option<String> {
    if a.items.len() != b.items.len() {
        // the text before '(' becomes part of the signature: keep it free of numbers
        return Some(format!("transcript_length(-) original {} answers vs rebuilt {} (different node count in the walk)", a.items.len(), b.items.len()));
    }
    for (x, y) in a.items.iter().zip(b.items.iter()) {
        if x != y {
            return Some(format!("{}({}) original {:#x} vs rebuilt {:#x}", x.0, x.1, x.2, y.2));
        }
    }
    None
}

/// Part C on one document. `truth_starts` = byte offsets of all nodes (keys included) in
/// document order, from the generator (None for inputs without ground truth).
fn check_json_rt(rep: &mut Report, c: &mut Counters, text: &[u8], truth_starts: Option<&[usize]>, sample: &[usize], misaligned_off: usize) {
    let rp = json!({"kind": "json_rt", "text_hex": hex(text), "misaligned_offset": misaligned_off});
    rep.eval();
    bump(c, "rt.json_doc");
    let orig = match catch(|| JsonIndex::build(text)) {
        Ok(i) => i,
        Err(p) => {
            // not this property's business (C19); count and move on
            bump(c, "json.build_panicked");
            rep.note(format!("JsonIndex::build panicked on a generated document: {p}"));
            return;
        }
    };
    let t0 = match catch(|| json_transcript(&orig, text, sample)) {
        Ok(t) => t,
        Err(p) => {
            bump(c, if truth_starts.is_some() { "json.original_query_panicked.valid_doc" } else { "json.original_query_panicked.soup" });
            rep.note(format!("a query on the ORIGINAL index panicked (not a serialization matter): {p}; text {}", hex(&text[..text.len().min(120)])));
            return;
        }
    };
    if let Some(truth) = truth_starts {
        let got: Vec<usize> = t0.node_starts.iter().map(|x| x.unwrap_or(usize::MAX)).collect();
        if got == truth {
            bump(c, "anchor.json_walk_matches_ground_truth");
        } else {
            bump(c, "anchor.json_orig_walk_vs_ground_truth_mismatch");
        }
    }
    let ib_bytes = words_to_bytes(orig.ib()).to_vec();
    let bp_bytes = words_to_bytes(orig.bp().words()).to_vec();
    let (ib_len, bp_len) = (orig.ib_len(), orig.bp().len());
    let mut ib_buf = Aligned::new(ib_bytes.len() + 16);
    let mut bp_buf = Aligned::new(bp_bytes.len() + 16);

    // owned, from detached (aligned) byte copies
    let res = catch(|| {
        let ib = bytes_to_words_vec(ib_buf.place(0, &ib_bytes));
        let bp = bytes_to_words_vec(bp_buf.place(0, &bp_bytes));
        let idx = JsonIndex::from_parts(ib, ib_len, bp, bp_len);
        json_transcript(&idx, text, sample)
    });
    rep.evals(t0.items.len() as u64);
    bump(c, "rt.json.from_parts_owned");
    match res {
        Ok(t) => {
            if let Some(d) = first_diff(&t0, &t) {
                let op = d.split('(').next().unwrap_or("?").to_string();
                rep.violation(format!("C31:JsonIndex::from_parts:owned:rebuilt_differs:{op}"), d, rp.clone());
            }
        }
        Err(p) => rep.violation(format!("C31:JsonIndex::from_parts:owned:{}", panic_class(&p)), p, rp.clone()),
    }
    // borrowed (&[u64] over the aligned byte copies — the mmap use case)
    let res = catch(|| {
        let ib: &[u64] = bytes_to_words(ib_buf.place(0, &ib_bytes));
        let bp: &[u64] = bytes_to_words(bp_buf.place(0, &bp_bytes));
        let idx: JsonIndex<&[u64]> = JsonIndex::from_parts(ib, ib_len, bp, bp_len);
        json_transcript(&idx, text, sample)
    });
    rep.evals(t0.items.len() as u64);
    bump(c, "rt.json.from_parts_borrowed");
    match res {
        Ok(t) => {
            if let Some(d) = first_diff(&t0, &t) {
                let op = d.split('(').next().unwrap_or("?").to_string();
                rep.violation(format!("C31:JsonIndex::from_parts:borrowed:rebuilt_differs:{op}"), d, rp.clone());
            }
        }
        Err(p) => rep.violation(format!("C31:JsonIndex::from_parts:borrowed:{}", panic_class(&p)), p, rp.clone()),
    }

    // SemiIndex::from_bytes (standard and simple): words must come back identical
    {
        use succinctly::json::{simple, standard};
        let semi = standard::build_semi_index(text);
        rep.evals(2);
        bump(c, "rt.semi.standard");
        match catch(|| standard::SemiIndex::from_bytes(semi.ib_as_bytes(), semi.bp_as_bytes())) {
            Ok(back) => {
                if back.ib != semi.ib || back.bp != semi.bp {
                    rep.violation("C31:standard::SemiIndex::from_bytes:words_differ", "ib/bp words changed in the byte round trip", rp.clone());
                } else if semi.ib == orig.ib() && semi.bp.len() >= orig.bp().words().len() && semi.bp[..orig.bp().words().len()] == *orig.bp().words() {
                    // feed the restored words to from_parts and compare with the original index
                    let res = catch(|| {
                        let idx = JsonIndex::from_parts(back.ib.clone(), ib_len, back.bp.clone(), bp_len);
                        json_transcript(&idx, text, sample)
                    });
                    bump(c, "rt.json.from_parts_via_semi_index");
                    match res {
                        Ok(mut t) => {
                            // the semi-index BP vector may carry unused trailing words; the words
                            // digest is the only item allowed to differ
                            if t.items.len() > 3 && t0.items.len() > 3 {
                                t.items[3] = t0.items[3];
                            }
                            if let Some(d) = first_diff(&t0, &t) {
                                let op = d.split('(').next().unwrap_or("?").to_string();
                                rep.violation(format!("C31:JsonIndex::from_parts:via_semi_index:rebuilt_differs:{op}"), d, rp.clone());
                            }
                        }
                        Err(p) => rep.violation(format!("C31:JsonIndex::from_parts:via_semi_index:{}", panic_class(&p)), p, rp.clone()),
                    }
                } else {
                    bump(c, if truth_starts.is_some() { "semi.words_differ_from_JsonIndex_build.valid_doc" } else { "semi.words_differ_from_JsonIndex_build.soup" });
                    if truth_starts.is_some() && text.len() < 200 {
                        rep.note(format!("semi-index words differ from JsonIndex::build words: ib_equal={} semi.bp={:x?} build.bp={:x?} text {}", semi.ib == orig.ib(), semi.bp, orig.bp().words(), hex(text)));
                    }
                }
            }
            Err(p) => rep.violation(format!("C31:standard::SemiIndex::from_bytes:aligned:{}", panic_class(&p)), p, rp.clone()),
        }
        // the same bytes at a misaligned start
        if misaligned_off % 8 != 0 && !semi.ib.is_empty() {
            rep.eval();
            bump(c, "rt.semi.standard.misaligned");
            let ibb = le_bytes(&semi.ib);
            let bpb = le_bytes(&semi.bp);
            let mut b1 = Aligned::new(ibb.len() + 16);
            let mut b2 = Aligned::new(bpb.len() + 16);
            match catch(|| standard::SemiIndex::from_bytes(b1.place(misaligned_off, &ibb), b2.place(misaligned_off, &bpb))) {
                Ok(back) => {
                    if back.ib != semi.ib || back.bp != semi.bp {
                        rep.violation("C31:standard::SemiIndex::from_bytes:misaligned:words_differ", "words changed", rp.clone());
                    }
                }
                Err(p) => rep.violation(format!("C31:standard::SemiIndex::from_bytes:misaligned:{}", panic_class(&p)), format!("bytes at address mod 8 = {}: {p}", misaligned_off % 8), rp.clone()),
            }
        }
        let ssemi = simple::build_semi_index(text);
        rep.eval();
        bump(c, "rt.semi.simple");
        match catch(|| simple::SemiIndex::from_bytes(ssemi.ib_as_bytes(), ssemi.bp_as_bytes())) {
            Ok(back) => {
                if back.ib != ssemi.ib || back.bp != ssemi.bp {
                    rep.violation("C31:simple::SemiIndex::from_bytes:words_differ", "ib/bp words changed in the byte round trip", rp.clone());
                }
            }
            Err(p) => rep.violation(format!("C31:simple::SemiIndex::from_bytes:aligned:{}", panic_class(&p)), p, rp.clone()),
        }
        if misaligned_off % 8 != 0 && !ssemi.ib.is_empty() {
            rep.eval();
            bump(c, "rt.semi.simple.misaligned");
            let ibb = le_bytes(&ssemi.ib);
            let bpb = le_bytes(&ssemi.bp);
            let mut b1 = Aligned::new(ibb.len() + 16);
            let mut b2 = Aligned::new(bpb.len() + 16);
            match catch(|| simple::SemiIndex::from_bytes(b1.place(misaligned_off, &ibb), b2.place(misaligned_off, &bpb))) {
                Ok(back) => {
                    if back.ib != ssemi.ib || back.bp != ssemi.bp {
                        rep.violation("C31:simple::SemiIndex::from_bytes:misaligned:words_differ", "words changed", rp.clone());
                    }
                }
                Err(p) => rep.violation(format!("C31:simple::SemiIndex::from_bytes:misaligned:{}", panic_class(&p)), format!("bytes at address mod 8 = {}: {p}", misaligned_off % 8), rp.clone()),
            }
        }
    }
}

fn replay(rep: &mut Report, rp: &Value) {
    let mut c = Counters::new();
    let words = gb::words_from_rle(&rp["words_rle"]);
    let len = rp["len"].as_u64().unwrap_or(0) as usize;
    match rp["kind"].as_str().unwrap_or("") {
        "binary" => {
            let offs: Vec<usize> = (0..=8).collect();
            check_binary(rep, &mut c, &words, &offs, true);
        }
        "bitvec_rt" if len <= words.len() * 64 => check_bitvec_rt(rep, &mut c, &mb::canonical(&words, len), len),
        "bp_rt" if len <= words.len() * 64 => {
            let pos = bp_positions(&mut Rng::new(1), len);
            check_bp_rt(rep, &mut c, &words, len, &pos);
        }
        "json_rt" => {
            let text = unhex(rp["text_hex"].as_str().unwrap_or(""));
            let mut r = Rng::new(1);
            let sample: Vec<usize> = (0..600).map(|_| r.below(1 << 40)).collect();
            let off = rp["misaligned_offset"].as_u64().unwrap_or(1) as usize;
            check_json_rt(rep, &mut c, &text, None, &sample, off);
        }
        _ => rep.note("unknown replay kind"),
    }
    for (k, v) in c {
        rep.add(&k, v);
    }
}

pub fn run(ctx: &Ctx) -> Report {
    let mut rep = Report::new("C31", "c31");
    rep.rule = "case = word vector / bit vector / parenthesis string / JSON document put through the byte form; \
                non-trivial = at least 2 words (binary), len >= 65 (bit vectors, parens), >= 3 nodes (JSON); \
                distinct by content hash"
        .into();
    rep.assumptions.push("byte form compared with u64::to_le_bytes (host is little-endian; the module documents little-endian)".into());
    if let Some(rp) = &ctx.replay {
        replay(&mut rep, rp);
        return rep;
    }
    let mut r = Rng::new(ctx.shard_seed());
    let mut c = Counters::new();
    let all_offsets: Vec<usize> = (0..=8).collect();

    // ---- A. binary conversions
    let n_bin = ctx.n(2500, 30_000, 5);
    for i in 0..n_bin {
        let case = if i % 40 == 39 && !ctx.tiny() { gb::gen_long_runs(&mut r, 3000) } else { gb::gen_case(&mut r, if ctx.tiny() { 400 } else { 6000 }) };
        // serialise hostile variants too: the byte form knows nothing about `len`
        let kind = *r.pick(&Stray::ALL);
        let words = gb::with_stray(&mut r, &case, kind).unwrap_or_else(|| case.words.clone());
        if i % 4 == 0 || ctx.tiny() {
            check_binary(&mut rep, &mut c, &words, &all_offsets, true);
        } else {
            let some = [r.below(9), 1 + r.below(7), 8 * r.below(2)];
            check_binary(&mut rep, &mut c, &words, &some, false);
        }
        if words.len() >= 2 {
            rep.nontrivial(mix(fnv_words(&words), 0xA));
        }
        if i < 2 {
            rep.sample(json!({"part": "binary", "words": words.len(), "first_bytes": hex(&le_bytes(&words)[..words.len().min(2) * 8])}));
        }
    }
    // the empty vector and one word, explicitly
    check_binary(&mut rep, &mut c, &[], &all_offsets, true);
    check_binary(&mut rep, &mut c, &[0x0123_4567_89AB_CDEF], &all_offsets, true);

    rep.note(format!("part A (binary) done at {:.1}s", ctx.elapsed()));
    // ---- B. bit vectors and balanced parentheses
    let n_bv = ctx.n(500, 6000, 2);
    for _ in 0..n_bv {
        let case = gb::gen_case(&mut r, if ctx.tiny() { 150 } else { 3000 });
        check_bitvec_rt(&mut rep, &mut c, &case.words, case.len);
        if case.len >= 65 {
            rep.nontrivial(mix(fnv_words(&case.words), 0xB));
        }
    }
    let n_bp = ctx.n(800, 8000, 3);
    for i in 0..n_bp {
        let large = i % 60 == 59 && !ctx.tiny();
        let max = if ctx.tiny() { 200 } else if large { 150_000 } else { 5000 };
        let (mut words, len, class) = gen_parens(&mut r, max, large);
        if len % 64 != 0 && r.chance(1, 2) {
            let above = !((1u64 << (len % 64)) - 1);
            let g = if r.bool() { u64::MAX } else { r.u64() | (1u64 << 63) };
            words[len / 64] |= g & above;
        }
        let pos = bp_positions(&mut r, len);
        check_bp_rt(&mut rep, &mut c, &words, len, &pos);
        bump(&mut c, &format!("bp.class.{class}"));
        if len > 64 * 1024 {
            bump(&mut c, "bp.over_1024_words");
        }
        if len >= 65 {
            rep.nontrivial(mix(fnv_words(&words), 0xC));
        }
    }

    rep.note(format!("part B (BitVec, BalancedParens) done at {:.1}s", ctx.elapsed()));
    // ---- C. JSON indexes
    let n_js = ctx.n(900, 10_000, 4);
    let sample: Vec<usize> = (0..600).map(|_| r.below(1 << 40)).collect();
    for i in 0..n_js {
        let (_, rd) = if i % 30 == 29 && !ctx.tiny() {
            // a larger document
            let o = gj::TreeOpts { max_depth: 8, max_width: 40, budget: 3000, ..Default::default() };
            let v = gj::gen_tree(&mut r, &o);
            let ro = gj::RenderOpts { ws: r.below(3) as u8, esc: r.below(3) as u8, align_to: None };
            let rd = gj::render(&mut r, &ro, &v);
            (v, rd)
        } else if i % 30 == 28 && !ctx.tiny() {
            let (depth, kind) = (50 + r.below(300), r.below(3) as u8);
            let v = gj::gen_deep(&mut r, depth, kind);
            let rd = gj::render(&mut r, &gj::RenderOpts::default(), &v);
            (v, rd)
        } else {
            gj::gen_doc(&mut r)
        };
        let truth: Vec<usize> = rd.nodes.iter().map(|n| n.start).collect();
        let off = 1 + r.below(7);
        check_json_rt(&mut rep, &mut c, &rd.bytes, Some(&truth), &sample, off);
        if rd.nodes.len() >= 3 {
            rep.nontrivial(mix(fnv(&rd.bytes), 0xD));
        }
        if rd.bytes.len() > 3000 {
            bump(&mut c, "json.doc_over_3000_bytes");
        }
        if i < 2 {
            rep.sample(json!({"part": "json", "text": crate::report::show_bytes(&rd.bytes), "nodes": rd.nodes.len()}));
        }
    }
    // inputs without ground truth: soups and mutants (the index is total; parts still round-trip)
    for _ in 0..ctx.n(200, 2000, 2) {
        let len = r.below(300);
        let text = gj::json_soup(&mut r, len);
        let off = 1 + r.below(7);
        check_json_rt(&mut rep, &mut c, &text, None, &sample, off);
        bump(&mut c, "json.soup");
    }

    rep.note(format!("part C (JSON) done at {:.1}s", ctx.elapsed()));
    for (k, v) in c {
        rep.add(&k, v);
    }
    rep.note("misaligned input: the property demands success for all three conversion entry points; the borrowed forms cannot return &[u64] over misaligned bytes without copying, so their misaligned signatures are expected to end as known findings (DESIGN §7 item 4)");
    rep.note("anchor.* counters tie the original-vs-rebuilt differential to ground truth (generator node offsets, naive find_close, bit model); a non-zero *_mismatch counter is a C04/C06/C07 matter, not a serialization defect");

    if !ctx.tiny() {
        for e in ENTRY {
            rep.require(&format!("binary.misaligned.{e}"), 1000);
            rep.require(&format!("binary.aligned.{e}"), 1000);
        }
        rep.require("binary.bad_length", 1000);
        rep.require("binary.empty_slice", 9);
        rep.require("rt.bitvec", 100);
        rep.require("rt.bp", 100);
        rep.require("bp.class.balanced", 100);
        rep.require("bp.over_1024_words", 3);
        rep.require("rt.bp.raw_words_with_stray_last_word", 50);
        rep.require("rt.json.from_parts_owned", 300);
        rep.require("rt.json.from_parts_borrowed", 300);
        rep.require("rt.json.from_parts_via_semi_index", 300);
        rep.require("rt.semi.standard.misaligned", 300);
        rep.require("rt.semi.simple.misaligned", 300);
        rep.require("anchor.json_walk_matches_ground_truth", 300);
        rep.require("json.doc_over_3000_bytes", 5);
    } else {
        rep.require("binary.misaligned.bytes_to_words_vec", 10);
        rep.require("rt.json.from_parts_borrowed", 3);
        rep.require("rt.bp", 3);
    }
    rep
}
