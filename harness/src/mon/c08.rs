//! C08 — Strict JSON validation accepts exactly RFC 8259 documents.
//!
//! Oracle: `model::json_rec` (byte-driven pushdown recogniser typed in from RFC 8259 §2–§8.1,
//! depth bound 128) which returns Accept or `L`, the length of the longest prefix that can
//! still be extended to a valid document. Required of `json::validate::validate(x)`:
//!
//! * `is_ok()` ⇔ model accepts;
//! * on error `position.offset <= L` (and `<= len`);
//! * `position.line/column` = the 1-indexed line / 1-indexed *byte* column (as the `Position`
//!   docs state) of `position.offset`, with LF, CR and CRLF each ending a line.
//!
//! The recogniser is itself checked in every run: a hand-derived table of (input, L) pairs,
//! serde_json on the region where serde is faithful (nesting < 120, no f64 overflow), the
//! vendored JSONTestSuite `y_`/`n_` cases, and for a sample of rejected inputs the
//! constructive completion of `x[..L]` is confirmed by serde_json. A disagreement there is a
//! harness problem (`inconclusive`), never a violation.

use crate::gen::json as gj;
use crate::model::json_rec::{self as jr, Outcome};
use crate::report::{catch, hex, panic_sig, show_bytes, unhex, Ctx, Report};
use crate::rng::{fnv, mix, Rng};
use serde_json::{json, Value};
use succinctly::json::validate::{validate, ValidationErrorKind};

const DEPTH: usize = 128;

fn kind_name(k: &ValidationErrorKind) -> &'static str {
    use ValidationErrorKind as K;
    match k {
        K::UnexpectedCharacter { .. } => "UnexpectedCharacter",
        K::UnexpectedEof { .. } => "UnexpectedEof",
        K::TrailingContent => "TrailingContent",
        K::UnclosedString => "UnclosedString",
        K::InvalidEscape { .. } => "InvalidEscape",
        K::InvalidUnicodeEscape { .. } => "InvalidUnicodeEscape",
        K::UnpairedSurrogate { .. } => "UnpairedSurrogate",
        K::ControlCharacter { .. } => "ControlCharacter",
        K::LeadingZero => "LeadingZero",
        K::LeadingPlus => "LeadingPlus",
        K::InvalidNumber { .. } => "InvalidNumber",
        K::InvalidKeyword { .. } => "InvalidKeyword",
        K::InvalidUtf8 => "InvalidUtf8",
        K::NestingTooDeep { .. } => "NestingTooDeep",
    }
}

/// serde_json as second opinion: Some(true/false) where it is a faithful RFC 8259 oracle,
/// None where it is known to diverge (its own recursion limit, f64 range).
fn serde_verdict(x: &[u8], max_nesting: usize) -> Option<bool> {
    if max_nesting >= 120 {
        return None;
    }
    match serde_json::from_slice::<Value>(x) {
        Ok(_) => Some(true),
        Err(e) => {
            let m = e.to_string();
            if m.contains("out of range") || m.contains("recursion limit") {
                None
            } else {
                Some(false)
            }
        }
    }
}

/// Which kind of line terminator ends directly in front of the line containing `offset`.
fn terminator_class(x: &[u8], offset: usize, col: usize) -> &'static str {
    let start = offset + 1 - col;
    if start == 0 {
        "line1"
    } else if x[start - 1] == b'\n' {
        if start >= 2 && x[start - 2] == b'\r' {
            "after_crlf"
        } else {
            "after_lf"
        }
    } else {
        "after_cr"
    }
}

/// Try to refute "`dead` cannot be extended to a valid document" with serde_json over a
/// family of short extensions + closers. Returns a witness extension if serde accepts one.
fn refute_dead(dead: &[u8], closers: &[u8], small: bool) -> Option<Vec<u8>> {
    const ALPHA: &[u8] = b"\"\\{}[]:,-+.0123456789eEtrufalsn dDcCbB\x80\xbf\xa0\x90";
    const MID: &[&[u8]] = &[
        b"", b"\"", b"\":0", b"0", b":0", b"\"\"", b"\"\":0", b"0\"", b"00\"", b"000\"", b"1", b"\\uDC00\"", b"uDC00\"",
        b"\x80\"", b"\x80\x80\"", b"]", b"}", b"0\":0", b"00\":0",
    ];
    let mut exts: Vec<Vec<u8>> = vec![vec![]];
    for &a in ALPHA {
        exts.push(vec![a]);
        if small {
            continue;
        }
        for &b in ALPHA {
            exts.push(vec![a, b]);
        }
    }
    let mut buf = Vec::with_capacity(dead.len() + 32);
    for e in &exts {
        for m in MID {
            buf.clear();
            buf.extend_from_slice(dead);
            buf.extend_from_slice(e);
            buf.extend_from_slice(m);
            buf.extend_from_slice(closers);
            if serde_json::from_slice::<Value>(&buf).is_ok() {
                let mut w = e.clone();
                w.extend_from_slice(m);
                w.extend_from_slice(closers);
                return Some(w);
            }
        }
    }
    None
}

struct Chk {
    guards_left: usize,
    small_guard: bool,
    digest: u64,
    serde_every: u64,
    n: u64,
}

/// Check one input. `register`: count it as a distinct non-trivial case when it qualifies.
fn check_case(rep: &mut Report, c: &mut Chk, x: &[u8], origin: &str, register: bool) -> bool {
    c.n += 1;
    let (model, nesting) = jr::recognise_depth(x, DEPTH);
    let replay = || json!({"kind": "case", "origin": origin, "input_hex": hex(x)});

    // second opinion on the model (sampled; always when the model is about to be used against
    // the library, see below)
    let mut serde_checked = false;
    let mut model_ok = true;
    if c.n % c.serde_every == 0 {
        if let Some(sv) = serde_verdict(x, nesting) {
            serde_checked = true;
            rep.count("model.serde_compared");
            if sv != model.is_accept() {
                model_ok = false;
            }
        }
    }

    rep.eval();
    let got = match catch(|| validate(x)) {
        Ok(g) => g,
        Err(p) => {
            rep.violation(format!("C08:validate:panic:{}", panic_sig(&p)), p, replay());
            return false;
        }
    };
    c.digest = mix(c.digest, match &got {
        Ok(()) => u64::MAX,
        Err(e) => e.position.offset as u64,
    });

    // Any disagreement is double-checked against serde before it is reported.
    let disagree = got.is_ok() != model.is_accept();
    if disagree && !serde_checked {
        if let Some(sv) = serde_verdict(x, nesting) {
            rep.count("model.serde_compared");
            if sv != model.is_accept() {
                model_ok = false;
            }
        }
    }
    if !model_ok {
        rep.count("model.serde_disagree");
        rep.inconclusive(json!({"what": "recogniser disagrees with serde_json in serde's faithful region",
            "model": format!("{model:?}"), "input": show_bytes(x), "input_hex": hex(&x[..x.len().min(400)])}));
        return true;
    }

    let mut ok = true;
    match (&got, &model) {
        (Ok(()), Outcome::Accept) => {
            rep.count("verdict.accept");
            if register && nesting >= 1 {
                rep.nontrivial(fnv(x));
            }
        }
        (Ok(()), Outcome::Reject { viable, class }) => {
            ok = false;
            rep.violation(
                format!("C08:validate:accepts_invalid:{class}"),
                format!("validate() = Ok but the input is not an RFC 8259 text with nesting <= 128 (longest viable prefix {viable}, {class})"),
                replay(),
            );
        }
        (Err(e), Outcome::Accept) => {
            ok = false;
            rep.violation(
                format!("C08:validate:rejects_valid:{}", kind_name(&e.kind)),
                format!("validate() = Err({e}) but the input is a valid RFC 8259 text (nesting {nesting})"),
                replay(),
            );
        }
        (Err(e), Outcome::Reject { viable, class }) => {
            rep.count("verdict.reject");
            rep.count(&format!("kind.{}", kind_name(&e.kind)));
            rep.count(&format!("dead.{class}"));
            let off = e.position.offset;
            if register && *viable >= 1 {
                rep.nontrivial(fnv(x));
            }
            if off > x.len() {
                ok = false;
                rep.violation(
                    "C08:validate:offset_out_of_bounds",
                    format!("error offset {off} > input length {} ({e})", x.len()),
                    replay(),
                );
            } else if off > *viable {
                // Guard: try to refute the model's claim that x[..viable+1] is dead.
                let mut refuted = None;
                if c.guards_left > 0 && nesting < 120 && *viable < x.len() {
                    c.guards_left -= 1;
                    rep.count("model.dead_guard_runs");
                    let m = jr::run_prefix(&x[..*viable], DEPTH);
                    refuted = refute_dead(&x[..*viable + 1], &m.closers(), c.small_guard);
                }
                if let Some(w) = refuted {
                    rep.count("model.dead_guard_refuted");
                    rep.inconclusive(json!({"what": "serde_json accepts an extension of a prefix the recogniser calls dead",
                        "prefix_hex": hex(&x[..*viable + 1]), "extension_hex": hex(&w)}));
                    return true;
                }
                ok = false;
                // For the surrogate classes: is the reported offset still inside (or at the end
                // of) the `\uXXXX` unit whose digits decided the matter?
                let mut detail = String::new();
                if class.ends_with("surrogate_escape") {
                    let lo = viable.saturating_sub(5);
                    if let Some(bs) = (lo..=*viable).rev().find(|&i| x[i] == b'\\') {
                        detail = if off <= bs + 6 { ":within_escape_unit".into() } else { ":past_escape_unit".into() };
                    }
                }
                rep.violation(
                    format!("C08:validate:offset_beyond_viable_prefix:{class}:{}{detail}", kind_name(&e.kind)),
                    format!(
                        "error offset {off} ({}) but the longest prefix extendable to a valid document has length {viable} ({class}): x[..{}] cannot be completed",
                        kind_name(&e.kind),
                        viable + 1
                    ),
                    replay(),
                );
            } else if off == *viable {
                rep.count("offset.eq_viable");
            } else {
                rep.count("offset.lt_viable");
            }
            if off <= x.len() {
                let want = jr::line_col_at(x, off);
                let gotlc = (e.position.line, e.position.column);
                let tc = terminator_class(x, off, want.1);
                rep.count(&format!("linecol.{tc}"));
                if off == x.len() && want.0 > 1 && want.1 == 1 {
                    rep.count("linecol.eof_right_after_terminator");
                }
                rep.eval();
                if gotlc != want {
                    ok = false;
                    let what = if gotlc.0 != want.0 { "line" } else { "column" };
                    rep.violation(
                        format!("C08:validate:{what}_mismatch:{tc}:{}", kind_name(&e.kind)),
                        format!("offset {off}: reported line {} column {}, the offset is at line {} column {}", gotlc.0, gotlc.1, want.0, want.1),
                        replay(),
                    );
                }
            }
        }
    }
    ok
}

// ---------------------------------------------------------------------------------------
// model self-checks

/// (input, expected): None = accept, Some(L) = reject with longest viable prefix L.
/// Derived by hand from the RFC 8259 grammar.
const HAND: &[(&[u8], Option<usize>)] = &[
    (b"", Some(0)),
    (b" \t\r\n", Some(4)),
    (b"0", None),
    (b"-0", None),
    (b" 1 ", None),
    (b"01", Some(1)),
    (b"-01", Some(2)),
    (b"-", Some(1)),
    (b"-x", Some(1)),
    (b"+1", Some(0)),
    (b".5", Some(0)),
    (b"1.", Some(2)),
    (b"1.x", Some(2)),
    (b"1.5.", Some(3)),
    (b"1e", Some(2)),
    (b"1e+", Some(3)),
    (b"1e+x", Some(3)),
    (b"1E-07", None),
    (b"1e5e", Some(3)),
    (b"0x1", Some(1)),
    (b"1 2", Some(2)),
    (b"tru", Some(3)),
    (b"trux", Some(3)),
    (b"true", None),
    (b"truee", Some(4)),
    (b"nul", Some(3)),
    (b"nulL", Some(3)),
    (b"False", Some(0)),
    (b"[", Some(1)),
    (b"[]", None),
    (b"[,", Some(1)),
    (b"[1,]", Some(3)),
    (b"[1 ,\n]", Some(5)),
    (b"[1 2]", Some(3)),
    (b"[1}", Some(2)),
    (b"]", Some(0)),
    (b"{", Some(1)),
    (b"{}", None),
    (b"{}x", Some(2)),
    (b"{} \n", None),
    (b"{,", Some(1)),
    (b"{1", Some(1)),
    (b"{\"a\"", Some(4)),
    (b"{\"a\" 1", Some(5)),
    (b"{\"a\":", Some(5)),
    (b"{\"a\":}", Some(5)),
    (b"{\"a\":1,}", Some(7)),
    (b"{\"a\":1,\"b\"}", Some(10)),
    (b"{\"a\":1]", Some(6)),
    (b"\"", Some(1)),
    (b"\"a", Some(2)),
    (b"\"a\"", None),
    (b"\"a\"b", Some(3)),
    (b"\"\x1f\"", Some(1)),
    (b"\"\x7f\"", None),
    (b"\"\n\"", Some(1)),
    (b"\"\\", Some(2)),
    (b"\"\\x", Some(2)),
    (b"\"\\u", Some(3)),
    (b"\"\\u12", Some(5)),
    (b"\"\\u12G", Some(5)),
    (b"\"\\u12aF\"", None),
    (b"\"\\uD", Some(4)),
    (b"\"\\uD7", Some(5)),
    (b"\"\\uD7FF\"", None),
    (b"\"\\uDC", Some(4)),
    (b"\"\\udfff\"", Some(4)),
    (b"\"\\uD800", Some(7)),
    (b"\"\\uD800\"", Some(7)),
    (b"\"\\uD800\\", Some(8)),
    (b"\"\\uD800\\n", Some(8)),
    (b"\"\\uD800\\u", Some(9)),
    (b"\"\\uD800\\u0", Some(9)),
    (b"\"\\uD800\\uD", Some(10)),
    (b"\"\\uD800\\uD8", Some(10)),
    (b"\"\\uD800\\uDB", Some(10)),
    (b"\"\\uD800\\udc", Some(11)),
    (b"\"\\uDBFF\\uDFFF\"", None),
    (b"\"\\uDBFF\\uDFFF\\uDC00\"", Some(16)),
    (b"\"\xc3\xa9\"", None),
    (b"\"\xc3", Some(2)),
    (b"\"\xc3\"", Some(2)),
    (b"\"\x80", Some(1)),
    (b"\"\xc0\x80", Some(1)),
    (b"\"\xc1\xbf", Some(1)),
    (b"\"\xe0\x80\x80", Some(2)),
    (b"\"\xe0\xa0\x80\"", None),
    (b"\"\xe0\xa0", Some(3)),
    (b"\"\xed\xa0\x80", Some(2)),
    (b"\"\xed\x9f\xbf\"", None),
    (b"\"\xef\xbf\xbf\"", None),
    (b"\"\xf0\x8f\xbf\xbf", Some(2)),
    (b"\"\xf0\x90\x80\x80\"", None),
    (b"\"\xf0\x90\x80\"", Some(4)),
    (b"\"\xf4\x8f\xbf\xbf\"", None),
    (b"\"\xf4\x90\x80\x80", Some(2)),
    (b"\"\xf5", Some(1)),
    (b"\"\xff", Some(1)),
    (b"\xef\xbb\xbf1", Some(0)),
    (b"\x00", Some(0)),
    (b"[1]\x00", Some(3)),
    (b"/**/1", Some(0)),
    (b"[1,/**/2]", Some(3)),
    (b"'a'", Some(0)),
    (b"[NaN]", Some(1)),
    (b"[-Infinity]", Some(2)),
    (b"{\"a\":1 \"b\":2}", Some(7)),
    (b"{\"a\"::1}", Some(5)),
    (b"[\"a\":1]", Some(4)),
    (b"\x0c1", Some(0)),
    (b"\xc2\xa01", Some(0)),
];

fn model_hand_table(rep: &mut Report) {
    for (x, want) in HAND {
        let got = jr::recognise(x);
        let ok = match (want, &got) {
            (None, Outcome::Accept) => true,
            (Some(l), Outcome::Reject { viable, .. }) => l == viable,
            _ => false,
        };
        rep.count("model.hand_table");
        if !ok {
            rep.inconclusive(json!({"what": "recogniser fails its hand-derived table", "input": show_bytes(x),
                "want": format!("{want:?}"), "got": format!("{got:?}")}));
        }
    }
    // depth bound of the model itself
    for d in [1usize, 127, 128, 129, 130] {
        let mut x = vec![b'['; d];
        x.extend(std::iter::repeat(b']').take(d));
        let got = jr::recognise(&x);
        let ok = if d <= DEPTH { got.is_accept() } else { got == Outcome::Reject { viable: DEPTH, class: "depth" } };
        rep.count("model.hand_table");
        if !ok {
            rep.inconclusive(json!({"what": "recogniser depth bound", "depth": d, "got": format!("{got:?}")}));
        }
    }
}

/// x[..L] + completion must be accepted by the model and by serde_json (faithful region).
fn model_completion_check(rep: &mut Report, x: &[u8]) {
    let (o, _) = jr::recognise_depth(x, DEPTH);
    let Outcome::Reject { viable, .. } = o else { return };
    let m = jr::run_prefix(&x[..viable], DEPTH);
    let Some(c) = m.completion() else {
        rep.inconclusive(json!({"what": "no completion for a viable prefix", "prefix_hex": hex(&x[..viable])}));
        return;
    };
    let mut full = x[..viable].to_vec();
    full.extend_from_slice(&c);
    let (o2, nest) = jr::recognise_depth(&full, DEPTH);
    rep.count("model.completion_checked");
    let serde_ok = serde_verdict(&full, nest);
    if !o2.is_accept() || serde_ok == Some(false) {
        rep.inconclusive(json!({"what": "completion of the longest viable prefix is not a valid document",
            "model": format!("{o2:?}"), "serde": format!("{serde_ok:?}"), "full_hex": hex(&full[..full.len().min(400)])}));
    } else if serde_ok == Some(true) {
        rep.count("model.completion_confirmed_by_serde");
    }
}

fn b64_decode(s: &str) -> Vec<u8> {
    let mut out = Vec::new();
    let mut acc = 0u32;
    let mut bits = 0u32;
    for ch in s.bytes() {
        let v = match ch {
            b'A'..=b'Z' => ch - b'A',
            b'a'..=b'z' => ch - b'a' + 26,
            b'0'..=b'9' => ch - b'0' + 52,
            b'+' => 62,
            b'/' => 63,
            _ => continue,
        };
        acc = (acc << 6) | v as u32;
        bits += 6;
        if bits >= 8 {
            bits -= 8;
            out.push((acc >> bits) as u8);
            acc &= (1 << bits) - 1;
        }
    }
    out
}

/// JSONTestSuite corpus vendored in the repository under test (data only).
fn load_test_suite() -> Vec<(String, Vec<u8>)> {
    let dir = "/repo/tests/data";
    let mut out = Vec::new();
    let Ok(rd) = std::fs::read_dir(dir) else { return out };
    let mut files: Vec<_> = rd
        .filter_map(|e| e.ok())
        .map(|e| e.path())
        .filter(|p| {
            let n = p.file_name().and_then(|n| n.to_str()).unwrap_or("");
            n.starts_with("json-test-suite-") && n.ends_with(".json")
        })
        .collect();
    files.sort();
    for f in files {
        let Ok(txt) = std::fs::read_to_string(&f) else { continue };
        let Ok(Value::Array(items)) = serde_json::from_str::<Value>(&txt) else { continue };
        for it in items {
            if let (Some(id), Some(b)) = (it["id"].as_str(), it["bytes_b64"].as_str()) {
                out.push((id.to_string(), b64_decode(b)));
            }
        }
    }
    out
}

// ---------------------------------------------------------------------------------------
// workloads

const FIXED_SMALL: &[&[u8]] = &[
    b"{\"a\":[1,-0.5e+3,true,false,null,\"x\\u00e9\\n\"]}",
    b"[\"\\uD83D\\uDE00\",\"\xf0\x9f\x98\x80\",\"\xc3\xa9\"]",
    b" [ 1 , 2 ]\r\n",
    b"{\r\n \"k\" : {\n\"k\":[]}\r}",
    b"[0,-0,0.0,1E2,1e-2,10,9.25]",
    b"\"\\\"\\\\\\/\\b\\f\\n\\r\\t\"",
    b"[[],{},[{}],{\"\":[]}]",
    b"null",
    b"-12.5e-3",
    b"\"\"",
    b"\t{\"a\\u0041\":\"\xe2\x82\xac\"}\n",
    b"[true,false,null]",
];

fn small_doc(r: &mut Rng, max_len: usize) -> Vec<u8> {
    for _ in 0..50 {
        let o = gj::TreeOpts {
            max_depth: r.range(0, 3),
            max_width: r.range(1, 3),
            budget: r.range(1, 7),
            dup_keys: r.chance(1, 6),
            str_class: r.below(4) as u8,
            max_str: 4,
            num_class: r.below(3) as u8,
            simple_keys: r.bool(),
        };
        let v = gj::gen_tree(r, &o);
        let ro = gj::RenderOpts { ws: r.below(3) as u8, esc: r.below(3) as u8, align_to: None };
        let rd = gj::render(r, &ro, &v);
        if rd.bytes.len() <= max_len {
            return rd.bytes;
        }
    }
    b"[1]".to_vec()
}

fn exhaustive_sweep(rep: &mut Report, c: &mut Chk, doc: &[u8], all_bytes: bool) {
    let n = doc.len();
    let values: Vec<u8> = if all_bytes { (0..=255u8).collect() } else { gj::JSON_HOT_BYTES.to_vec() };
    let hot = |b: u8| gj::JSON_HOT_BYTES.contains(&b);
    let mut buf = Vec::with_capacity(n + 1);
    let mut replaced = 0u64;
    for i in 0..n {
        for &b in &values {
            if b == doc[i] {
                continue;
            }
            buf.clear();
            buf.extend_from_slice(doc);
            buf[i] = b;
            check_case(rep, c, &buf, "replace", hot(b));
            replaced += 1;
        }
    }
    rep.add("mut.replace", replaced);
    for i in 0..=n {
        for &b in &values {
            buf.clear();
            buf.extend_from_slice(&doc[..i]);
            buf.push(b);
            buf.extend_from_slice(&doc[i..]);
            check_case(rep, c, &buf, "insert", hot(b));
        }
    }
    rep.add("mut.insert", ((n + 1) * values.len()) as u64);
    for i in 0..n {
        buf.clear();
        buf.extend_from_slice(&doc[..i]);
        buf.extend_from_slice(&doc[i + 1..]);
        check_case(rep, c, &buf, "delete", true);
    }
    rep.add("mut.delete", n as u64);
    for i in 0..=n {
        check_case(rep, c, &doc[..i], "truncate", true);
    }
    rep.add("mut.truncate", (n + 1) as u64);
}

fn deep_doc(r: &mut Rng, depth: usize, kind: u8, ws: u8) -> Vec<u8> {
    let v = gj::gen_deep(r, depth, kind);
    let ro = gj::RenderOpts { ws, esc: 0, align_to: None };
    gj::render(r, &ro, &v).bytes
}

pub fn run(ctx: &Ctx) -> Report {
    let mut rep = Report::new("C08", "c08");
    rep.rule = "case = one byte string given to json::validate::validate; compared with an independent RFC 8259 \
                pushdown recogniser (accept / longest viable prefix L) and a CR/LF/CRLF line model; non-trivial = \
                accepted input with >= 1 container, or rejected input with L >= 1 (near-valid); distinct by hash of \
                the input bytes (in the all-256-values sweeps only the JSON-significant byte values are registered)"
        .into();
    rep.assumptions.push(
        "RFC 8259 §7 read as: an escaped surrogate code unit is only valid as part of a \\uD800-\\uDBFF + \\uDC00-\\uDFFF \
         pair (the validator's module docs say the same: 'String escape sequences (including surrogate pairs)')"
            .into(),
    );
    rep.assumptions.push(
        "line/column of an offset: 1-indexed line, 1-indexed byte column (Position docs); LF, CR and CRLF each end a \
         line; the position right after a terminator is column 1 of the next line, also at end of input"
            .into(),
    );
    let mut c = Chk { guards_left: if ctx.tiny() { 0 } else { 200 }, small_guard: ctx.tiny(), digest: 0, serde_every: 3, n: 0 };

    if let Some(rp) = &ctx.replay {
        let x = unhex(rp["input_hex"].as_str().unwrap_or(""));
        c.serde_every = 1;
        check_case(&mut rep, &mut c, &x, "replay", true);
        return rep;
    }
    let mut r = Rng::new(ctx.shard_seed());
    let tiny = ctx.tiny();

    // ---- model self-checks -------------------------------------------------------------
    model_hand_table(&mut rep);
    for (i, (x, _)) in HAND.iter().enumerate() {
        check_case(&mut rep, &mut c, x, "hand", true);
        if !tiny || i % 8 == 0 {
            model_completion_check(&mut rep, x);
        }
    }
    if !tiny {
        let suite = load_test_suite();
        for (id, bytes) in &suite {
            let got = jr::recognise(bytes);
            let want = if id.starts_with("y_") {
                Some(true)
            } else if id.starts_with("n_") {
                Some(false)
            } else {
                None
            };
            if let Some(w) = want {
                rep.count("model.testsuite_compared");
                if got.is_accept() != w {
                    rep.inconclusive(json!({"what": "recogniser disagrees with JSONTestSuite verdict", "id": id, "got": format!("{got:?}")}));
                }
            }
            check_case(&mut rep, &mut c, bytes, "testsuite", true);
        }
    }

    // ---- W1: generated documents as they are (must be accepted) + model vs serde ----------
    let mut big_docs: Vec<Vec<u8>> = Vec::new();
    for i in 0..ctx.n(3000, 40000, 6) {
        let (_, rd) = gj::gen_doc(&mut r);
        if tiny && rd.bytes.len() > 300 {
            continue;
        }
        let save = c.serde_every;
        c.serde_every = 1;
        check_case(&mut rep, &mut c, &rd.bytes, "gen_doc", true);
        c.serde_every = save;
        rep.count("w.gen_doc");
        if i < 2 {
            rep.sample(json!({"workload": "gen_doc", "input": show_bytes(&rd.bytes), "model": format!("{:?}", jr::recognise(&rd.bytes))}));
        }
        if big_docs.len() < 400 {
            big_docs.push(rd.bytes);
        }
    }

    // ---- W2: every single-byte replace/insert/delete/truncate of small documents ----------
    let mut smalls: Vec<Vec<u8>> = Vec::new();
    if !tiny {
        smalls.extend(FIXED_SMALL.iter().map(|d| d.to_vec()));
    }
    for _ in 0..ctx.n(1000, 14000, 1) {
        smalls.push(small_doc(&mut r, if tiny { 6 } else { 40 }));
    }
    for (i, d) in smalls.iter().enumerate() {
        let before = rep.violations_total;
        exhaustive_sweep(&mut rep, &mut c, d, !tiny);
        rep.count("w.exhaustive_docs");
        if i == 0 || (before == rep.violations_total && i == 13) {
            rep.sample(json!({"workload": "exhaustive single-byte sweep (all 256 values)", "doc": show_bytes(d)}));
        }
    }

    // ---- W3: larger documents: hot bytes at sampled offsets, random multi-mutations --------
    for d in big_docs.iter().take(ctx.n(300, 400, 2)) {
        if d.is_empty() {
            continue;
        }
        let per = ctx.n(600, 8000, 20);
        for k in 0..per {
            let mut x = d.clone();
            let muts = 1 + (k % 3 == 2) as usize;
            for _ in 0..muts {
                let m = gj::random_mutation(&mut r, x.len());
                x = gj::apply_mutation(&x, &m);
            }
            check_case(&mut rep, &mut c, &x, "big_mut", true);
            if k % 64 == 0 {
                model_completion_check(&mut rep, &x);
            }
        }
        rep.add("w.big_mut", per as u64);
    }

    // ---- W4: nesting depth around the bound -------------------------------------------------
    for depth in 120..=136usize {
        for kind in 0..3u8 {
            for rep_i in 0..ctx.n(3, 12, 1) {
                if tiny && !(128..=129).contains(&depth) {
                    continue;
                }
                let ws = (rep_i % 3) as u8;
                let x = deep_doc(&mut r, depth, kind, ws);
                check_case(&mut rep, &mut c, &x, "deep", true);
                rep.count(if depth <= DEPTH { "depth.le_128" } else { "depth.gt_128" });
                if depth == 128 {
                    rep.count("depth.exactly_128");
                }
                if depth == 129 {
                    rep.count("depth.exactly_129");
                }
                // prefixes and mutations of deep documents
                if !tiny {
                    for _ in 0..6 {
                        let cut = r.below(x.len() + 1);
                        check_case(&mut rep, &mut c, &x[..cut], "deep_truncate", true);
                        let m = gj::random_mutation(&mut r, x.len());
                        check_case(&mut rep, &mut c, &gj::apply_mutation(&x, &m), "deep_mut", true);
                    }
                }
            }
        }
    }
    // depth is nesting, not a count of containers: siblings at the bound; empty containers
    for open in [b'[', b'{'] {
        for d in [127usize, 128, 129] {
            let (o, cl): (&[u8], &[u8]) = if open == b'[' { (b"[", b"]") } else { (b"{\"k\":", b"}") };
            // d-1 wrappers around two sibling empty containers
            let mut x = Vec::new();
            for _ in 0..d - 1 {
                x.extend_from_slice(o);
            }
            x.extend_from_slice(b"[[],{},[ ],{ }]");
            // the literal above adds 2 levels: wrapper array + empty child
            for _ in 0..d - 1 {
                x.extend_from_slice(cl);
            }
            check_case(&mut rep, &mut c, &x, "deep_siblings", true);
            rep.count("depth.siblings");
        }
    }

    // ---- W5: \uXXXX escapes exhaustively (single and as second half) ------------------------
    {
        let step = if tiny { 2999 } else { 1 };
        let mut h = 0usize;
        while h < 0x10000 {
            let upper = h % 2 == 0;
            let one = if upper { format!("\"\\u{h:04X}\"") } else { format!("\"\\u{h:04x}\"") };
            check_case(&mut rep, &mut c, one.as_bytes(), "u_escape", false);
            let two = format!("[\"\\uD83D\\u{h:04x}\"]");
            check_case(&mut rep, &mut c, two.as_bytes(), "u_escape_pair", false);
            if h % 16 == 0 {
                let three = format!("\"\\u{:04x}\\uDC00\"", h);
                check_case(&mut rep, &mut c, three.as_bytes(), "u_escape_then_low", false);
            }
            h += step;
        }
        rep.count("w.u_escape_sweep");
    }

    // ---- W6: UTF-8 byte sequences inside a string ---------------------------------------------
    {
        let stride = if tiny { 3999 } else if ctx.thorough() { 1 } else { 3 };
        // all 2-byte combinations
        let mut k = r.below(stride);
        while k < 0x10000 {
            let x = [b'"', (k >> 8) as u8, k as u8, b'"'];
            check_case(&mut rep, &mut c, &x, "utf8_2", false);
            k += stride;
        }
        // 3-byte: interesting leads x all second bytes x boundary third bytes
        for (li, lead) in [0xE0u8, 0xED, 0xF0, 0xF4, 0xC2, 0xE1, 0xEC, 0xEE, 0xEF, 0xF1, 0xF3, 0xF5, 0xF8, 0xC0, 0xDF].into_iter().enumerate() {
            if tiny && li >= 5 {
                break;
            }
            let mut b2 = 0usize;
            while b2 < 256 {
                for b3 in [0x00u8, 0x22, 0x7F, 0x80, 0xBF, 0xC0, 0xFF] {
                    for b4 in [0x22u8, 0x80, 0xBF, 0xC0] {
                        let x = [b'[', b'"', lead, b2 as u8, b3, b4, b'"', b']'];
                        check_case(&mut rep, &mut c, &x, "utf8_34", false);
                    }
                }
                b2 += if tiny { 97 } else { 1 };
            }
        }
        rep.count("w.utf8_sweep");
    }

    // ---- W7: random bytes and token soup ----------------------------------------------------
    for _ in 0..ctx.n(80000, 1500000, 30) {
        let n = r.small_len(if tiny { 40 } else { 300 });
        let x = if r.bool() { gj::json_soup(&mut r, n) } else { r.bytes(n) };
        check_case(&mut rep, &mut c, &x, "soup", true);
        if c.n % 50 == 0 {
            model_completion_check(&mut rep, &x);
        }
    }
    rep.count("w.soup");

    // ---- W8: whitespace / line structure in front of an error --------------------------------
    {
        const GAPS: &[&[u8]] = &[b"\n", b"\r", b"\r\n", b"\n\r", b"\r\r\n", b" ", b"\t", b"\n\n", b"\r\n\r\n", b" \r \n"];
        const TAILS: &[&[u8]] = &[b"", b"x", b"]", b",", b"\"a", b"01", b"tru", b"-", b"\"\\uDC00\"", b"1 1", b"\"\x01\"", b"\"\xff\""];
        for _ in 0..ctx.n(30000, 500000, 20) {
            let mut x = Vec::new();
            let toks: &[&[u8]] = &[b"[", b"{", b"\"k\"", b":", b"1", b",", b"]", b"}", b"null", b"\"s\""];
            // a plausible structural prefix with random gaps
            let depth = r.below(4);
            for _ in 0..r.below(3) {
                x.extend_from_slice(*r.pick(GAPS));
            }
            for _ in 0..depth {
                x.push(b'[');
                for _ in 0..r.below(3) {
                    x.extend_from_slice(*r.pick(GAPS));
                }
            }
            for _ in 0..r.below(4) {
                x.extend_from_slice(*r.pick(toks));
                for _ in 0..r.below(3) {
                    x.extend_from_slice(*r.pick(GAPS));
                }
            }
            x.extend_from_slice(*r.pick(TAILS));
            for _ in 0..r.below(2) {
                x.extend_from_slice(*r.pick(GAPS));
            }
            check_case(&mut rep, &mut c, &x, "lines", true);
        }
        rep.count("w.lines");
    }

    rep.digest("c08.verdict_offsets", c.digest);
    rep.sample(json!({"counters_note": "kind.* = validator error kinds seen; dead.* = recogniser death classes; offset.* = relation of reported offset to L"}));

    if !tiny {
        for k in [
            "kind.UnexpectedCharacter",
            "kind.UnexpectedEof",
            "kind.TrailingContent",
            "kind.UnclosedString",
            "kind.InvalidEscape",
            "kind.InvalidUnicodeEscape",
            "kind.UnpairedSurrogate",
            "kind.ControlCharacter",
            "kind.LeadingZero",
            "kind.LeadingPlus",
            "kind.InvalidNumber",
            "kind.InvalidKeyword",
            "kind.InvalidUtf8",
            "kind.NestingTooDeep",
        ] {
            rep.require(k, 20);
        }
        for k in ["dead.depth", "dead.utf8", "dead.number", "dead.literal", "dead.structure", "dead.trailing", "dead.escape",
            "dead.unicode_escape", "dead.control_char", "dead.value", "dead.incomplete"] {
            rep.require(k, 20);
        }
        rep.require("verdict.accept", 2000);
        rep.require("verdict.reject", 100000);
        rep.require("offset.eq_viable", 10000);
        rep.require("offset.lt_viable", 100);
        rep.require("linecol.after_lf", 500);
        rep.require("linecol.after_cr", 500);
        rep.require("linecol.after_crlf", 500);
        rep.require("linecol.eof_right_after_terminator", 50);
        rep.require("depth.exactly_128", 9);
        rep.require("depth.exactly_129", 9);
        rep.require("model.serde_compared", 50000);
        rep.require("model.completion_confirmed_by_serde", 100);
        rep.require("model.testsuite_compared", 200);
        rep.require("w.exhaustive_docs", 100);
    }
    rep
}
