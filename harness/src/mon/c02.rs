//! C02 — word-level bit kernels are exact on every word.
//!
//! Oracle: the bit-serial definitions in `model::bits`. Every select variant (the dispatcher
//! `succinctly::select_in_word`, PDEP, CTZ loop, broadword, byte table) is driven directly
//! through the `verif_hooks` wrappers, so all paths run on this host whatever the dispatcher
//! would choose; which paths actually ran is recorded in `path.*` counters. Enumerated
//! sub-spaces are listed in `exhaustive`; everything else is sampled.

use crate::gen::bits as gb;
use crate::model::bits as mb;
use crate::report::{catch, panic_sig, Ctx, Report};
use crate::rng::{mix, Rng};
use serde_json::{json, Value};
use succinctly::bits::{block_popcount_portable, scan_select, scan_select_scalar, select_from, BLOCK};
use succinctly::trees::{find_close_in_word, find_unmatched_close_in_word};
use succinctly::verif_hooks as vh;
use succinctly::{popcount_word, popcount_word_portable, popcount_words, select_in_word};

struct Env {
    bmi2: bool,
    avx2: bool,
    fast_bmi2: bool,
}

fn detect() -> Env {
    #[cfg(target_arch = "x86_64")]
    {
        Env { bmi2: std::arch::is_x86_feature_detected!("bmi2"), avx2: std::arch::is_x86_feature_detected!("avx2"), fast_bmi2: vh::has_fast_bmi2() }
    }
    #[cfg(not(target_arch = "x86_64"))]
    {
        Env { bmi2: false, avx2: false, fast_bmi2: false }
    }
}

#[inline]
fn pdep(env: &Env, x: u64, k: u32) -> Option<u32> {
    #[cfg(target_arch = "x86_64")]
    {
        if env.bmi2 {
            // SAFETY: BMI2 was detected at run time.
            return Some(unsafe { vh::select_in_word_pdep(x, k) });
        }
    }
    let _ = (env, x, k);
    None
}

#[inline]
fn block_avx2(env: &Env, block: &[u64]) -> Option<usize> {
    #[cfg(target_arch = "x86_64")]
    {
        if env.avx2 && block.len() == BLOCK {
            // SAFETY: AVX2 was detected at run time and the block has exactly BLOCK words.
            return Some(unsafe { vh::block_popcount_avx2(block) });
        }
    }
    let _ = (env, block);
    None
}

#[derive(Default)]
struct Dig {
    select: u64,
    select_pdep: u64,
    popcount: u64,
    scan: u64,
    block_avx2: u64,
    parens: u64,
}
#[inline]
fn dg(h: &mut u64, x: u64) {
    *h = (*h ^ x).wrapping_mul(0x0000_0100_0000_01B3).rotate_left(29);
}

#[derive(Default)]
struct Hot {
    disp: u64,
    ctz: u64,
    bw: u64,
    pdep: u64,
    byte: u64,
    sel_none: u64,
    sel_found: u64,
    k_ge_64: u64,
    pc_word: u64,
    pc_portable: u64,
    close_found: u64,
    close_beyond: u64,
    close_on_close: u64,
    close_p_ge_64: u64,
    unmatched_found: u64,
    unmatched_none: u64,
}

/// All select variants on (x, k). Returns false after recording a violation.
#[inline]
fn check_select(rep: &mut Report, env: &Env, hot: &mut Hot, d: &mut Dig, x: u64, k: u32, want: u32) -> bool {
    let got_d = select_in_word(x, k);
    let got_c = vh::select_in_word_ctz(x, k);
    let got_b = vh::select_in_word_broadword(x, k);
    let got_p = pdep(env, x, k);
    hot.disp += 1;
    hot.ctz += 1;
    hot.bw += 1;
    rep.evals(3);
    dg(&mut d.select, got_d as u64);
    dg(&mut d.select, got_c as u64);
    dg(&mut d.select, got_b as u64);
    if let Some(p) = got_p {
        hot.pdep += 1;
        rep.eval();
        dg(&mut d.select_pdep, p as u64);
    }
    if want == 64 {
        hot.sel_none += 1;
    } else {
        hot.sel_found += 1;
    }
    if k >= 64 {
        hot.k_ge_64 += 1;
    }
    if got_d == want && got_c == want && got_b == want && got_p.unwrap_or(want) == want {
        return true;
    }
    let rp = json!({"kind": "select", "word": format!("{x:x}"), "k": k});
    for (name, got) in [("select_in_word", Some(got_d)), ("select_in_word_ctz", Some(got_c)), ("select_in_word_broadword", Some(got_b)), ("select_in_word_pdep", got_p)] {
        if let Some(g) = got {
            if g != want {
                let class = if want == 64 { "not_64_when_too_few_bits" } else if g == 64 { "64_when_bit_exists" } else { "wrong_position" };
                rep.violation(format!("C02:{name}:{class}"), format!("{name}({x:#018x}, {k}) = {g}, bit-serial definition {want}"), rp.clone());
            }
        }
    }
    false
}

#[inline]
fn check_popcount(rep: &mut Report, hot: &mut Hot, d: &mut Dig, x: u64, want: u32) {
    let a = popcount_word(x);
    let b = popcount_word_portable(x);
    hot.pc_word += 1;
    hot.pc_portable += 1;
    rep.evals(2);
    dg(&mut d.popcount, a as u64);
    dg(&mut d.popcount, b as u64);
    if a != want {
        rep.violation("C02:popcount_word:mismatch", format!("popcount_word({x:#018x}) = {a}, serial {want}"), json!({"kind": "popcount", "word": format!("{x:x}")}));
    }
    if b != want {
        rep.violation("C02:popcount_word_portable:mismatch", format!("popcount_word_portable({x:#018x}) = {b}, serial {want}"), json!({"kind": "popcount", "word": format!("{x:x}")}));
    }
}

/// find_close_in_word for every listed p and find_unmatched_close_in_word, against the
/// serial definitions (`table` = pushdown table of the word, cross-checked separately).
fn check_parens(rep: &mut Report, hot: &mut Hot, d: &mut Dig, x: u64, ps: &[u32], table: Option<&[u8; 64]>) {
    let wu = mb::unmatched_close(x);
    let gu = find_unmatched_close_in_word(x);
    rep.eval();
    dg(&mut d.parens, gu as u64);
    if wu == 64 {
        hot.unmatched_none += 1;
    } else {
        hot.unmatched_found += 1;
    }
    if gu != wu {
        rep.violation("C02:find_unmatched_close_in_word:mismatch", format!("find_unmatched_close_in_word({x:#018x}) = {gu}, serial {wu}"), json!({"kind": "parens", "word": format!("{x:x}"), "p": 0}));
    }
    for &p in ps {
        let want = match table {
            Some(t) if p < 64 => {
                if (x >> p) & 1 == 0 {
                    Some(p)
                } else if t[p as usize] == 64 {
                    None
                } else {
                    Some(t[p as usize] as u32)
                }
            }
            _ => mb::close_in_word(x, p as u64),
        };
        let got = find_close_in_word(x, p);
        rep.eval();
        dg(&mut d.parens, got.map(|v| v as u64).unwrap_or(99));
        if p >= 64 {
            hot.close_p_ge_64 += 1;
        } else if (x >> p) & 1 == 0 {
            hot.close_on_close += 1;
        } else if want.is_some() {
            hot.close_found += 1;
        } else {
            hot.close_beyond += 1;
        }
        if got != want {
            let class = if p >= 64 {
                "p_ge_64"
            } else if (x >> p) & 1 == 0 {
                "close_bit_convention"
            } else if want.is_none() {
                "some_when_match_is_beyond_word"
            } else if got.is_none() {
                "none_when_match_in_word"
            } else {
                "wrong_position"
            };
            rep.violation(format!("C02:find_close_in_word:{class}"), format!("find_close_in_word({x:#018x}, {p}) = {got:?}, serial {want:?}"), json!({"kind": "parens", "word": format!("{x:x}"), "p": p}));
        }
    }
}

/// Block popcount kernels and the scans on one word array.
fn check_scan(rep: &mut Report, env: &Env, loc: &mut std::collections::BTreeMap<&'static str, u64>, d: &mut Dig, words: &[u64], start: usize, remaining: usize, light: bool) {
    let want = mb::scan(words, start, remaining as u64);
    let rp = || json!({"kind": "scan", "words_rle": gb::words_to_rle(words), "start": start, "remaining": remaining.to_string()});
    // classify by where the target lies relative to the start (prologue 8 words, then blocks)
    let class: &'static str = match want {
        None => {
            if start >= words.len() {
                "scan.start_past_end"
            } else {
                "scan.not_enough_bits"
            }
        }
        Some((w, _)) => {
            let dist = w - start;
            if dist < 8 {
                "scan.ends_in_prologue"
            } else {
                let after = start + 8;
                let blocks_end = after + ((words.len() - after) / BLOCK) * BLOCK;
                if w >= blocks_end {
                    "scan.ends_in_tail"
                } else if dist >= 16 {
                    "scan.ends_in_block_loop_after_skips"
                } else {
                    "scan.ends_in_first_block"
                }
            }
        }
    };
    *loc.entry(class).or_insert(0) += 1;
    for (name, f) in [("scan_select", scan_select as fn(&[u64], usize, usize) -> Option<(usize, usize)>), ("scan_select_scalar", scan_select_scalar)] {
        rep.eval();
        match catch(|| f(words, start, remaining)) {
            Ok(got) => {
                dg(&mut d.scan, got.map(|(a, b)| (a as u64) << 8 ^ b as u64).unwrap_or(u64::MAX));
                if got != want {
                    let cls = match (got, want) {
                        (Some(_), None) => "some_when_none",
                        (None, Some(_)) => "none_when_some",
                        _ => "wrong_word_or_rank",
                    };
                    rep.violation(format!("C02:{name}:{cls}"), format!("{name}({} words, start {start}, remaining {remaining}) = {got:?}, serial {want:?} [{class}]", words.len()), rp());
                }
            }
            Err(p) => rep.violation(format!("C02:{name}:panic:{}", panic_sig(&p)), format!("{name}({} words, {start}, {remaining}) panicked: {p}", words.len()), rp()),
        }
    }
    // select_from = scan + in-word select. The in-word rank is < 64 whenever the scan
    // succeeds, so the u32 cast inside is lossless.
    rep.eval();
    let wantp = mb::scan_pos(words, start, remaining as u64);
    match catch(|| select_from(words, start, remaining)) {
        Ok(got) => {
            dg(&mut d.scan, got.map(|a| a as u64).unwrap_or(u64::MAX));
            if got != wantp {
                rep.violation("C02:select_from:mismatch", format!("select_from({} words, start {start}, remaining {remaining}) = {got:?}, serial {wantp:?}", words.len()), rp());
            }
        }
        Err(p) => rep.violation(format!("C02:select_from:panic:{}", panic_sig(&p)), format!("select_from panicked: {p}"), rp()),
    }
    // popcount_words over the whole array and over the scanned suffix
    for sl in [words, &words[start.min(words.len())..]] {
        rep.eval();
        let want: usize = sl.iter().map(|&w| mb::popcount(w) as usize).sum();
        let got = popcount_words(sl);
        dg(&mut d.popcount, got as u64);
        if got != want {
            rep.violation("C02:popcount_words:mismatch", format!("popcount_words({} words) = {got}, serial {want}", sl.len()), json!({"kind": "scan", "words_rle": gb::words_to_rle(sl), "start": 0, "remaining": "0"}));
        }
        *loc.entry(if sl.len() >= 8 { "popcount_words.ge_8_words" } else { "popcount_words.lt_8_words" }).or_insert(0) += 1;
        if sl.len() >= 8 && sl.len() % 8 != 0 {
            *loc.entry("popcount_words.ge_8_with_tail").or_insert(0) += 1;
        }
    }
    // every aligned-or-not window of BLOCK words
    if words.len() >= BLOCK {
        let mut o = 0usize;
        while o + BLOCK <= words.len() {
            check_block(rep, env, loc, d, &words[o..o + BLOCK]);
            o += if light { 29 } else { 3 };
        }
    }
    let _ = env;
}

fn check_block(rep: &mut Report, env: &Env, loc: &mut std::collections::BTreeMap<&'static str, u64>, d: &mut Dig, block: &[u64]) {
    let want: usize = block.iter().map(|&w| mb::popcount(w) as usize).sum();
    let rp = || json!({"kind": "block", "words_rle": gb::words_to_rle(block)});
    rep.eval();
    let gp = block_popcount_portable(block);
    dg(&mut d.scan, gp as u64);
    *loc.entry("path.block_popcount_portable").or_insert(0) += 1;
    if gp != want {
        rep.violation("C02:block_popcount_portable:mismatch", format!("block_popcount_portable = {gp}, serial {want}"), rp());
    }
    if let Some(ga) = block_avx2(env, block) {
        rep.eval();
        dg(&mut d.block_avx2, ga as u64);
        *loc.entry("path.block_popcount_avx2").or_insert(0) += 1;
        if want > 255 {
            *loc.entry("block.total_over_255").or_insert(0) += 1;
        }
        if ga != want {
            let class = if want > 255 { "mismatch_total_over_255" } else { "mismatch" };
            rep.violation(format!("C02:block_popcount_avx2:{class}"), format!("block_popcount_avx2 = {ga}, serial {want}"), rp());
        }
    }
}

fn parse_hex(v: &Value) -> u64 {
    v.as_str().and_then(|s| u64::from_str_radix(s, 16).ok()).unwrap_or(0)
}

fn replay(rep: &mut Report, env: &Env, rp: &Value) {
    let mut hot = Hot::default();
    let mut d = Dig::default();
    let mut loc = std::collections::BTreeMap::new();
    match rp["kind"].as_str().unwrap_or("") {
        "select" => {
            let x = parse_hex(&rp["word"]);
            let k = rp["k"].as_u64().unwrap_or(0) as u32;
            check_select(rep, env, &mut hot, &mut d, x, k, mb::select_in(x, 64, k as u64, 64));
        }
        "byte" => {
            let b = rp["byte"].as_u64().unwrap_or(0) as u8;
            let k = rp["k"].as_u64().unwrap_or(0) as u32;
            rep.eval();
            let got = vh::select_in_byte(b, k);
            let want = mb::select_in(b as u64, 8, k as u64, 8);
            if got != want {
                rep.violation("C02:select_in_byte:mismatch", format!("select_in_byte({b:#04x}, {k}) = {got}, serial {want}"), rp.clone());
            }
        }
        "popcount" => {
            let x = parse_hex(&rp["word"]);
            check_popcount(rep, &mut hot, &mut d, x, mb::popcount(x));
        }
        "parens" => {
            let x = parse_hex(&rp["word"]);
            let ps: Vec<u32> = (0..=70).chain([rp["p"].as_u64().unwrap_or(0) as u32]).collect();
            check_parens(rep, &mut hot, &mut d, x, &ps, None);
        }
        "scan" => {
            let w = gb::words_from_rle(&rp["words_rle"]);
            let start = rp["start"].as_u64().unwrap_or(0) as usize;
            let rem = rp["remaining"].as_str().and_then(|s| s.parse::<usize>().ok()).unwrap_or(0);
            check_scan(rep, env, &mut loc, &mut d, &w, start, rem, false);
        }
        "block" => {
            let w = gb::words_from_rle(&rp["words_rle"]);
            if w.len() == BLOCK {
                check_block(rep, env, &mut loc, &mut d, &w);
            }
        }
        "word" | "lanes" => {
            let xs: Vec<u64> = if rp["kind"] == "word" {
                vec![parse_hex(&rp["word"])]
            } else {
                let bg = parse_hex(&rp["background"]);
                let pat = rp["pattern"].as_u64().unwrap_or(0);
                (0..4).map(|lane| (bg & !(0xFFFFu64 << (16 * lane))) | (pat << (16 * lane))).collect()
            };
            let ps: Vec<u32> = (0..=70).collect();
            for x in xs {
                let res = catch(|| {
                    for k in (0..=66u32).chain([u32::MAX]) {
                        check_select(rep, env, &mut hot, &mut d, x, k, mb::select_in(x, 64, k as u64, 64));
                    }
                    check_popcount(rep, &mut hot, &mut d, x, mb::popcount(x));
                    check_parens(rep, &mut hot, &mut d, x, &ps, None);
                });
                if let Err(p) = res {
                    rep.violation(format!("C02:word_kernel:panic:{}", panic_sig(&p)), p, rp.clone());
                }
            }
        }
        _ => rep.note("unknown replay kind"),
    }
}

pub fn run(ctx: &Ctx) -> Report {
    let mut rep = Report::new("C02", "c02");
    rep.rule = "case = one 64-bit word (or one word array for the scans) with all its arguments; every kernel \
                answer compared with a bit-serial definition; non-trivial = word that is neither 0 nor all-ones; \
                distinct by the word value (sampled part) — enumerated sub-spaces are listed in `exhaustive`"
        .into();
    let env = detect();
    rep.note(format!("host dispatch: bmi2={} avx2={} select_in_word dispatcher takes PDEP={}", env.bmi2, env.avx2, env.fast_bmi2));
    if let Some(rp) = &ctx.replay {
        replay(&mut rep, &env, rp);
        return rep;
    }
    let mut r = Rng::new(ctx.shard_seed());
    let mut hot = Hot::default();
    let mut d = Dig::default();
    let mut loc: std::collections::BTreeMap<&'static str, u64> = std::collections::BTreeMap::new();
    let all_p: Vec<u32> = (0..64).collect();
    let edge_p: Vec<u32> = vec![64, 65, 70, 127, 128, 255, 256, u32::MAX, u32::MAX - 1, 1 << 31, 1 << 16];

    // ---- model self-check: pushdown table vs the excess-scan definition
    for i in 0..ctx.n(20_000, 200_000, 10) {
        let x = if i % 2 == 0 { gb::word_class(&mut r) } else { r.u64() };
        let t = mb::close_table(x);
        for p in 0..64u32 {
            if (x >> p) & 1 == 1 {
                let want = mb::close_in_word(x, p as u64);
                let via = if t[p as usize] == 64 { None } else { Some(t[p as usize] as u32) };
                assert_eq!(want, via, "model self-check: close table vs excess scan, word {x:#x} p {p}");
            }
        }
        let (pos, n) = mb::set_positions(x);
        assert_eq!(n as u32, mb::popcount(x));
        for k in 0..=64u64 {
            let want = mb::select_in(x, 64, k, 64);
            let via = if (k as usize) < n { pos[k as usize] as u32 } else { 64 };
            assert_eq!(want, via, "model self-check: set_positions vs serial select");
        }
    }

    // ---- select_in_byte: exhaustive 256 x k in 0..=9, plus large k
    for b in 0..=255u8 {
        for k in (0..=9u32).chain([10, 63, 64, 255, 256, u32::MAX]) {
            let want = mb::select_in(b as u64, 8, k as u64, 8);
            let got = vh::select_in_byte(b, k);
            hot.byte += 1;
            rep.eval();
            dg(&mut d.select, got as u64);
            if got != want {
                let class = if k >= 8 { "k_ge_8" } else { "mismatch" };
                rep.violation(format!("C02:select_in_byte:{class}"), format!("select_in_byte({b:#04x}, {k}) = {got}, serial {want}"), json!({"kind": "byte", "byte": b, "k": k}));
            }
        }
    }
    rep.exhaustive.push("select_in_byte: all 256 bytes x k in 0..=9".into());

    // ---- popcount: every byte value in every byte lane (exhaustive), zero and all-ones background
    for lane in 0..8 {
        for b in (0..=255u64).step_by(if ctx.tiny() { 5 } else { 1 }) {
            for bg in [0u64, u64::MAX] {
                let x = (bg & !(0xFFu64 << (8 * lane))) | (b << (8 * lane));
                check_popcount(&mut rep, &mut hot, &mut d, x, mb::popcount(x));
            }
        }
    }
    if !ctx.tiny() {
        rep.exhaustive.push("popcount_word / popcount_word_portable: all 256 byte values in each of the 8 byte lanes, zero and all-ones background".into());
    }

    // ---- 16-bit patterns in each 16-bit lane x all k (select) / all p (parens)
    let stride16 = if ctx.tiny() { 4999 } else { 1 };
    let backgrounds: &[(u64, &str)] = &[(0, "zeros"), (u64::MAX, "ones"), (0x5555_5555_5555_5555, "alternating")];
    for &(bg, bgname) in backgrounds {
        if ctx.tiny() && bgname == "alternating" {
            continue;
        }
        let mut pat = 0u64;
        while pat < 65536 {
            let res = catch(|| {
                for lane in 0..4 {
                    let x = (bg & !(0xFFFFu64 << (16 * lane))) | (pat << (16 * lane));
                    let (pos, n) = mb::set_positions(x);
                    if bgname != "alternating" {
                        for k in 0..=64u32 {
                            let want = if (k as usize) < n { pos[k as usize] as u32 } else { 64 };
                            check_select(&mut rep, &env, &mut hot, &mut d, x, k, want);
                        }
                        check_popcount(&mut rep, &mut hot, &mut d, x, n as u32);
                    }
                    let t = mb::close_table(x);
                    check_parens(&mut rep, &mut hot, &mut d, x, &all_p, Some(&t));
                }
            });
            if let Err(p) = res {
                rep.violation(format!("C02:word_kernel:panic:{}", panic_sig(&p)), format!("a word kernel panicked on 16-bit pattern {pat:#06x} ({bgname} background): {p}"), json!({"kind": "lanes", "pattern": pat, "background": format!("{bg:x}")}));
            }
            pat += stride16;
        }
        if stride16 == 1 {
            if bgname != "alternating" {
                rep.exhaustive.push(format!("select_in_word dispatcher / ctz / broadword{}: all 2^16 patterns in each of the four 16-bit lanes ({bgname} elsewhere) x k in 0..=64", if env.bmi2 { " / pdep" } else { "" }));
            }
            rep.exhaustive.push(format!("find_close_in_word (all p in 0..64) and find_unmatched_close_in_word: all 2^16 patterns in each of the four 16-bit lanes ({bgname} elsewhere)"));
        }
    }

    // ---- sampled 64-bit words: structured classes, complement pairs, every k class
    let nwords = ctx.n(4_000_000, 50_000_000, 60);
    let mut keys = 0usize;
    for i in 0..nwords {
        let base = match i % 4 {
            0 => r.u64(),
            1 => gb::word_class(&mut r),
            2 => gb::density_word(&mut r, 1 + (i / 4 % 6) as u32),
            _ => !gb::density_word(&mut r, 1 + (i / 4 % 6) as u32),
        };
        for x in [base, !base] {
            let full = i % 8 == 0;
            let extra = [r.below(65), r.below(1000), r.below(3), r.below(65), r.below(64), r.below(64)];
            let res = catch(|| {
            let (pos, n) = mb::set_positions(x);
            // k: below, at and above the popcount, plus far out of range
            let ks = [0u32, (extra[0] % (n + 1)) as u32, n.saturating_sub(1) as u32, n as u32, n as u32 + 1, 63, 64, 65 + extra[1] as u32, u32::MAX - extra[2] as u32, extra[3] as u32];
            for k in ks {
                let want = if (k as usize) < n { pos[k as usize] as u32 } else { 64 };
                check_select(&mut rep, &env, &mut hot, &mut d, x, k, want);
            }
            check_popcount(&mut rep, &mut hot, &mut d, x, n as u32);
            if full {
                // full-k sweep and full parens sweep on an eighth of the words
                for k in 0..=64u32 {
                    let want = if (k as usize) < n { pos[k as usize] as u32 } else { 64 };
                    check_select(&mut rep, &env, &mut hot, &mut d, x, k, want);
                }
                let t = mb::close_table(x);
                check_parens(&mut rep, &mut hot, &mut d, x, &all_p, Some(&t));
                check_parens(&mut rep, &mut hot, &mut d, x, &edge_p, None);
            } else {
                let ps = [extra[4] as u32, extra[5] as u32, 0, 63, 62, 64];
                check_parens(&mut rep, &mut hot, &mut d, x, &ps, None);
            }
            });
            if let Err(p) = res {
                rep.violation(format!("C02:word_kernel:panic:{}", panic_sig(&p)), format!("a word kernel panicked on word {x:#018x}: {p}"), json!({"kind": "word", "word": format!("{x:x}")}));
            }
            if x != 0 && x != u64::MAX && keys < 1_000_000 {
                keys += 1;
                rep.nontrivial(mix(x, 2));
            }
        }
        if i < 3 {
            let k = 1 + r.below(5) as u32;
            rep.sample(json!({"word": format!("{base:#018x}"), "k": k, "select_in_word": select_in_word(base, k), "serial": mb::select_in(base, 64, k as u64, 64),
                "popcount": popcount_word(base), "find_close_in_word(p=0)": format!("{:?}", find_close_in_word(base, 0)), "find_unmatched_close_in_word": find_unmatched_close_in_word(base)}));
        }
    }

    // ---- 8-word blocks: all-ones (u8 lane overflow), per-byte extremes, random
    let nblocks = ctx.n(60_000, 1_500_000, 30);
    for i in 0..nblocks {
        let mut b = [0u64; 8];
        match i % 6 {
            0 => b = [u64::MAX; 8],
            1 => {
                // all-ones except a few cleared bits / words
                b = [u64::MAX; 8];
                for _ in 0..r.below(4) {
                    b[r.below(8)] &= !(1u64 << r.below(64));
                }
                if r.chance(1, 3) {
                    b[r.below(8)] = 0;
                }
            }
            2 => {
                // per-byte extremes: every byte 0x00 or 0xFF
                for w in b.iter_mut() {
                    for lane in 0..8 {
                        if r.bool() {
                            *w |= 0xFFu64 << (8 * lane);
                        }
                    }
                }
            }
            3 => {
                // the same byte lane saturated across all words, the rest empty
                let lane = r.below(8);
                for w in b.iter_mut() {
                    *w = 0xFFu64 << (8 * lane);
                }
            }
            4 => {
                for w in b.iter_mut() {
                    *w = gb::word_class(&mut r);
                }
            }
            _ => {
                for w in b.iter_mut() {
                    *w = r.u64();
                }
            }
        }
        check_block(&mut rep, &env, &mut loc, &mut d, &b);
    }
    if !ctx.tiny() {
        rep.exhaustive.push("block_popcount_*: the all-ones block and all 8 single-saturated-byte-lane blocks (by construction, classes 0 and 3)".into());
    }

    // ---- scans over word arrays
    let nscans = ctx.n(60_000, 1_200_000, 25);
    for i in 0..nscans {
        let n = match r.below(8) {
            0 => r.below(4),
            1..=3 => r.below(20),
            4..=5 => 8 + r.below(40),
            _ => 16 + r.below(120),
        };
        let style = r.below(5);
        let mut words: Vec<u64> = (0..n)
            .map(|_| match style {
                0 => r.u64(),
                1 => 0,
                2 => gb::word_class(&mut r),
                3 => {
                    if r.chance(1, 12) {
                        1u64 << r.below(64)
                    } else {
                        0
                    }
                }
                _ => u64::MAX,
            })
            .collect();
        if style == 1 && n > 0 {
            // one distant set bit
            let p = r.below(n);
            words[p] = 1u64 << r.below(64);
        }
        let total: usize = words.iter().map(|&w| mb::popcount(w) as usize).sum();
        let start = match r.below(10) {
            0 => n,
            1 => n + 1 + r.below(100),
            2 => 0,
            _ => r.below(n + 1),
        };
        let remaining = match r.below(10) {
            0 => total,
            1 => total + 1 + r.below(5),
            2 => *r.pick(&[usize::MAX, usize::MAX - 1, 1 << 32, (1 << 32) + 3, 1 << 63]),
            3 => 0,
            4 => total.saturating_sub(1),
            _ => r.below(total + 1),
        };
        check_scan(&mut rep, &env, &mut loc, &mut d, &words, start, remaining, ctx.tiny());
        if i < 2 {
            rep.sample(json!({"scan_words": words.len(), "start": start, "remaining": remaining.to_string(),
                "scan_select": format!("{:?}", scan_select(&words, start, remaining)), "serial": format!("{:?}", mb::scan(&words, start, remaining as u64))}));
        }
    }

    // constructed scans: one bit in the start word, the next one far away
    for &(far, total) in &[(16usize, 17usize), (17, 30), (24, 25), (31, 40), (9, 16), (40, 47)] {
        for start in [0usize, 1, 3] {
            if ctx.tiny() && start == 1 {
                continue;
            }
            let mut words = vec![0u64; total + start];
            words[start] = 1u64 << r.below(64);
            words[start + far] = 0b1011u64 << r.below(60);
            for rem in 0..(if ctx.tiny() { 2 } else { 5 }) {
                check_scan(&mut rep, &env, &mut loc, &mut d, &words, start, rem, ctx.tiny());
            }
        }
    }

    rep.add("path.select.dispatcher", hot.disp);
    rep.add("path.select.ctz", hot.ctz);
    rep.add("path.select.broadword", hot.bw);
    rep.add("path.select.pdep", hot.pdep);
    rep.add("path.select.byte_table", hot.byte);
    rep.add("select.none_64", hot.sel_none);
    rep.add("select.found", hot.sel_found);
    rep.add("select.k_ge_64", hot.k_ge_64);
    rep.add("path.popcount_word", hot.pc_word);
    rep.add("path.popcount_word_portable", hot.pc_portable);
    rep.add("find_close.found_in_word", hot.close_found);
    rep.add("find_close.beyond_word", hot.close_beyond);
    rep.add("find_close.on_close_bit", hot.close_on_close);
    rep.add("find_close.p_ge_64", hot.close_p_ge_64);
    rep.add("find_unmatched.found", hot.unmatched_found);
    rep.add("find_unmatched.none_64", hot.unmatched_none);
    for (k, v) in loc {
        rep.add(k, v);
    }
    rep.add(if env.fast_bmi2 { "dispatch.select_in_word_is_pdep" } else { "dispatch.select_in_word_is_ctz" }, 1);
    rep.add(if env.avx2 { "dispatch.scan_block_popcount_is_avx2" } else { "dispatch.scan_block_popcount_is_portable" }, 1);
    let popcount_build = if cfg!(feature = "portable-popcount") { "portable-popcount" } else if cfg!(feature = "simd") { "simd" } else { "default" };
    rep.note(format!("popcount build: {popcount_build}"));
    #[cfg(target_arch = "x86_64")]
    if popcount_build == "simd" {
        rep.add(if std::arch::is_x86_feature_detected!("avx512vpopcntdq") { "dispatch.popcount_words_is_avx512_vpopcntdq" } else { "dispatch.popcount_words_is_scalar_popcnt" }, 1);
    }

    rep.digest("select", d.select);
    rep.digest("popcount", d.popcount);
    rep.digest("scan", d.scan);
    rep.digest("parens", d.parens);
    if env.bmi2 {
        rep.digest("select_pdep", d.select_pdep);
    }
    if env.avx2 {
        rep.digest("block_avx2", d.block_avx2);
    }

    if !ctx.tiny() {
        rep.require("path.select.dispatcher", 1_000_000);
        rep.require("path.select.ctz", 1_000_000);
        rep.require("path.select.broadword", 1_000_000);
        rep.require("path.select.byte_table", 256 * 10);
        rep.require("select.none_64", 100_000);
        rep.require("select.k_ge_64", 100_000);
        rep.require("path.popcount_word_portable", 100_000);
        rep.require("path.block_popcount_portable", 10_000);
        rep.require("find_close.found_in_word", 100_000);
        rep.require("find_close.beyond_word", 100_000);
        rep.require("find_close.on_close_bit", 100_000);
        rep.require("find_close.p_ge_64", 1000);
        rep.require("find_unmatched.found", 10_000);
        rep.require("find_unmatched.none_64", 10_000);
        rep.require("scan.ends_in_prologue", 1000);
        rep.require("scan.ends_in_first_block", 300);
        rep.require("scan.ends_in_block_loop_after_skips", 1000);
        rep.require("scan.ends_in_tail", 1000);
        rep.require("scan.not_enough_bits", 1000);
        rep.require("scan.start_past_end", 1000);
        rep.require("popcount_words.ge_8_with_tail", 1000);
        if env.bmi2 {
            rep.require("path.select.pdep", 1_000_000);
        }
        if env.avx2 {
            rep.require("path.block_popcount_avx2", 10_000);
            rep.require("block.total_over_255", 1000);
        }
    } else {
        rep.require("path.select.ctz", 1000);
        rep.require("path.select.broadword", 1000);
        rep.require("scan.ends_in_block_loop_after_skips", 1);
    }
    rep
}
