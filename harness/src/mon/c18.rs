//! C18 — Strict YAML validation never rejects a well-formed document; on arbitrary bytes it
//! terminates with accept or a positioned error whose line/column match its offset.
//!
//! Part A (no false rejection): every G-YAML stream that libyaml (serde_yaml) reads back as the
//! ground truth must be accepted by `yaml::validate::validate`.
//! Part B (position consistency): byte soups, line-structured soups, random bytes and mutants of
//! generated streams; `validate` must return (panics are violations), and for an error
//! `position.offset <= len`, and `line`/`column` must equal the documented model of `offset`:
//! 1-indexed line = 1 + number of line breaks (LF, CR, CRLF = one break, YAML 1.2 §5.4 as
//! `src/yaml/line_break.rs` documents) that lie completely before `offset`; 1-indexed byte
//! column = offset - start of that line + 1 (`Position` doc: "in bytes not characters").
//! There is no watchdog inside svh: inputs are bounded (<= 6 KiB) instead.

use crate::gen::yaml::{self as gy, YamlOpts, YamlStream};
use crate::mon::c14::{aligned_variant, replay_json, stream_from_replay};
use crate::report::{catch, hex, panic_sig, show_bytes, unhex, Ctx, Report};
use crate::rng::{fnv, Rng};
use serde_json::json;
use succinctly::yaml::validate::{validate, YamlValidationError};

/// (line, column) of `offset` under the documented model.
pub fn model_line_col(text: &[u8], offset: usize) -> (usize, usize) {
    let mut line = 1usize;
    let mut line_start = 0usize;
    let mut i = 0usize;
    while i < offset && i < text.len() {
        match text[i] {
            b'\n' => {
                line += 1;
                line_start = i + 1;
                i += 1;
            }
            b'\r' => {
                let w = if text.get(i + 1) == Some(&b'\n') { 2 } else { 1 };
                if i + w <= offset {
                    line += 1;
                    line_start = i + w;
                }
                i += w;
            }
            _ => i += 1,
        }
    }
    (line, offset.saturating_sub(line_start) + 1)
}

fn kind_name(e: &YamlValidationError) -> String {
    let d = format!("{:?}", e.kind);
    d.chars().take_while(|c| c.is_ascii_alphanumeric()).collect()
}

/// Part A for one accepted stream. Returns true if accepted by the validator.
fn check_accept(rep: &mut Report, st: &YamlStream) -> bool {
    rep.eval();
    match catch(|| validate(&st.bytes)) {
        Ok(Ok(())) => true,
        Ok(Err(e)) => {
            let kind = kind_name(&e);
            // the construct at the reported offset (style of the innermost recorded span)
            let at = st
                .spans
                .iter()
                .filter(|s| s.start <= e.position.offset && e.position.offset <= s.end)
                .min_by_key(|s| s.end - s.start)
                .map(|s| if s.is_key { format!("key_{}", s.style) } else { s.style.to_string() })
                .unwrap_or_else(|| "structure".into());
            // "clean" streams hold no known risk construct (gen::yaml `avoid_risks`)
            let sig = format!("C18:false_reject:{kind}:{}", if st.clean { "clean" } else { "risky" });
            rep.violation(
                sig,
                format!("validate rejects a well-formed stream [{kind} at {at}]: {e}"),
                json!({"kind": "accept", "stream": replay_json(st)}),
            );
            false
        }
        Err(p) => {
            rep.violation(
                format!("C18:validate:panic:{}", panic_sig(&p)),
                p,
                json!({"kind": "accept", "stream": replay_json(st)}),
            );
            false
        }
    }
}

/// Part B for one byte string.
fn check_bytes(rep: &mut Report, bytes: &[u8], class: &str) {
    rep.eval();
    let replay = || json!({"kind": "bytes", "bytes_hex": hex(bytes), "class": class});
    match catch(|| validate(bytes)) {
        Ok(Ok(())) => rep.count(&format!("bytes.{class}.accepted")),
        Ok(Err(e)) => {
            rep.count(&format!("bytes.{class}.rejected"));
            rep.count(&format!("reject.{}", kind_name(&e)));
            let p = e.position;
            if p.offset > bytes.len() {
                rep.violation(
                    format!("C18:position:offset_past_end:{}", kind_name(&e)),
                    format!("offset {} > len {}: {e}", p.offset, bytes.len()),
                    replay(),
                );
                return;
            }
            let (ml, mc) = model_line_col(bytes, p.offset);
            let before = &bytes[..p.offset];
            let brk = if before.windows(2).any(|w| w == b"\r\n") {
                "crlf"
            } else if before.contains(&b'\r') {
                "cr"
            } else if before.contains(&b'\n') {
                "lf"
            } else {
                "first_line"
            };
            rep.count(&format!("position.checked.{brk}"));
            if p.line != ml {
                rep.violation(
                    format!("C18:position:line:{}:{brk}", kind_name(&e)),
                    format!("{e}: line {} but offset {} is on line {ml} (column {mc})", p.line, p.offset),
                    replay(),
                );
            } else if p.column != mc {
                rep.violation(
                    format!("C18:position:column:{}:{brk}", kind_name(&e)),
                    format!("{e}: column {} but offset {} is at column {mc} of line {ml}", p.column, p.offset),
                    replay(),
                );
            }
        }
        Err(p) => {
            rep.violation(format!("C18:validate:panic:{}", panic_sig(&p)), p, replay());
        }
    }
}

pub fn run(ctx: &Ctx) -> Report {
    let mut rep = Report::new("C18", "c18");
    rep.rule = "part A: case = generated YAML stream accepted by the serde_yaml cross-read (non-trivial: has a collection \
                or string), distinct by hash(bytes); part B: case = byte string on which validate reports an error \
                (position compared with the line model), distinct by hash(bytes)"
        .into();
    rep.assumptions.push("generated streams are well-formed (conservative emit predicates + libyaml agreement)".into());
    if let Some(rp) = &ctx.replay {
        match rp["kind"].as_str() {
            Some("accept") => {
                if let Some(st) = stream_from_replay(&rp["stream"]) {
                    match gy::load_with_serde_yaml(&st.bytes) {
                        Ok(d) if d == st.docs => {
                            check_accept(&mut rep, &st);
                        }
                        other => rep.inconclusive(json!({"replay": "serde_yaml does not confirm the ground truth", "got": format!("{other:?}")})),
                    }
                }
            }
            _ => {
                let b = unhex(rp["bytes_hex"].as_str().unwrap_or(""));
                check_bytes(&mut rep, &b, rp["class"].as_str().unwrap_or("replay"));
            }
        }
        return rep;
    }
    let mut r = Rng::new(ctx.shard_seed());
    // ---- part A
    let n = ctx.n(40_000, 500_000, 60);
    let mut keep: Vec<Vec<u8>> = Vec::new();
    for case in 0..n {
        let mut o = YamlOpts::random(&mut r);
        o.avoid_risks = case % 2 == 0;
        if ctx.tiny() {
            o.budget = o.budget.min(8);
            o.max_str = o.max_str.min(12);
            o.max_docs = o.max_docs.min(2);
        }
        let st = gy::gen_stream(&mut r, &o);
        if let Err(why) = gy::self_check(&st) {
            rep.count("gen.suspect");
            rep.inconclusive(json!({"why": why, "bytes_hex": hex(&st.bytes[..st.bytes.len().min(600)])}));
            continue;
        }
        rep.count("gen.accepted");
        rep.count(if st.clean { "accept.clean" } else { "accept.risky" });
        rep.count(&format!("accept.{}", st.line_break.name()));
        for f in &st.features {
            rep.count(&format!("feat.{f}"));
        }
        if st.docs.iter().any(|d| d.is_container() || matches!(d, crate::val::Val::Str(_))) {
            rep.nontrivial(fnv(&st.bytes));
        }
        let ok = check_accept(&mut rep, &st);
        if ok && case % 4 == 1 {
            if let Some(al) = aligned_variant(&st) {
                if gy::self_check(&al).is_ok() {
                    rep.count("aligned64.streams");
                    check_accept(&mut rep, &al);
                }
            }
        }
        if keep.len() < 400 && st.bytes.len() < 3000 && case % 7 == 0 {
            keep.push(st.bytes.clone());
        }
        if ok && case % 1499 == 5 {
            rep.sample(json!({"accepted": show_bytes(&st.bytes), "features": st.features}));
        }
    }
    // ---- part B
    let m = ctx.n(80_000, 1_000_000, 120);
    for case in 0..m {
        let (bytes, class): (Vec<u8>, &str) = match case % 6 {
            0 => {
                let n = r.range(1, 300);
                (gy::yaml_soup(&mut r, n), "soup")
            }
            1 => {
                let n = r.range(1, 25);
                (gy::yaml_line_soup(&mut r, n), "line_soup")
            }
            2 => {
                let n = r.small_len(200);
                (r.bytes(n), "random")
            }
            _ => {
                if keep.is_empty() {
                    (gy::yaml_soup(&mut r, 40), "soup")
                } else {
                    let base = &keep[r.below(keep.len())];
                    (gy::mutate_yaml(&mut r, base), "mutant")
                }
            }
        };
        let bytes = if bytes.len() > 6144 { bytes[..6144].to_vec() } else { bytes };
        let before = rep.get(&format!("bytes.{class}.rejected"));
        check_bytes(&mut rep, &bytes, class);
        if rep.get(&format!("bytes.{class}.rejected")) > before {
            rep.nontrivial(fnv(&bytes) ^ 0x18);
            if case % 4001 == 7 {
                rep.sample(json!({"rejected": show_bytes(&bytes), "class": class,
                    "error": validate(&bytes).err().map(|e| e.to_string())}));
            }
        }
    }
    let acc = rep.get("gen.accepted");
    let sus = rep.get("gen.suspect");
    rep.note(format!("generator-suspect {sus} of {} streams", acc + sus));
    if !ctx.tiny() {
        rep.require("gen.accepted", (n as u64) * 97 / 100);
        for f in ["accept.lf", "accept.crlf", "accept.cr"] {
            rep.require(f, 500);
        }
        for f in [
            "feat.flow_multiline", "feat.comment_trailing", "feat.comment_line", "feat.single_multiline",
            "feat.double_multiline", "feat.plain_multiline", "feat.literal_keep", "feat.folded_strip",
            "feat.block_indent_indicator", "feat.alias", "feat.explicit_key", "feat.doc_end_marker", "feat.multi_doc",
            "feat.compact_map_in_seq", "feat.seq_same_indent_as_key",
        ] {
            rep.require(f, 20);
        }
        for b in ["position.checked.lf", "position.checked.cr", "position.checked.crlf", "position.checked.first_line"] {
            rep.require(b, 200);
        }
        rep.require("bytes.mutant.rejected", 500);
        rep.require("bytes.soup.rejected", 500);
        rep.require("bytes.line_soup.rejected", 500);
    }
    rep
}
