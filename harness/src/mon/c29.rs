//! C29 — yq-locate expressions evaluate to the located YAML node; `at_offset` yields the token.
//!
//! For every generated stream that libyaml confirms *and* that succinctly loads as the ground
//! truth (C14 decides loading; streams it mis-loads are skipped and counted), and for byte
//! offsets inside every recorded scalar / key span:
//!   * `yaml::locate_offset_detailed(index, text, offset)` must return an expression;
//!   * the expression, parsed with `jq::parse` and evaluated with the jq evaluator against the
//!     JSON array of the stream's documents (built from the ground truth, so independent of YAML
//!     loading), must yield exactly the node's value — for a key offset, the value the key names;
//!   * the same expression evaluated on the YAML document cursor (`eval_with_cursor`, what `yq`
//!     does) must yield the same value;
//!   * `at_offset(offset)` evaluated on the YAML root cursor must yield the token's own value
//!     (the key string for a key).
//!
//! Signatures: `C29:<check>:<failure>:<role>:<style>` where role is `key` / `value` and style is
//! the token's presentation style (plain, double, literal, ...), plus `:multi_doc` when the node
//! is not in the first document.

use crate::gen::yaml::{self as gy, path_string, val_at, PathSeg, Span, YamlOpts, YamlStream};
use crate::mon::c14::walk;
use crate::report::{catch, hex, panic_sig, show_bytes, unhex, Ctx, Report};
use crate::rng::{fnv, Rng};
use crate::val::Val;
use serde_json::{json, Value};
use succinctly::jq::eval_generic::eval_with_cursor;
use succinctly::jq::{self, JqSemantics, OwnedValue, QueryResult};
use succinctly::json::JsonIndex;
use succinctly::yaml::{locate_offset_detailed, YamlIndex};

fn owned_to_val(o: &OwnedValue) -> Result<Val, String> {
    let txt = o.to_json();
    let v: Value = serde_json::from_str(&txt).map_err(|e| format!("OwnedValue::to_json is not JSON: {e}"))?;
    Ok(Val::from_serde(&v))
}

/// Evaluate `expr` against the JSON array `docs_json`; exactly one output expected.
fn eval_on_json(expr: &jq::Expr, docs_json: &[u8], jidx: &JsonIndex) -> Result<Val, String> {
    let res = jq::eval::<Vec<u64>, JqSemantics>(expr, jidx.root(docs_json));
    if let QueryResult::Error(e) = &res {
        return Err(format!("evaluation error: {e}"));
    }
    let outs = res.collect_owned();
    if outs.len() != 1 {
        return Err(format!("{} outputs", outs.len()));
    }
    owned_to_val(&outs[0])
}

fn eval_on_yaml(expr: &jq::Expr, idx: &YamlIndex, bytes: &[u8]) -> Result<Val, String> {
    let res = eval_with_cursor(expr, idx.root(bytes));
    if res.is_error() {
        return Err("evaluation error".into());
    }
    let outs = res.collect_owned();
    if outs.len() != 1 {
        return Err(format!("{} outputs", outs.len()));
    }
    owned_to_val(&outs[0])
}

fn span_sig(sp: &Span) -> String {
    format!(
        "{}:{}{}",
        if sp.is_key { "key" } else { "value" },
        sp.style,
        if sp.doc > 0 { ":multi_doc" } else { "" }
    )
}

struct Prepared<'a> {
    st: &'a YamlStream,
    idx: YamlIndex,
    docs_json: Vec<u8>,
    jidx: JsonIndex,
}

/// Check one (span, offset). Returns false if a violation was recorded.
fn check_offset(rep: &mut Report, p: &Prepared<'_>, span_i: usize, off: usize) -> bool {
    let st = p.st;
    let sp = &st.spans[span_i];
    let bytes = &st.bytes;
    let replay = || {
        json!({"kind": "offset", "bytes_hex": hex(bytes), "text": String::from_utf8_lossy(&bytes[..bytes.len().min(1500)]),
            "docs": st.docs.iter().map(|d| d.to_tagged()).collect::<Vec<_>>(),
            "trigger": st.trigger,
            "empty_docs": (0..st.docs.len()).filter(|d| st.style_at(*d, &[], false) == "null_empty").collect::<Vec<_>>(),
            "span": {"start": sp.start, "end": sp.end, "doc": sp.doc, "is_key": sp.is_key, "style": sp.style,
                     "path": sp.path.iter().map(|s| match s { PathSeg::Idx(i) => json!(i), PathSeg::Key(k) => json!(k) }).collect::<Vec<_>>()},
            "offset": off})
    };
    let Some(doc) = st.docs.get(sp.doc) else { return true };
    let Some(node_val) = val_at(doc, &sp.path) else { return true };
    let token_val = if sp.is_key {
        match sp.path.last() {
            Some(PathSeg::Key(k)) => Val::Str(k.clone()),
            _ => return true,
        }
    } else {
        node_val.clone()
    };
    let mut tag = span_sig(sp);
    // a stream holding a known risk construct (gen::yaml::TRIGGERS): the index may carry stray
    // nodes even where the values load correctly, so the construct names the signature
    if let Some(t) = st.trigger {
        tag = format!("trigger:{t}");
    }
    // a node in a document after an empty document (`---` with no content) earlier in the
    // stream: the synthesized null of the empty document has no text of its own
    if (0..sp.doc).any(|d| st.style_at(d, &[], false) == "null_empty") {
        tag = "doc_after_empty_document".to_string();
    }
    let where_ = format!("offset {off} in {} span {}..{} at doc {} {}", tag, sp.start, sp.end, sp.doc, path_string(&sp.path));
    let mut ok = true;

    // 1. locate
    rep.eval();
    let loc = match catch(|| locate_offset_detailed(&p.idx, bytes, off)) {
        Ok(l) => l,
        Err(pn) => {
            rep.violation(format!("C29:locate:panic:{}", panic_sig(&pn)), format!("{where_}: {pn}"), replay());
            return false;
        }
    };
    match loc {
        None => {
            ok = false;
            rep.violation(format!("C29:locate:none:{tag}"), format!("{where_}: locate_offset_detailed returned None"), replay());
        }
        Some(l) => {
            rep.count(if l.expression.contains("[\"") { "expr.bracket_key" } else { "expr.dot_or_index" });
            // 2. expression on the ground-truth JSON array
            let parsed = match catch(|| jq::parse(&l.expression)) {
                Ok(r) => r,
                Err(pn) => {
                    // the printed expression makes the jq parser panic (C30 covers the panic itself;
                    // for C29 the expression cannot be evaluated)
                    let ascii = l.expression.is_ascii();
                    rep.violation(
                        format!("C29:expr:parse_panic:{}", if ascii { "ascii" } else { "non_ascii_key" }),
                        format!("{where_}: jq::parse panics on the printed expression {:?}: {pn}", l.expression),
                        replay(),
                    );
                    return false;
                }
            };
            match parsed {
                Err(e) => {
                    ok = false;
                    rep.violation(
                        format!("C29:expr:unparseable:{tag}"),
                        format!("{where_}: expression {:?} does not parse: {e:?}", l.expression),
                        replay(),
                    );
                }
                Ok(expr) => {
                    rep.eval();
                    match catch(|| eval_on_json(&expr, &p.docs_json, &p.jidx)) {
                        Ok(Ok(v)) if v == *node_val => {}
                        Ok(Ok(v)) => {
                            ok = false;
                            rep.violation(
                                format!("C29:expr:wrong_node:{tag}"),
                                format!(
                                    "{where_}: {:?} evaluates to {} but the node is {}",
                                    l.expression,
                                    clip(&v.to_json_text()),
                                    clip(&node_val.to_json_text())
                                ),
                                replay(),
                            );
                        }
                        Ok(Err(e)) => {
                            ok = false;
                            rep.violation(
                                format!("C29:expr:no_value:{tag}"),
                                format!("{where_}: {:?} on the document array: {e}", l.expression),
                                replay(),
                            );
                        }
                        Err(pn) => {
                            ok = false;
                            rep.violation(format!("C29:expr:panic:{}", panic_sig(&pn)), format!("{where_}: {pn}"), replay());
                        }
                    }
                    // 3. the same expression on the YAML cursor (only meaningful if 2 passed)
                    if ok {
                        rep.eval();
                        match catch(|| eval_on_yaml(&expr, &p.idx, bytes)) {
                            Ok(Ok(v)) if v == *node_val => {}
                            Ok(other) => {
                                ok = false;
                                rep.violation(
                                    format!("C29:expr_on_yaml:mismatch:{tag}"),
                                    format!("{where_}: {:?} on the YAML cursor gives {other:?}", l.expression),
                                    replay(),
                                );
                            }
                            Err(pn) => {
                                ok = false;
                                rep.violation(format!("C29:expr_on_yaml:panic:{}", panic_sig(&pn)), format!("{where_}: {pn}"), replay());
                            }
                        }
                    }
                }
            }
        }
    }
    // 4. at_offset
    rep.eval();
    let at = jq::parse(&format!("at_offset({off})")).map_err(|e| format!("{e:?}"));
    match at {
        Err(e) => {
            rep.violation("C29:at_offset:unparseable", e, replay());
            return false;
        }
        Ok(expr) => match catch(|| eval_on_yaml(&expr, &p.idx, bytes)) {
            Ok(Ok(v)) if v == token_val => {}
            Ok(Ok(v)) => {
                ok = false;
                rep.violation(
                    format!("C29:at_offset:wrong_token:{tag}"),
                    format!("{where_}: at_offset gives {} but the token is {}", clip(&v.to_json_text()), clip(&token_val.to_json_text())),
                    replay(),
                );
            }
            Ok(Err(e)) => {
                ok = false;
                rep.violation(format!("C29:at_offset:no_value:{tag}"), format!("{where_}: at_offset: {e}"), replay());
            }
            Err(pn) => {
                ok = false;
                rep.violation(format!("C29:at_offset:panic:{}", panic_sig(&pn)), format!("{where_}: {pn}"), replay());
            }
        },
    }
    ok
}

fn clip(s: &str) -> String {
    s.chars().take(120).collect()
}

fn prepare(st: &YamlStream) -> Result<Prepared<'_>, &'static str> {
    let idx = match catch(|| YamlIndex::build(&st.bytes)) {
        Ok(Ok(i)) => i,
        _ => return Err("build_failed"),
    };
    match catch(|| walk(idx.root(&st.bytes), 0)) {
        Ok(Ok(Val::Arr(ds))) if ds == st.docs => {}
        _ => return Err("load_mismatch"),
    }
    let docs_json = Val::Arr(st.docs.clone()).to_json_text().into_bytes();
    let jidx = match catch(|| JsonIndex::build(&docs_json)) {
        Ok(j) => j,
        Err(_) => return Err("json_index_panic"),
    };
    Ok(Prepared { st, idx, docs_json, jidx })
}

pub fn run(ctx: &Ctx) -> Report {
    let mut rep = Report::new("C29", "c29");
    rep.rule = "case = (generated YAML stream, byte offset inside a recorded scalar or key span); non-trivial = the \
                node sits below the document root (path length >= 1); distinct by hash(bytes, offset)"
        .into();
    rep.assumptions
        .push("streams are well-formed and load as the ground truth (libyaml agreement; streams succinctly mis-loads are C14's business and skipped)".into());
    if let Some(rp) = &ctx.replay {
        let bytes = unhex(rp["bytes_hex"].as_str().unwrap_or(""));
        let docs: Vec<Val> = rp["docs"].as_array().map(|a| a.iter().filter_map(Val::from_tagged).collect()).unwrap_or_default();
        let s = &rp["span"];
        const STYLES: &[&str] = &[
            "plain", "plain_adventurous", "plain_multiline", "single", "single_multiline", "double", "double_multiline",
            "literal", "folded", "null", "bool", "int",
        ];
        let style = STYLES.iter().find(|n| Some(**n) == s["style"].as_str()).copied().unwrap_or("?");
        let path: Vec<PathSeg> = s["path"]
            .as_array()
            .map(|a| {
                a.iter()
                    .map(|p| match p {
                        Value::String(k) => PathSeg::Key(k.clone()),
                        o => PathSeg::Idx(o.as_u64().unwrap_or(0) as usize),
                    })
                    .collect()
            })
            .unwrap_or_default();
        let span = Span {
            start: s["start"].as_u64().unwrap_or(0) as usize,
            end: s["end"].as_u64().unwrap_or(0) as usize,
            doc: s["doc"].as_u64().unwrap_or(0) as usize,
            path,
            is_key: s["is_key"].as_bool().unwrap_or(false),
            style,
        };
        let st = YamlStream {
            bytes,
            docs,
            spans: vec![span],
            features: Vec::new(),
            doc_features: Vec::new(),
            styles: rp["empty_docs"]
                .as_array()
                .map(|a| {
                    a.iter()
                        .filter_map(|d| d.as_u64())
                        .map(|d| gy::NodeStyle {
                            doc: d as usize,
                            path: Vec::new(),
                            style: "null_empty",
                            is_key: false,
                            detail: String::new(),
                        })
                        .collect()
                })
                .unwrap_or_default(),
            line_break: gy::LineBreak::Lf,
            trigger: rp["trigger"].as_str().and_then(|t| gy::TRIGGERS.iter().map(|(n, _)| *n).chain(std::iter::once("multi")).find(|n| *n == t)),
            clean: false,
        };
        match gy::load_with_serde_yaml(&st.bytes) {
            Ok(d) if d == st.docs => match prepare(&st) {
                Ok(p) => {
                    check_offset(&mut rep, &p, 0, rp["offset"].as_u64().unwrap_or(0) as usize);
                }
                Err(why) => rep.inconclusive(json!({"replay": why})),
            },
            other => rep.inconclusive(json!({"replay": "serde_yaml does not confirm the ground truth", "got": format!("{other:?}")})),
        }
        return rep;
    }
    let mut r = Rng::new(ctx.shard_seed());
    let n = ctx.n(16_000, 200_000, 14);
    for case in 0..n {
        let mut o = YamlOpts::random(&mut r);
        if ctx.tiny() {
            o.budget = o.budget.min(6);
            o.max_str = o.max_str.min(10);
            o.max_docs = o.max_docs.min(2);
        }
        let st = gy::gen_stream(&mut r, &o);
        if gy::self_check(&st).is_err() {
            rep.count("gen.suspect");
            rep.inconclusive(json!({"why": "serde_yaml disagrees", "bytes_hex": hex(&st.bytes[..st.bytes.len().min(400)])}));
            continue;
        }
        rep.count("gen.accepted");
        let p = match prepare(&st) {
            Ok(p) => p,
            Err(why) => {
                rep.count(&format!("skipped.{why}"));
                continue;
            }
        };
        rep.count("streams.checked");
        if st.docs.len() > 1 {
            rep.count("streams.multi_doc");
        }
        let mut stream_ok = true;
        for (i, sp) in st.spans.iter().enumerate() {
            if sp.end <= sp.start {
                continue;
            }
            // offsets: first, last, and a few inside; every offset for short tokens
            let len = sp.end - sp.start;
            let mut offs: Vec<usize> = if len <= 6 || (ctx.thorough() && len <= 24) {
                (sp.start..sp.end).collect()
            } else {
                let mut v = vec![sp.start, sp.end - 1, sp.start + 1, sp.start + len / 2];
                for _ in 0..2 {
                    v.push(sp.start + r.below(len));
                }
                v
            };
            offs.sort_unstable();
            offs.dedup();
            rep.count(&format!("span.{}.{}", if sp.is_key { "key" } else { "value" }, sp.style));
            if sp.doc > 0 {
                rep.count("span.in_later_document");
            }
            for off in offs {
                if !sp.path.is_empty() {
                    rep.nontrivial(fnv(&st.bytes) ^ (off as u64).wrapping_mul(0x9E37_79B9_7F4A_7C15));
                }
                if off > sp.start && st.bytes[sp.start..off].iter().any(|&b| b == b'\n' || b == b'\r') {
                    rep.count("offset.on_continuation_line");
                }
                if !check_offset(&mut rep, &p, i, off) {
                    stream_ok = false;
                    break; // one witness per span
                }
            }
        }
        if stream_ok && case % 701 == 3 {
            rep.sample(json!({"yaml": show_bytes(&st.bytes), "spans": st.spans.len()}));
        }
    }
    if !ctx.tiny() {
        rep.require("streams.checked", (n as u64) * 9 / 10);
        rep.require("streams.multi_doc", 200);
        rep.require("span.in_later_document", 200);
        rep.require("expr.bracket_key", 200);
        rep.require("offset.on_continuation_line", 100);
        for s in [
            "span.key.plain", "span.key.single", "span.key.double", "span.value.plain", "span.value.single",
            "span.value.double", "span.value.literal", "span.value.folded", "span.value.int", "span.value.bool",
            "span.value.null", "span.value.plain_multiline", "span.value.double_multiline",
        ] {
            rep.require(s, 50);
        }
    }
    rep
}
