//! C32 — the simple-cursor JSON index navigates valid documents exactly.
//!
//! Ground truth from G-JSON: the structural bytes are the `{ } [ ] , :` bytes that lie outside
//! every string/key token span (spans recorded by the renderer, no quote scanning here); every
//! container's close is the last byte of its span; every value ends at its span end.
//!
//! Checked: `structural_count`, `structural_pos(k)` for k <= count + 3, `structural_positions`
//! (iterator), `structural_index(pos)` for every byte (inverse on structural bytes, None elsewhere
//! and past the end), `find_close` on every container (and None on non-bracket positions, as
//! documented), `skip_value` at every value and key start = span end. `children()` is not part of
//! the property statement; only "Some for containers / None otherwise, positions strictly inside
//! the container, ascending, structural" is checked. The index bits themselves are anchored to
//! the harness's own simple-cursor machine (engine differential is C05).

use crate::gen::json::Node;
use crate::model::json_sm as sm;
use crate::mon::c06::{gen_case, generator_crosscheck, Doc};
use crate::report::{catch, hex, panic_sig, show_bytes, unhex, Ctx, Report};
use crate::rng::{fnv, Rng};
use serde_json::json;
use succinctly::json::SimpleJsonIndex;

struct Fail {
    sig: String,
    msg: String,
}
macro_rules! fail {
    ($sig:expr, $($arg:tt)*) => {
        return Err(Fail { sig: $sig.to_string(), msg: format!($($arg)*) })
    };
}

/// Structural byte offsets from the ground-truth spans.
fn structural_truth(bytes: &[u8], nodes: &[Node]) -> Vec<usize> {
    let mut in_string = vec![false; bytes.len()];
    for n in nodes {
        if n.kind == "str" || n.kind == "key" {
            for f in &mut in_string[n.start..n.end] {
                *f = true;
            }
        }
    }
    (0..bytes.len())
        .filter(|&i| !in_string[i] && matches!(bytes[i], b'{' | b'}' | b'[' | b']' | b',' | b':'))
        .collect()
}

fn check_doc(rep: &mut Report, bytes: &[u8], nodes: &[Node], r: &mut Rng) -> Result<(), Fail> {
    let index = SimpleJsonIndex::build(bytes);
    let truth = structural_truth(bytes, nodes);
    let len = bytes.len();

    // the reference machine must agree with the span-derived ground truth (harness self-consistency)
    let m = sm::simple(bytes);
    if sm::one_positions(&m.ib) != truth {
        return Err(Fail { sig: "harness".into(), msg: "reference machine IB != span-derived structural bytes".into() });
    }

    rep.eval();
    if index.structural_count() != truth.len() {
        fail!("C32:structural_count", "structural_count = {}, document has {} structural bytes", index.structural_count(), truth.len());
    }
    let ks: Vec<usize> = if truth.len() <= 5000 { (0..truth.len() + 4).collect() } else { (0..1000).map(|_| r.below(truth.len())).chain(truth.len() - 2..truth.len() + 4).chain(0..66).collect() };
    for k in ks.into_iter().chain([usize::MAX, u32::MAX as usize]) {
        rep.eval();
        let want = truth.get(k).copied();
        let got = index.structural_pos(k);
        if got != want {
            let cls = if k >= truth.len() { "k_out_of_range" } else { "in_range" };
            fail!(format!("C32:structural_pos:{cls}"), "structural_pos({k}) = {got:?}, ground truth {want:?} ({} structural bytes)", truth.len());
        }
    }
    if truth.len() <= 20_000 {
        rep.eval();
        let listed: Vec<usize> = index.structural_positions(bytes).collect();
        if listed != truth {
            let i = listed.iter().zip(&truth).position(|(a, b)| a != b).unwrap_or(listed.len().min(truth.len()));
            fail!("C32:structural_positions", "iterator differs from the ground truth at item {i}: {:?} vs {:?} (lengths {} / {})", listed.get(i), truth.get(i), listed.len(), truth.len());
        }
        rep.count("iter.structural_positions");
    }
    // inverse
    let positions: Vec<usize> = if len <= 20_000 { (0..len + 3).collect() } else { (0..2500).map(|_| r.below(len + 2)).chain(truth.iter().copied().step_by((truth.len() / 1500).max(1))).collect() };
    for pos in positions.into_iter().chain([len + 64, len + 1000, usize::MAX]) {
        rep.eval();
        let want = truth.binary_search(&pos).ok();
        let got = index.structural_index(pos);
        if got != want {
            let cls = if pos >= len { "past_end" } else if want.is_some() { "on_structural" } else if bytes.get(pos).is_some_and(|b| matches!(b, b'{' | b'}' | b'[' | b']' | b',' | b':')) { "bracket_inside_string" } else { "non_structural" };
            fail!(format!("C32:structural_index:{cls}"), "structural_index({pos}) = {got:?}, ground truth {want:?}");
        }
        if want.is_none() && pos < len && matches!(bytes[pos], b'{' | b'}' | b'[' | b']' | b',' | b':') {
            rep.count("index.bracket_inside_string");
            if matches!(bytes[pos], b'{' | b'[') {
                rep.eval();
                let got = index.find_close(bytes, pos);
                if got.is_some() {
                    fail!("C32:find_close:bracket_inside_string", "find_close({pos}) = {got:?} for a bracket byte inside a string");
                }
            }
        }
    }
    // per node
    let ids: Vec<usize> = if nodes.len() <= 6000 { (0..nodes.len()).collect() } else { (0..2000).map(|_| r.below(nodes.len())).chain([0]).collect() };
    for j in ids {
        let n = &nodes[j];
        rep.eval();
        let got = index.skip_value(bytes, n.start);
        if got != Some(n.end) {
            fail!(format!("C32:skip_value:{}", n.kind), "skip_value at {} ({}) = {got:?}, value ends at {}", n.start, n.kind, n.end);
        }
        rep.count(&format!("skip.{}", n.kind));
        let container = n.kind == "obj" || n.kind == "arr";
        rep.eval();
        let fc = index.find_close(bytes, n.start);
        let want_close = if container { Some(n.end - 1) } else { None };
        if fc != want_close {
            let cls = if container { n.kind } else { "non_container" };
            fail!(format!("C32:find_close:{cls}"), "find_close at {} ({}) = {fc:?}, expected {want_close:?}", n.start, n.kind);
        }
        if container {
            rep.count(if n.children.is_empty() { "close.empty_container" } else { "close.nonempty_container" });
            if n.end - n.start > 64 {
                rep.count("close.span_over_64B");
            }
        }
        // children(): outside the property statement, sanity only
        if n.end - n.start > 1500 && r.below(16) != 0 {
            continue;
        }
        match index.children(bytes, n.start) {
            Some(it) => {
                if !container {
                    fail!("C32:children:some_for_non_container", "children() at {} ({}) returned Some", n.start, n.kind);
                }
                let mut prev = n.start;
                for (cnt, p) in it.enumerate() {
                    if p <= prev || p >= n.end - 1 || truth.binary_search(&p).is_err() {
                        fail!("C32:children:position_outside_container", "children() of container [{}, {}) yields {p} after {prev}", n.start, n.end);
                    }
                    prev = p;
                    if cnt > n.end - n.start {
                        fail!("C32:children:endless", "children() does not terminate");
                    }
                }
            }
            None => {
                if container {
                    fail!("C32:children:none_for_container", "children() at container start {} returned None", n.start);
                }
            }
        }
    }
    // find_close on positions that are not an open bracket (documented None)
    for _ in 0..8 {
        let pos = r.below(len + 3);
        let is_open = truth.binary_search(&pos).is_ok() && matches!(bytes[pos], b'{' | b'[');
        if !is_open {
            rep.eval();
            let got = index.find_close(bytes, pos);
            if got.is_some() {
                fail!("C32:find_close:not_an_open_bracket", "find_close({pos}) = {got:?} but that position is not a structural open bracket");
            }
        }
    }
    rep.eval();
    if index.skip_value(bytes, len).is_some() || index.skip_value(bytes, len + 5).is_some() {
        fail!("C32:skip_value:past_end", "skip_value past the end returned Some");
    }
    // anchor: the index bits are the reference machine's bits (checked last so that a navigation
    // failure is reported under its own, more specific signature)
    rep.eval();
    if index.ib() != m.ib.words.as_slice() || index.bp().words() != m.bp.words.as_slice() || index.ib_len() != len || index.bp().len() != m.bp.len {
        fail!("C32:build:differs_from_reference_machine", "SimpleJsonIndex bits differ from the harness's simple-cursor machine");
    }
    Ok(())
}

fn run_doc(rep: &mut Report, doc: &Doc, r: &mut Rng) -> bool {
    let bytes = &doc.rd.bytes;
    let replay = || json!({"kind": "doc", "tagged": doc.val.to_tagged(), "bytes_hex": hex(bytes), "tag": doc.tag});
    match catch(|| check_doc(rep, bytes, &doc.rd.nodes, r)) {
        Ok(Ok(())) => true,
        Ok(Err(f)) if f.sig == "harness" => {
            rep.inconclusive(json!({"why": f.msg, "input": show_bytes(bytes)}));
            true
        }
        Ok(Err(f)) => {
            rep.violation(f.sig, f.msg, replay());
            false
        }
        Err(p) => {
            rep.violation(format!("C32:panic:{}", panic_sig(&p)), p, replay());
            false
        }
    }
}

pub fn run(ctx: &Ctx) -> Report {
    let mut rep = Report::new("C32", "c32");
    rep.rule = "case = one generated valid document; every structural ordinal, every byte position, every container and \
                every value start is queried; evaluation = one compared answer; non-trivial = document with >= 3 structural \
                bytes and >= 1 string; distinct by hash(bytes)"
        .into();
    let mut r = Rng::new(ctx.shard_seed());
    if let Some(rp) = &ctx.replay {
        // same replay format as C06: tagged tree + bytes; spans are rebuilt by C06's scanner
        let bytes = unhex(rp["bytes_hex"].as_str().unwrap_or(""));
        match crate::val::Val::from_tagged(&rp["tagged"]).and_then(|v| crate::mon::c06::rebuild_nodes(&v, &bytes).map(|n| (v, n))) {
            Some((val, nodes)) => {
                let doc = Doc { val, rd: crate::gen::json::Rendered { bytes, nodes }, tag: "replay" };
                run_doc(&mut rep, &doc, &mut r);
            }
            None => rep.inconclusive(json!({"why": "bad replay object"})),
        }
        return rep;
    }
    let docs = ctx.n(4000, 40_000, 8);
    let mut big_left = ctx.n(2, 16, 0);
    for i in 0..docs {
        let doc = gen_case(&mut r, ctx.tiny(), big_left > 0, i);
        if doc.tag == "large" {
            big_left -= 1;
        }
        if let Err(why) = generator_crosscheck(&doc) {
            rep.inconclusive(json!({"why": format!("generator-suspect: {why}"), "input": show_bytes(&doc.rd.bytes)}));
            continue;
        }
        rep.count(&format!("doc.{}", doc.tag));
        let ok = run_doc(&mut rep, &doc, &mut r);
        let nstruct = doc.rd.bytes.iter().filter(|b| matches!(b, b'{' | b'}' | b'[' | b']' | b',' | b':')).count();
        if nstruct >= 3 && doc.rd.nodes.iter().any(|n| n.kind == "str" || n.kind == "key") {
            rep.nontrivial(fnv(&doc.rd.bytes));
        }
        if doc.rd.bytes.len() > 100_000 {
            rep.count("doc.over_100kB");
        }
        if doc.rd.nodes.iter().map(|n| n.depth).max().unwrap_or(0) >= 128 {
            rep.count("doc.depth_over_128");
        }
        if ok && rep.samples.len() < 4 && doc.rd.bytes.len() < 120 && doc.rd.nodes.len() >= 5 {
            rep.sample(json!({"input": String::from_utf8_lossy(&doc.rd.bytes), "structural_bytes": structural_truth(&doc.rd.bytes, &doc.rd.nodes)}));
        }
    }
    if !ctx.tiny() {
        rep.require("close.nonempty_container", 2000);
        rep.require("close.empty_container", 200);
        rep.require("close.span_over_64B", 500);
        rep.require("index.bracket_inside_string", 200);
        rep.require("skip.str", 2000);
        rep.require("skip.key", 2000);
        rep.require("skip.num", 2000);
        rep.require("skip.bool", 300);
        rep.require("skip.null", 300);
        rep.require("skip.obj", 500);
        rep.require("skip.arr", 500);
        rep.require("doc.depth_over_128", 20);
        rep.require("doc.over_100kB", 1);
        rep.require("iter.structural_positions", 1000);
    }
    rep
}
