//! C03 — Elias-Fano sequences answer exactly under any access history.
//!
//! Oracle: `model::seq` — the plain `Vec<u32>` and a cursor that is only an index. Up to three
//! library cursors over one `EliasFano` receive a random interleaving of `advance_one`,
//! `advance_by(k)`, `seek(i)`, `cursor_from(i)`, `cursor()` and clone-and-diverge; after every
//! operation the returned element and the observers (`current`, `index`, `is_exhausted`) of
//! *all* live cursors are compared with the model. Static API: `len`, `is_empty`, `universe`
//! (non-empty sequences: max + 1, as documented), `get(i)` for every i <= len + 2 and huge i,
//! `predecessor(v)` (last index among duplicates, as documented) and iteration order/length.
//!
//! History classes are derived from the data (position of each element's 1-bit in the unary
//! high part, computed from the encoding's *definition*; used for counters only, never for the
//! oracle).

use crate::gen::mono;
use crate::model::seq as sm;
use crate::report::{catch, panic_sig, Ctx, Report};
use crate::rng::{fnv, mix, Rng};
use serde_json::{json, Value};
use succinctly::bits::{EliasFano, EliasFanoCursor};

const SLOTS: usize = 3;

/// `Report` keeps three witnesses per signature; the replay object (sequence + operation list)
/// is only rendered for those.
fn viol(rep: &mut Report, sig: impl Into<String>, msg: impl Into<String>, replay: impl FnOnce() -> Value) {
    let sig = sig.into();
    let kept = rep.violations.iter().filter(|v| v.sig == sig).count();
    let r = if kept < 3 { replay() } else { Value::Null };
    rep.violation(sig, msg, r);
}

#[derive(Clone, Debug)]
enum Op {
    One(usize),
    By(usize, usize),
    Seek(usize, usize),
    From(usize, usize),
    Start(usize),
    Clone(usize, usize),
}

fn op_json(o: &Op) -> Value {
    match o {
        Op::One(s) => json!(["one", s]),
        Op::By(s, k) => json!(["by", s, k.to_string()]),
        Op::Seek(s, i) => json!(["seek", s, i.to_string()]),
        Op::From(s, i) => json!(["from", s, i.to_string()]),
        Op::Start(s) => json!(["start", s]),
        Op::Clone(a, b) => json!(["clone", a, b]),
    }
}
fn op_from(v: &Value) -> Option<Op> {
    let a = v.as_array()?;
    let s = (a.get(1)?.as_u64()? as usize) % SLOTS;
    let n = |i: usize| a.get(i)?.as_str()?.parse::<usize>().ok();
    Some(match a.first()?.as_str()? {
        "one" => Op::One(s),
        "by" => Op::By(s, n(2)?),
        "seek" => Op::Seek(s, n(2)?),
        "from" => Op::From(s, n(2)?),
        "start" => Op::Start(s),
        "clone" => Op::Clone(s, (a.get(2)?.as_u64()? as usize) % SLOTS),
        _ => return None,
    })
}

/// How the sequence of a case is written into a replay object: explicit when short, otherwise
/// the generator recipe (`gen::mono::gen_seq` is deterministic in it).
#[derive(Clone, Debug)]
struct Src {
    seq_seed: u64,
    style: usize,
    n: usize,
    explicit: bool,
}

fn seq_json(seq: &[u32], src: &Src) -> Value {
    if src.explicit || seq.len() <= 4096 {
        let mut bytes = Vec::with_capacity(seq.len() * 4);
        for v in seq {
            bytes.extend_from_slice(&v.to_le_bytes());
        }
        json!({"values_le32_hex": crate::report::hex(&bytes)})
    } else {
        json!({"recipe": {"seq_seed": src.seq_seed.to_string(), "style": src.style, "n": src.n}})
    }
}
fn seq_from(v: &Value) -> Option<(Vec<u32>, Src)> {
    if let Some(h) = v.get("values_le32_hex").and_then(|x| x.as_str()) {
        let b = crate::report::unhex(h);
        let seq: Vec<u32> = b.chunks_exact(4).map(|c| u32::from_le_bytes([c[0], c[1], c[2], c[3]])).collect();
        let n = seq.len();
        return Some((seq, Src { seq_seed: 0, style: 0, n, explicit: true }));
    }
    let rc = v.get("recipe")?;
    let seed = rc.get("seq_seed")?.as_str()?.parse::<u64>().ok()?;
    let style = rc.get("style")?.as_u64()? as usize;
    let n = rc.get("n")?.as_u64()? as usize;
    let seq = mono::gen_seq(&mut Rng::new(seed), style, n);
    Some((seq, Src { seq_seed: seed, style, n, explicit: false }))
}

/// Low width by the encoding's definition: floor(log2(universe / n)), 0 if universe <= n.
fn low_width(seq: &[u32]) -> u32 {
    let n = seq.len() as u64;
    if n == 0 {
        return 0;
    }
    let universe = *seq.last().unwrap() as u64 + 1;
    if universe <= n {
        0
    } else {
        63 - (universe / n).leading_zeros()
    }
}

fn fold(d: &mut u64, x: u64) {
    *d = mix(*d, x);
}
fn fold_opt(d: &mut u64, x: Option<u32>) {
    fold(d, match x {
        Some(v) => v as u64,
        None => 1 << 40,
    });
}

fn gen_ops(r: &mut Rng, n: usize, count: usize, huge: bool) -> Vec<Op> {
    let mut ops = Vec::with_capacity(count);
    // approximate position of slot cursors so that targeted choices (near the cursor, near the
    // end) are likely; exactness is not needed, the model recomputes everything
    let mut approx = [0usize; SLOTS];
    let mut profile = r.below(4); // 0 mixed, 1 mostly small steps, 2 seek-heavy, 3 end-heavy
    for i in 0..count {
        if i % 64 == 63 {
            profile = r.below(4);
        }
        let s = if r.chance(3, 4) { 0 } else { r.below(SLOTS) };
        let pick = match profile {
            1 => *r.pick(&[0usize, 0, 0, 0, 1, 1, 1, 1, 2, 5]),
            2 => *r.pick(&[0usize, 1, 2, 2, 2, 2, 3, 3, 4, 5]),
            3 => *r.pick(&[0usize, 0, 1, 1, 2, 2, 3, 6, 6, 6]),
            _ => r.below(7),
        };
        let near_end = |r: &mut Rng| (n + 2).saturating_sub(r.below(6));
        let op = match pick {
            0 => {
                approx[s] = (approx[s] + 1).min(n);
                Op::One(s)
            }
            1 => {
                let mut k = match r.below(14) {
                    0 => 0,
                    1 => 1,
                    2 => 2,
                    3 => 3,
                    4 => 63,
                    5 => 64,
                    6 => 65,
                    7 => 66,
                    8 => 300,
                    9 => r.below(70),
                    10 => r.below(20),
                    11 => n.saturating_sub(approx[s]).saturating_sub(r.below(3)),
                    12 => n + r.below(3),
                    _ => r.below(n + 2),
                };
                if huge && r.chance(1, 25) {
                    k = match r.below(4) {
                        0 => usize::MAX,
                        1 => usize::MAX - r.below(4),
                        // idx + k wraps to a small index
                        2 => (usize::MAX - approx[s]).wrapping_add(1 + r.below(3)),
                        _ => usize::MAX / 2 + 1,
                    };
                }
                approx[s] = approx[s].saturating_add(k).min(n);
                Op::By(s, k)
            }
            2 | 3 => {
                let t = match r.below(12) {
                    0 => 0,
                    1 => approx[s].saturating_sub(r.below(4)),
                    2 => approx[s] + r.below(4),
                    3 => approx[s].saturating_sub(r.below(300)),
                    4 => (r.below(n / 256 + 2) * 256).saturating_sub(r.below(3)),
                    5 => r.below(n / 256 + 2) * 256 + r.below(2),
                    6 => near_end(r),
                    7 => n.saturating_sub(1),
                    8 => *r.pick(&[usize::MAX, usize::MAX - 1, u32::MAX as usize, u32::MAX as usize + 1, n, n + 1]),
                    _ => r.below(n + 2),
                };
                approx[s] = t.min(n);
                if pick == 2 {
                    Op::Seek(s, t)
                } else {
                    Op::From(s, t)
                }
            }
            4 => {
                approx[s] = 0;
                Op::Start(s)
            }
            5 => {
                let a = r.below(SLOTS);
                let b = (a + 1 + r.below(SLOTS - 1)) % SLOTS;
                approx[b] = approx[a];
                Op::Clone(a, b)
            }
            _ => {
                // drive towards / over the end
                let t = near_end(r);
                approx[s] = t.min(n);
                Op::Seek(s, t)
            }
        };
        ops.push(op);
    }
    ops
}

#[derive(Clone, Copy, PartialEq, Eq)]
enum Last {
    Other,
    Seek,
    From,
    Clone,
}

/// One history on one `EliasFano`. Returns false if a violation was recorded.
fn run_history(rep: &mut Report, seq: &[u32], ops: &[Op], src: &Src, dig: &mut u64) -> bool {
    let n = seq.len();
    let replay = |i: usize| {
        let mut o = seq_json(seq, src);
        o["kind"] = json!("history");
        o["ops"] = Value::Array(ops[..=i.min(ops.len().saturating_sub(1))].iter().map(op_json).collect());
        o
    };
    let ef = match catch(|| EliasFano::build(seq)) {
        Ok(e) => e,
        Err(p) => {
            let mut o = seq_json(seq, src);
            o["kind"] = json!("history");
            o["ops"] = json!([]);
            rep.violation(format!("C03:build:panic:{}", panic_sig(&p)), p, o);
            return false;
        }
    };
    let lw = low_width(seq);
    let hp = |i: usize| ((seq[i] as u64 >> lw) as usize) + i;
    let mut cur: Vec<EliasFanoCursor<'_>> = (0..SLOTS).map(|_| ef.cursor()).collect();
    let mut mc = [sm::Cur::at(seq, 0); SLOTS];
    let mut last = [Last::Other; SLOTS];
    let mut ok = true;

    for (i, op) in ops.iter().enumerate() {
        rep.eval();
        // ---- classify (from the data) and apply to the model ----
        let (slot, name, want): (usize, &str, Option<Option<u32>>) = match *op {
            Op::One(s) => {
                let at = mc[s].idx;
                if at >= n {
                    rep.count("adv1.after_exhaustion");
                } else if at + 1 >= n {
                    rep.count("adv1.to_exhausted");
                } else {
                    let (a, b) = (hp(at) / 64, hp(at + 1) / 64);
                    rep.count(if a == b {
                        "adv1.same_word"
                    } else if b == a + 1 {
                        "adv1.next_word"
                    } else {
                        "adv1.skip_empty_words"
                    });
                }
                match last[s] {
                    Last::Seek => rep.count("hist.advance_after_seek"),
                    Last::From => rep.count("hist.advance_after_cursor_from"),
                    Last::Clone => rep.count("hist.advance_after_clone"),
                    Last::Other => {}
                }
                last[s] = Last::Other;
                (s, "advance_one", Some(mc[s].advance_by(seq, 1)))
            }
            Op::By(s, k) => {
                let at = mc[s].idx;
                let overflow = at.checked_add(k).is_none();
                if overflow {
                    rep.count("advby.index_overflow");
                } else if at >= n {
                    rep.count(if k == 0 { "advby.zero_when_exhausted" } else { "advby.after_exhaustion" });
                } else if k == 0 {
                    rep.count("advby.zero");
                } else if k == 1 {
                    rep.count("advby.one");
                } else if at + k >= n {
                    rep.count(if at + k == n { "advby.exactly_to_end" } else { "advby.past_end" });
                } else if k > 64 {
                    rep.count("advby.seek_path");
                } else {
                    let (a, b) = (hp(at) / 64, hp(at + k) / 64);
                    rep.count(if a == b {
                        "advby.same_word"
                    } else if b == a + 1 {
                        "advby.cross_one_word"
                    } else {
                        "advby.cross_many_words"
                    });
                    if k == 64 {
                        rep.count("advby.k64_scan_path");
                    }
                }
                if k >= 2 {
                    match last[s] {
                        Last::Seek => rep.count("hist.advance_after_seek"),
                        Last::From => rep.count("hist.advance_after_cursor_from"),
                        Last::Clone => rep.count("hist.advance_after_clone"),
                        Last::Other => {}
                    }
                }
                last[s] = Last::Other;
                let name = if overflow { "advance_by:index_overflow" } else { "advance_by" };
                (s, name, Some(mc[s].advance_by(seq, k)))
            }
            Op::Seek(s, t) => {
                let at = mc[s].idx;
                if t >= n {
                    rep.count("seek.past_end");
                } else {
                    if at >= n {
                        rep.count("seek.revive_exhausted");
                    } else if t < at {
                        rep.count("seek.backward");
                    } else if t == at {
                        rep.count("seek.same");
                    } else {
                        rep.count("seek.forward");
                    }
                    if t / 256 != at.min(n.saturating_sub(1)) / 256 {
                        rep.count("seek.other_sample");
                    }
                    if t % 256 == 0 && t > 0 {
                        rep.count("seek.exact_sample");
                    }
                }
                last[s] = Last::Seek;
                (s, "seek", Some(mc[s].seek(seq, t)))
            }
            Op::From(s, t) => {
                rep.count(if t >= n {
                    "from.past_end"
                } else if t == 0 {
                    "from.zero"
                } else {
                    "from.mid"
                });
                mc[s] = sm::Cur::at(seq, t);
                last[s] = Last::From;
                (s, "cursor_from", None)
            }
            Op::Start(s) => {
                mc[s] = sm::Cur::at(seq, 0);
                last[s] = Last::From;
                (s, "cursor", None)
            }
            Op::Clone(a, b) => {
                mc[b] = mc[a];
                last[b] = Last::Clone;
                last[a] = Last::Clone;
                rep.count("hist.clone");
                (b, "clone", None)
            }
        };
        // ---- apply to the library ----
        let res: Result<Option<Option<u32>>, String> = match *op {
            Op::One(s) => {
                let c = &mut cur[s];
                catch(|| Some(c.advance_one()))
            }
            Op::By(s, k) => {
                let c = &mut cur[s];
                catch(|| Some(c.advance_by(k)))
            }
            Op::Seek(s, t) => {
                let c = &mut cur[s];
                catch(|| Some(c.seek(t)))
            }
            Op::From(s, t) => match catch(|| ef.cursor_from(t)) {
                Ok(c) => {
                    cur[s] = c;
                    Ok(None)
                }
                Err(p) => Err(p),
            },
            Op::Start(s) => match catch(|| ef.cursor()) {
                Ok(c) => {
                    cur[s] = c;
                    Ok(None)
                }
                Err(p) => Err(p),
            },
            Op::Clone(a, b) => {
                let c = cur[a].clone();
                cur[b] = c;
                Ok(None)
            }
        };
        let mut bad = false;
        match res {
            Err(p) => {
                bad = true;
                viol(rep, format!("C03:{name}:panic:{}", panic_sig(&p)), format!("op #{i} {op:?}: {p}"), || replay(i));
            }
            Ok(got) => {
                if let (Some(g), Some(w)) = (got, want) {
                    fold_opt(dig, g);
                    if g != w {
                        bad = true;
                        viol(
                            rep,
                            format!("C03:{name}:wrong_return"),
                            format!("op #{i} {op:?} returned {g:?}, plain sequence gives {w:?} (len {n}, model index {})", mc[slot].idx),
                            || replay(i),
                        );
                    }
                }
            }
        }
        // ---- observers of every cursor ----
        if !bad {
            for s in 0..SLOTS {
                let c = &cur[s];
                let obs = catch(|| (c.current(), c.index(), c.is_exhausted()));
                match obs {
                    Err(p) => {
                        bad = true;
                        viol(rep, format!("C03:observers:panic:{}", panic_sig(&p)), format!("after op #{i} {op:?}: {p}"), || replay(i));
                    }
                    Ok((c0, ix, ex)) => {
                        rep.eval();
                        fold_opt(dig, c0);
                        fold(dig, ix as u64);
                        let w = (mc[s].current(seq), mc[s].idx, mc[s].is_exhausted(seq));
                        if (c0, ix, ex) != w {
                            bad = true;
                            let which = if s == slot { "state" } else { "other_cursor_disturbed" };
                            viol(
                                rep,
                                format!("C03:{name}:{which}"),
                                format!(
                                    "after op #{i} {op:?}: cursor {s} reports (current, index, exhausted) = {:?}, plain sequence {:?}",
                                    (c0, ix, ex),
                                    w
                                ),
                                || replay(i),
                            );
                        }
                    }
                }
            }
        }
        if bad {
            ok = false;
            // resynchronise every cursor with the model so that one defect is reported once
            // and not as a cascade of follow-up differences; stop if that is impossible
            let mut synced = true;
            for s in 0..SLOTS {
                let t = mc[s].idx;
                match catch(|| ef.cursor_from(t)) {
                    Ok(c) => {
                        if c.index() != t.min(n) || c.current() != mc[s].current(seq) {
                            synced = false;
                        }
                        cur[s] = c;
                    }
                    Err(_) => synced = false,
                }
            }
            rep.count("hist.resync_after_violation");
            if !synced {
                break;
            }
        }
    }
    ok
}

/// Static API on one sequence. `full` = every index / every element; otherwise sampled.
fn check_static(rep: &mut Report, seq: &[u32], src: &Src, r: &mut Rng, full: bool, tiny: bool, dig: &mut u64) -> bool {
    let n = seq.len();
    let base = |what: &str, arg: String| {
        let mut o = seq_json(seq, src);
        o["kind"] = json!("static");
        o["what"] = json!(what);
        o["arg"] = json!(arg);
        o
    };
    let ef = match catch(|| EliasFano::build(seq)) {
        Ok(e) => e,
        Err(p) => {
            viol(rep, format!("C03:build:panic:{}", panic_sig(&p)), p, || base("build", String::new()));
            return false;
        }
    };
    let mut ok = true;
    // len / is_empty / universe
    rep.eval();
    if ef.len() != n || ef.is_empty() != (n == 0) {
        ok = false;
        viol(rep, "C03:len:mismatch", format!("len {} is_empty {} for {n} elements", ef.len(), ef.is_empty()), || base("len", String::new()));
    }
    if n > 0 {
        rep.eval();
        let want = *seq.last().unwrap() as u64 + 1;
        if ef.universe() != want {
            ok = false;
            viol(rep, "C03:universe:mismatch", format!("universe {} want {want}", ef.universe()), || base("len", String::new()));
        }
    } else {
        rep.count("static.universe_of_empty_unspecified");
    }
    fold(dig, ef.universe());
    // get
    let mut idxs: Vec<usize> = Vec::new();
    if tiny && n > 40 {
        // interpreted runs: boundaries and a sample
        for i in (0..4).chain(253..259).chain(n.saturating_sub(2)..n + 3) {
            idxs.push(i);
        }
        for _ in 0..20 {
            idxs.push(r.below(n));
        }
    } else if full || n <= 5000 {
        idxs.extend(0..n + 3);
    } else {
        for k in 0..n / 256 + 1 {
            for d in [0usize, 1, 255] {
                idxs.push(k * 256 + d);
            }
        }
        for _ in 0..3000 {
            idxs.push(r.below(n));
        }
        idxs.extend([n - 1, n, n + 1, n + 2]);
    }
    idxs.extend([usize::MAX, usize::MAX - 1, u32::MAX as usize, u32::MAX as usize + 1]);
    for &i in &idxs {
        rep.eval();
        match catch(|| ef.get(i)) {
            Ok(g) => {
                fold_opt(dig, g);
                if g != sm::get(seq, i) {
                    ok = false;
                    let cls = if i >= n { "past_end" } else { "mismatch" };
                    viol(rep, format!("C03:get:{cls}"), format!("get({i}) = {g:?}, sequence has {:?} (len {n})", sm::get(seq, i)), || base("get", i.to_string()));
                }
            }
            Err(p) => {
                ok = false;
                viol(rep, format!("C03:get:panic:{}", panic_sig(&p)), format!("get({i}): {p}"), || base("get", i.to_string()));
            }
        }
        if i >= n {
            rep.count("get.past_end");
        }
    }
    // predecessor
    let mut vs: Vec<u32> = vec![0, 1, u32::MAX, u32::MAX - 1];
    if tiny && n > 40 {
        for _ in 0..25 {
            let x = seq[r.below(n)];
            vs.extend([x, x.wrapping_sub(1), x.wrapping_add(1)]);
        }
    } else if full || n <= 3000 {
        for &x in seq {
            vs.extend([x, x.wrapping_sub(1), x.wrapping_add(1)]);
        }
    } else {
        for _ in 0..2000 {
            let x = seq[r.below(n)];
            vs.extend([x, x.wrapping_sub(1), x.wrapping_add(1)]);
        }
        for _ in 0..300 {
            vs.push(r.u32());
        }
    }
    for &v in &vs {
        rep.eval();
        let want = sm::predecessor(seq, v);
        if n <= 300 {
            assert_eq!(want, sm::predecessor_scan(seq, v), "model self-check (predecessor)");
        }
        match want {
            None => rep.count("pred.none"),
            Some((k, x)) => {
                if x == v {
                    rep.count("pred.exact_hit");
                } else {
                    rep.count("pred.strictly_smaller");
                }
                if k > 0 && seq[k - 1] == x {
                    rep.count("pred.duplicate_last");
                }
                if k + 1 == n {
                    rep.count("pred.last_element");
                }
            }
        }
        match catch(|| ef.predecessor(v)) {
            Ok(g) => {
                fold(dig, g.map(|(k, x)| ((k as u64) << 32) | x as u64).unwrap_or(u64::MAX));
                if g != want {
                    ok = false;
                    let cls = match (g, want) {
                        (Some((gk, gx)), Some((wk, wx))) if gx == wx && gk != wk => "not_last_duplicate",
                        _ => "mismatch",
                    };
                    viol(rep, format!("C03:predecessor:{cls}"), format!("predecessor({v}) = {g:?}, sequence gives {want:?}"), || base("predecessor", v.to_string()));
                }
            }
            Err(p) => {
                ok = false;
                viol(rep, format!("C03:predecessor:panic:{}", panic_sig(&p)), format!("predecessor({v}): {p}"), || base("predecessor", v.to_string()));
            }
        }
    }
    // iteration: order, values and length
    rep.eval();
    match catch(|| {
        let mut out: Vec<u32> = Vec::with_capacity(n);
        let mut it = (&ef).into_iter();
        // bounded so that a non-terminating iterator is reported, not waited for
        for _ in 0..n + 5 {
            match it.next() {
                Some(v) => out.push(v),
                None => break,
            }
        }
        let again = it.next();
        (out, again)
    }) {
        Ok((out, again)) => {
            fold(dig, fnv(&out.iter().flat_map(|v| v.to_le_bytes()).collect::<Vec<u8>>()));
            if out != seq {
                ok = false;
                let at = out.iter().zip(seq.iter()).position(|(a, b)| a != b).unwrap_or(out.len().min(n));
                let cls = if out.len() != n { "length" } else { "order_or_value" };
                viol(
                    rep,
                    format!("C03:iter:{cls}"),
                    format!("iteration yields {} items for {n} elements; first difference at {at}", out.len()),
                    || base("iter", String::new()),
                );
            } else if again.is_some() {
                ok = false;
                viol(rep, "C03:iter:resumes_after_none", format!("next() after None gave {again:?}"), || base("iter", String::new()));
            }
        }
        Err(p) => {
            ok = false;
            viol(rep, format!("C03:iter:panic:{}", panic_sig(&p)), p, || base("iter", String::new()));
        }
    }
    ok
}

fn classify_seq(rep: &mut Report, seq: &[u32]) {
    let n = seq.len();
    let lw = low_width(seq);
    if n > 0 {
        if lw == 0 {
            rep.count("seq.low_width_0");
        }
        if lw >= 31 {
            rep.count("seq.low_width_ge_31");
        }
        if *seq.last().unwrap() == u32::MAX {
            rep.count("seq.max_is_u32_max");
        }
        if seq.windows(2).any(|w| w[0] == w[1]) {
            rep.count("seq.has_duplicates");
        }
        if seq.windows(2).any(|w| (w[1] - w[0]) as u64 >= (64u64 << lw)) {
            rep.count("seq.has_empty_high_word_gap");
        }
    }
    rep.count(match n {
        0 => "seq.len_0",
        1 => "seq.len_1",
        2..=255 => "seq.len_2_255",
        256 => "seq.len_256",
        257..=512 => "seq.len_257_512",
        513..=9_999 => "seq.len_513_9999",
        _ => "seq.len_ge_10000",
    });
}

pub fn run(ctx: &Ctx) -> Report {
    let mut rep = Report::new("C03", "c03");
    rep.rule = "case = (non-decreasing u32 sequence, interleaving of advance_one / advance_by / seek / cursor_from / \
                cursor / clone on up to 3 cursors over ONE EliasFano); every returned element and all observers of all \
                cursors compared with a plain Vec<u32> + index after every operation; static API (len, universe, get, \
                predecessor, iteration) compared per sequence; non-trivial = sequence with >= 2 elements and >= 50 \
                operations; distinct by hash(sequence, operations)"
        .into();
    let mut dig = 0xC03u64;

    if let Some(rp) = &ctx.replay {
        let Some((seq, src)) = seq_from(rp) else {
            rep.note("replay object has no sequence");
            return rep;
        };
        if rp["kind"] == "static" {
            let mut r = Rng::new(1);
            check_static(&mut rep, &seq, &src, &mut r, true, false, &mut dig);
        } else {
            let ops: Vec<Op> = rp["ops"].as_array().map(|a| a.iter().filter_map(op_from).collect()).unwrap_or_default();
            run_history(&mut rep, &seq, &ops, &src, &mut dig);
        }
        return rep;
    }

    let mut r = Rng::new(ctx.shard_seed());
    let cases = ctx.n(700, 12_000, 8);
    let max_len = if ctx.tiny() { 300 } else { 200_000 };
    // forced lengths first so that every run sees the sample-boundary sizes
    let forced: &[usize] = if ctx.tiny() {
        &[0, 2, 256, 257]
    } else {
        &[0, 1, 2, 255, 256, 257, 511, 512, 513, 10_000, 200_000]
    };

    // fixed corner sequences (low width 31/32, single element, extremes)
    let corners: Vec<Vec<u32>> = vec![
        vec![u32::MAX],
        vec![0, u32::MAX],
        vec![u32::MAX - 1, u32::MAX],
        vec![1 << 31],
        vec![0],
        vec![0, 0, 0],
        vec![u32::MAX, u32::MAX, u32::MAX],
        vec![5, 1 << 31, u32::MAX],
    ];
    for seq in &corners {
        let src = Src { seq_seed: 0, style: 0, n: seq.len(), explicit: true };
        classify_seq(&mut rep, seq);
        check_static(&mut rep, seq, &src, &mut r, true, ctx.tiny(), &mut dig);
        let ops = gen_ops(&mut r, seq.len(), if ctx.tiny() { 12 } else { 400 }, true);
        run_history(&mut rep, seq, &ops, &src, &mut dig);
        rep.count("seq.fixed_corner");
    }

    rep.note(format!("corners done at {:.1}s", ctx.elapsed()));
    for case in 0..cases {
        let n = if case < forced.len() { forced[case] } else { mono::pick_len(&mut r, max_len) };
        let style = r.below(mono::STYLES.len());
        let seq_seed = r.u64();
        let seq = mono::gen_seq(&mut Rng::new(seq_seed), style, n);
        let src = Src { seq_seed, style, n, explicit: false };
        if seq.len() != n || seq.windows(2).any(|w| w[0] > w[1]) {
            rep.inconclusive(json!({"why": "generator produced a non-monotone sequence", "style": mono::STYLES[style], "n": n}));
            continue;
        }
        classify_seq(&mut rep, &seq);
        rep.count(&format!("style.{}", mono::STYLES[style]));

        let full = n <= 5000 || r.chance(1, 4);
        check_static(&mut rep, &seq, &src, &mut r, full, ctx.tiny(), &mut dig);

        let histories = if ctx.tiny() { 1 } else { r.range(1, 3) };
        for _ in 0..histories {
            let nops = if ctx.tiny() { 50 } else { r.range(500, 5000) };
            let ops = gen_ops(&mut r, n, nops, true);
            run_history(&mut rep, &seq, &ops, &src, &mut dig);
            if n >= 2 && nops >= 50 {
                let mut h = fnv(&seq.iter().flat_map(|v| v.to_le_bytes()).collect::<Vec<u8>>());
                h ^= fnv(format!("{ops:?}").as_bytes());
                rep.nontrivial(h);
            }
            if case >= forced.len() && case < forced.len() + 4 {
                rep.sample(json!({"style": mono::STYLES[style], "len": n, "head": seq.iter().take(12).collect::<Vec<_>>(),
                    "max": seq.last(), "low_width": low_width(&seq),
                    "ops_head": ops.iter().take(14).map(op_json).collect::<Vec<_>>(), "ops": nops}));
            }
        }
    }

    rep.note(format!("random cases done at {:.1}s", ctx.elapsed()));
    // Exhaustive small: every sequence over a tiny alphabet of steps, every single-op
    // transition from every cursor position (complete one-step history coverage).
    let small = ctx.n(150, 1500, 1);
    for _ in 0..small {
        let n = if ctx.tiny() { r.range(3, 9) } else { r.range(1, 70) };
        let style = r.below(mono::STYLES.len());
        let seq_seed = r.u64();
        let seq = mono::gen_seq(&mut Rng::new(seq_seed), style, n);
        let src = Src { seq_seed, style, n, explicit: true };
        let mut ops = Vec::new();
        for at in 0..=n {
            for k in [0usize, 1, 2, 3, 5, 63, 64, 65, 66] {
                ops.push(Op::Seek(0, at));
                ops.push(Op::By(0, k));
                ops.push(Op::One(0));
            }
            ops.push(Op::From(1, at));
            ops.push(Op::One(1));
            ops.push(Op::By(1, 2));
        }
        run_history(&mut rep, &seq, &ops, &src, &mut dig);
        rep.count("sweep.sequences");
    }

    rep.note(format!("sweep done at {:.1}s", ctx.elapsed()));
    rep.digest("answers", dig);
    if !ctx.tiny() {
        for (c, m) in [
            ("adv1.same_word", 1000),
            ("adv1.next_word", 200),
            ("adv1.skip_empty_words", 20),
            ("adv1.after_exhaustion", 100),
            ("adv1.to_exhausted", 50),
            ("advby.same_word", 200),
            ("advby.cross_one_word", 100),
            ("advby.cross_many_words", 10),
            ("advby.seek_path", 100),
            ("advby.k64_scan_path", 20),
            ("advby.past_end", 100),
            ("advby.after_exhaustion", 100),
            ("advby.index_overflow", 20),
            ("seek.backward", 200),
            ("seek.other_sample", 200),
            ("seek.revive_exhausted", 100),
            ("seek.past_end", 100),
            ("hist.advance_after_seek", 200),
            ("hist.advance_after_cursor_from", 100),
            ("hist.advance_after_clone", 50),
            ("pred.duplicate_last", 200),
            ("pred.none", 20),
            ("seq.low_width_0", 5),
            ("seq.low_width_ge_31", 3),
            ("seq.max_is_u32_max", 5),
            ("seq.len_256", 1),
            ("seq.len_ge_10000", 2),
            ("seq.has_empty_high_word_gap", 5),
        ] {
            rep.require(c, m);
        }
    }
    rep
}
