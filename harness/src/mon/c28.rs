//! C28 — jq-locate expressions evaluate to the located JSON node.
//!
//! Ground truth: G-JSON documents without duplicate keys; the renderer knows the byte span and
//! the decoded value of every node (keys included). For every offset inside a scalar or key
//! token and on every opening bracket:
//!
//! * `json::locate::locate_offset_detailed` must return `byte_range` = the token's /
//!   container's span, and its `expression`, parsed with `jq::parse` and evaluated on the
//!   document root the way the CLI does (`eval_generic::eval_with_cursor`), must yield the
//!   node's value — for an offset in a key, the value the key names;
//! * `at_offset(o)` and `at_position(line; col)` (line/column of `o` by the C12 line model)
//!   must yield the token's own value (the key string for a key).
//!
//! Independent cross-check of the generator: serde_json parses the document and every span;
//! a disagreement with the generator's ground truth is `inconclusive`, never a violation.

use crate::gen::json as gj;
use crate::model::lines as lm;
use crate::report::{catch, hex, panic_sig, show_bytes, unhex, Ctx, Report};
use crate::rng::{fnv, mix, Rng};
use crate::val::Val;
use serde_json::{json, Value};
use succinctly::jq::eval_generic::{eval_with_cursor, to_owned, to_owned_cursor, GenericResult};
use succinctly::jq::{parse, OwnedValue};
use succinctly::json::light::JsonIndex;
use succinctly::json::locate::locate_offset_detailed;

fn ov_to_val(o: &OwnedValue) -> Val {
    match o {
        OwnedValue::Null => Val::Null,
        OwnedValue::Bool(b) => Val::Bool(*b),
        OwnedValue::Int(i) => Val::Num(i.to_string()),
        OwnedValue::Float(f) => {
            if f.is_finite() {
                Val::Num(format!("{f:?}"))
            } else {
                Val::Str(format!("<non-finite {f}>"))
            }
        }
        OwnedValue::NumberLiteral(_, s) => Val::Num(s.to_string()),
        OwnedValue::String(s) => Val::Str(s.clone()),
        OwnedValue::Array(xs) => Val::Arr(xs.iter().map(ov_to_val).collect()),
        OwnedValue::Object(m) => Val::Obj(m.iter().map(|(k, v)| (k.clone(), ov_to_val(v))).collect()),
    }
}

/// Evaluate a jq program text on the document root exactly as `succinctly jq` does for
/// cursor-aware evaluation. Ok(single value) or Err(description).
fn eval_text(index: &JsonIndex, text: &[u8], prog: &str) -> Result<Val, String> {
    let expr = parse(prog).map_err(|e| format!("parse error: {e}"))?;
    let root = index.root(text);
    match eval_with_cursor(&expr, root) {
        GenericResult::One(v) => Ok(ov_to_val(&to_owned(&v))),
        GenericResult::OneCursor(c) => Ok(ov_to_val(&to_owned_cursor(&c))),
        GenericResult::Owned(o) => Ok(ov_to_val(&o)),
        GenericResult::Error(e) => Err(format!("evaluation error: {e}")),
        GenericResult::None => Err("no output".into()),
        other => match other.into_owned() {
            Some(o) => Err(format!("not a single output: {}", short(&ov_to_val(&o)))),
            None => Err("no single output".into()),
        },
    }
}

/// Generator cross-check equality: serde_json (without `float_roundtrip`) may be off by an ulp
/// and cannot represent numbers beyond f64, so numbers only need to be close.
fn eq_lenient(a: &Val, b: &Val) -> bool {
    match (a, b) {
        (Val::Num(x), Val::Num(y)) => match (x.parse::<f64>(), y.parse::<f64>()) {
            (Ok(p), Ok(q)) => p == q || (p - q).abs() <= 1e-14 * p.abs().max(q.abs()) || !p.is_finite() || !q.is_finite(),
            _ => false,
        },
        (Val::Arr(x), Val::Arr(y)) => x.len() == y.len() && x.iter().zip(y).all(|(p, q)| eq_lenient(p, q)),
        (Val::Obj(x), Val::Obj(y)) => {
            x.len() == y.len() && x.iter().zip(y).all(|((k1, v1), (k2, v2))| k1 == k2 && eq_lenient(v1, v2))
        }
        (p, q) => p == q,
    }
}

/// `file:line` of a caught panic (the message itself quotes input text, so it is not stable).
fn panic_site(p: &str) -> String {
    let loc = p.rfind(" @ ").map(|i| &p[i + 3..]).unwrap_or("?");
    let loc = loc.find("src/").map(|i| &loc[i..]).unwrap_or(loc);
    let class = if p.contains("is not a char boundary") { "char_boundary" } else { "other" };
    format!("{loc}[{class}]")
}

fn short(v: &Val) -> String {
    let t = v.to_json_text();
    if t.len() > 160 {
        let mut cut = 160;
        while !t.is_char_boundary(cut) {
            cut -= 1;
        }
        format!("{}…", &t[..cut])
    } else {
        t
    }
}

/// Class of a key with respect to jq path syntax, computed from the key text alone.
fn key_class(k: &str) -> &'static str {
    const KEYWORDS: &[&str] = &[
        "and", "or", "not", "if", "then", "elif", "else", "end", "as", "def", "reduce", "foreach", "try", "catch", "label",
        "import", "include", "true", "false", "null", "__loc__", "limit", "first", "last", "range", "error", "env", "input",
    ];
    if k.is_empty() {
        return "empty";
    }
    if k.chars().any(|c| (c as u32) < 0x20 || c == '\u{7f}') {
        return "control";
    }
    if k.contains('"') || k.contains('\\') {
        return "quote_backslash";
    }
    if KEYWORDS.contains(&k) {
        return "keyword";
    }
    let ascii_ident = {
        let mut cs = k.chars();
        let f = cs.next().unwrap();
        (f.is_ascii_alphabetic() || f == '_') && cs.all(|c| c.is_ascii_alphanumeric() || c == '_')
    };
    if ascii_ident {
        return "ascii_ident";
    }
    if k.chars().next().unwrap().is_ascii_digit() {
        return "leading_digit";
    }
    if !k.is_ascii() {
        return "non_ascii";
    }
    "ascii_punct"
}

const KEY_POOL: &[&str] = &[
    "and", "or", "not", "if", "then", "else", "end", "as", "def", "reduce", "foreach", "try", "catch", "label", "import",
    "include", "__loc__", "true", "false", "null", "limit", "first", "env", "input", "é", "日本", "a\"b", "\"", "a\\b", "\\",
    "\\(x)", "\\u0041", "a\nb", "\t", "\u{0}", "\u{7f}", "\u{1f}x", "\u{8}\u{c}", "\u{85}", "\u{2028}", "x y", "1", "01",
    "-1", "1e3", "9lives", "a-b", "a.b", "[0]", ".", "..", "$x", "@base64", "?", "ünï", "ｆｕｌｌ", "٣", "a٣", "ª", "𝒳",
    "x\u{301}", "Ω_1", "_", "__", "a1", "A", "😀", "k😀", "'", "a'b", "a/b", "#", "a b\"c\\d", "\u{feff}", "\u{fffd}",
    "\u{10ffff}", "\r\n", "\\n", "\\\"",
];

/// Replace some keys by pool keys (kept unique inside each object).
fn mangle_keys(r: &mut Rng, v: &mut Val, num: u32, den: u32) {
    match v {
        Val::Arr(xs) => xs.iter_mut().for_each(|x| mangle_keys(r, x, num, den)),
        Val::Obj(kv) => {
            for i in 0..kv.len() {
                if r.chance(num, den) {
                    let k = (*r.pick(KEY_POOL)).to_string();
                    if !kv.iter().any(|(k2, _)| *k2 == k) {
                        kv[i].0 = k;
                    }
                }
            }
            kv.iter_mut().for_each(|(_, x)| mangle_keys(r, x, num, den));
        }
        _ => {}
    }
}

/// Ground-truth value per node index (pre-order, keys interleaved): for a key node the value
/// it names, otherwise the node's own value.
fn node_values<'a>(v: &'a Val, out: &mut Vec<&'a Val>) {
    out.push(v);
    match v {
        Val::Arr(xs) => xs.iter().for_each(|x| node_values(x, out)),
        Val::Obj(kv) => {
            for (_, x) in kv {
                out.push(x); // the key node
                node_values(x, out);
            }
        }
        _ => {}
    }
}

struct Expect<'a> {
    span: (usize, usize),
    /// what the located expression must evaluate to
    named: &'a Val,
    /// what at_offset / at_position must yield
    own: &'a Val,
    role: &'static str,
    /// worst key class on the path from the root (ground truth), "" if only array steps
    path_class: &'static str,
    /// closed-form class of the path used in failure signatures (see `input_class`)
    input_class: &'static str,
}

static NO_RECHECK: Result<Val, String> = Err(String::new());

struct TokenCache {
    expr: String,
    result: Result<Val, String>,
}

/// Check one offset. Returns false if a violation other than "the expression does not evaluate
/// to the node" was recorded (the caller then stops sweeping this token).
fn check_offset(
    rep: &mut Report,
    text: &[u8],
    index: &JsonIndex,
    starts: &[usize],
    o: usize,
    ex: &Expect,
    cache: &mut Option<TokenCache>,
    replay: &dyn Fn() -> Value,
) -> bool {
    let mut ok = true;
    let mut expr_bad = false;
    let role = ex.role;
    // 1. locate
    rep.eval();
    let res = match catch(|| locate_offset_detailed(index, text, o)) {
        Ok(r) => r,
        Err(p) => {
            rep.violation(format!("C28:locate:panic:{}", panic_sig(&p)), p, replay());
            return false;
        }
    };
    match res {
        None => {
            ok = false;
            rep.violation(
                format!("C28:locate:none:{role}"),
                format!("locate_offset_detailed({o}) = None for an offset inside a {role} token spanning {:?}", ex.span),
                replay(),
            );
        }
        Some(res) => {
            if res.byte_range != ex.span {
                ok = false;
                rep.violation(
                    format!("C28:locate:byte_range:{role}"),
                    format!("offset {o}: byte_range {:?}, the {role} spans {:?} (expression {})", res.byte_range, ex.span, res.expression),
                    replay(),
                );
            }
            let fresh = !matches!(cache, Some(c) if c.expr == res.expression);
            if fresh {
                rep.eval();
                rep.count("expr.evaluated");
                let r = match catch(|| eval_text(index, text, &res.expression)) {
                    Ok(r) => r,
                    Err(p) => Err(format!("panic: {p}")),
                };
                *cache = Some(TokenCache { expr: res.expression.clone(), result: r });
            }
            let c = cache.as_ref().unwrap();
            let pc = ex.input_class;
            // the verdict on an expression is the same for every offset of the token that
            // prints it: report it once, keep sweeping the remaining offsets
            let verdict: &Result<Val, String> = if fresh { &c.result } else { &NO_RECHECK };
            match verdict {
                Err(e) if e.is_empty() => {}
                Ok(v) => {
                    if !ex.named.eq_num_as_f64(v) {
                        expr_bad = true;
                        rep.violation(
                            format!("C28:expression:wrong_value:{pc}"),
                            format!("offset {o} ({role}): expression `{}` evaluates to {}, the located node is {}", c.expr, short(v), short(ex.named)),
                            replay(),
                        );
                    }
                }
                Err(e) => {
                    expr_bad = true;
                    let cls = if e.starts_with("parse error") {
                        "parse_error".to_string()
                    } else if let Some(p) = e.strip_prefix("panic: ") {
                        format!("panic@{}", panic_site(p))
                    } else {
                        "eval_error".to_string()
                    };
                    rep.violation(
                        format!("C28:expression:{cls}:{pc}"),
                        format!("offset {o} ({role}): expression `{}`: {e}; the located node is {}", c.expr, short(ex.named)),
                        replay(),
                    );
                }
            }
        }
    }
    // 2. at_offset / at_position
    let (line, col) = lm::to_line_col_fast(starts, o);
    for (name, prog) in [("at_offset", format!("at_offset({o})")), ("at_position", format!("at_position({line}; {col})"))] {
        rep.eval();
        let r = match catch(|| eval_text(index, text, &prog)) {
            Ok(r) => r,
            Err(p) => Err(format!("panic: {p}")),
        };
        match r {
            Ok(v) => {
                if !ex.own.eq_num_as_f64(&v) {
                    ok = false;
                    rep.violation(
                        format!("C28:{name}:wrong_value:{role}"),
                        format!("`{prog}` = {}, the token at that position ({role}, span {:?}) has value {}", short(&v), ex.span, short(ex.own)),
                        replay(),
                    );
                }
            }
            Err(e) => {
                ok = false;
                let cls = if e.starts_with("panic") { "panic" } else { "error" };
                rep.violation(
                    format!("C28:{name}:{cls}:{role}"),
                    format!("`{prog}`: {e}; the token at that position ({role}, span {:?}) has value {}", ex.span, short(ex.own)),
                    replay(),
                );
            }
        }
    }
    if line > 1 {
        rep.count("pos.line_gt_1");
    }
    if expr_bad {
        rep.count("tokens.expression_violation");
    }
    ok
}

/// jq keywords that end an expression: a *leading* `.kw` is read as `.` followed by the keyword.
const TERMINATOR_KEYWORDS: &[&str] = &["and", "as", "or", "then", "elif", "else", "end", "catch"];

/// Identifier by Unicode letter/digit rules that is not an ASCII identifier.
fn non_ascii_identifier(k: &str) -> bool {
    let mut cs = k.chars();
    match cs.next() {
        Some(f) if f.is_alphabetic() || f == '_' => {}
        _ => return false,
    }
    !k.is_ascii() && k.chars().all(|c| c.is_alphanumeric() || c == '_')
}

fn class_rank(c: &str) -> u8 {
    match c {
        "" => 0,
        "ascii_ident" => 1,
        "ascii_punct" => 2,
        "leading_digit" => 3,
        "empty" => 4,
        "keyword" => 5,
        "non_ascii" => 6,
        "quote_backslash" => 7,
        _ => 8, // control
    }
}

/// Check every qualifying offset of one document. `tree` is the ground truth.
fn check_doc(rep: &mut Report, tree: &Val, rd: &gj::Rendered, prefix: &[u8], offset_stride: usize) {
    let mut text = prefix.to_vec();
    text.extend_from_slice(&rd.bytes);
    let shift = prefix.len();

    // generator cross-check by an independent reader
    match serde_json::from_slice::<Value>(&text) {
        Ok(sv) => {
            rep.count("gen.crosschecked_by_serde");
            if !eq_lenient(tree, &Val::from_serde(&sv)) {
                rep.inconclusive(json!({"what": "serde_json reads a different value than the generator's tree", "text": show_bytes(&text)}));
                return;
            }
        }
        Err(e) => {
            let m = e.to_string();
            if m.contains("out of range") {
                // serde_json limitation (f64 overflow while scaling), not a generator problem
                rep.count("gen.crosscheck_skipped_serde_number_range");
            } else {
                rep.inconclusive(json!({"what": "generated document rejected by serde_json", "error": m, "text": show_bytes(&text)}));
                return;
            }
        }
    }
    let mut values: Vec<&Val> = Vec::with_capacity(rd.nodes.len());
    node_values(tree, &mut values);
    if values.len() != rd.nodes.len() {
        rep.inconclusive(json!({"what": "node list does not match the tree", "nodes": rd.nodes.len(), "values": values.len()}));
        return;
    }

    let index = match catch(|| JsonIndex::build(&text)) {
        Ok(i) => i,
        Err(p) => {
            rep.violation(format!("C28:build:panic:{}", panic_sig(&p)), p, json!({"kind": "doc", "text_hex": hex(&text)}));
            return;
        }
    };
    let starts = lm::line_starts(&text);
    let doc_hash = fnv(&text);

    // worst key class on the path to each node
    let mut pclass: Vec<&'static str> = vec![""; rd.nodes.len()];
    let key_strs: Vec<Val> = rd.nodes.iter().map(|n| Val::Str(n.text.clone().unwrap_or_default())).collect();
    for (i, n) in rd.nodes.iter().enumerate() {
        let inherited = n.parent.map(|p| pclass[p]).unwrap_or("");
        let own = match n.role {
            gj::Role::Key(_) => key_class(n.text.as_deref().unwrap_or("")),
            gj::Role::FieldValue(_) => {
                // the key node directly precedes in pre-order among this parent's keys
                let p = n.parent.unwrap();
                let ki = rd.nodes[p].children.iter().position(|&c| c == i).map(|j| rd.nodes[p].keys[j]);
                ki.map(|k| key_class(rd.nodes[k].text.as_deref().unwrap_or(""))).unwrap_or("")
            }
            _ => "",
        };
        pclass[i] = if class_rank(own) >= class_rank(inherited) { own } else { inherited };
    }

    // closed-form input classes for signatures
    // 1 = root-most step is a terminator keyword key, 2 = some key is a non-ASCII identifier
    let mut iclass: Vec<u8> = vec![0; rd.nodes.len()];
    for (i, n) in rd.nodes.iter().enumerate() {
        let Some(p) = n.parent else { continue };
        let key_text: Option<&str> = match n.role {
            gj::Role::Key(_) => n.text.as_deref(),
            gj::Role::FieldValue(_) => rd.nodes[p].children.iter().position(|&c| c == i).and_then(|j| rd.nodes[rd.nodes[p].keys[j]].text.as_deref()),
            _ => None,
        };
        let mut c = iclass[p];
        if let Some(k) = key_text {
            if rd.nodes[p].parent.is_none() && TERMINATOR_KEYWORDS.contains(&k) {
                c = 1;
            } else if c == 0 && non_ascii_identifier(k) {
                c = 2;
            }
        }
        iclass[i] = c;
    }

    for (i, n) in rd.nodes.iter().enumerate() {
        let span = (n.start + shift, n.end + shift);
        let is_key = matches!(n.role, gj::Role::Key(_));
        let role: &'static str = if is_key {
            "key"
        } else {
            match n.kind {
                "str" => "string",
                "num" => "number",
                "null" | "bool" => "literal",
                "arr" => "array",
                _ => "object",
            }
        };
        let own: &Val = if is_key { &key_strs[i] } else { values[i] };
        let input_class = match iclass[i] {
            1 => "leading_terminator_keyword_key",
            2 => "non_ascii_identifier_key",
            _ if pclass[i].is_empty() => "index_only",
            _ => pclass[i],
        };
        match iclass[i] {
            1 => rep.count("inputclass.leading_terminator_keyword_key"),
            2 => rep.count("inputclass.non_ascii_identifier_key"),
            _ => {}
        }
        let ex = Expect { span, named: values[i], own, role, path_class: pclass[i], input_class };
        let offsets: Vec<usize> = if n.kind == "arr" || n.kind == "obj" {
            vec![span.0]
        } else if offset_stride <= 1 {
            (span.0..span.1).collect()
        } else {
            // first, last and a strided selection in between
            let mut v: Vec<usize> = (span.0..span.1).step_by(offset_stride).collect();
            if span.1 - 1 > span.0 {
                v.push(span.1 - 1);
            }
            v
        };
        let mut cache: Option<TokenCache> = None;
        let mut all_ok = true;
        for &o in &offsets {
            let replay = || {
                let vn = rd.nodes[i].value_node.map(|vn| (rd.nodes[vn].start + shift, rd.nodes[vn].end + shift)).unwrap_or(span);
                json!({"kind": "offset", "text_hex": hex(&text), "offset": o, "span": [span.0, span.1],
                       "value_span": [vn.0, vn.1], "role": role, "input_class": input_class})
            };
            if !check_offset(rep, &text, &index, &starts, o, &ex, &mut cache, &replay) {
                all_ok = false;
                break; // one witness per token is enough
            }
        }
        rep.count(&format!("role.{role}"));
        if !ex.path_class.is_empty() {
            rep.count(&format!("pathclass.{}", ex.path_class));
        }
        if n.depth >= 1 {
            rep.nontrivial(mix(doc_hash, span.0 as u64));
        }
        if n.depth >= 10 {
            rep.count("node.depth_ge_10");
        }
        if let gj::Role::Elem(k) = n.role {
            if k >= 10 {
                rep.count("node.array_index_ge_10");
            }
        }
        if !all_ok {
            rep.count("tokens.with_violation");
        }
    }
    if shift > 0 {
        rep.count("doc.leading_whitespace");
    }
    if text.windows(2).any(|w| w == b"\r\n") {
        rep.count("doc.has_crlf");
    }
}

fn replay_case(rep: &mut Report, rp: &Value) {
    let text = unhex(rp["text_hex"].as_str().unwrap_or(""));
    let o = rp["offset"].as_u64().unwrap_or(0) as usize;
    let sp = |k: &str| -> (usize, usize) {
        (rp[k][0].as_u64().unwrap_or(0) as usize, rp[k][1].as_u64().unwrap_or(0) as usize)
    };
    let span = sp("span");
    let vspan = sp("value_span");
    if span.1 > text.len() || vspan.1 > text.len() || span.0 > span.1 || vspan.0 > vspan.1 {
        rep.note("replay: spans out of range");
        return;
    }
    // expected values by an independent reader of the spans
    let own = serde_json::from_slice::<Value>(&text[span.0..span.1]).map(|v| Val::from_serde(&v));
    let named = serde_json::from_slice::<Value>(&text[vspan.0..vspan.1]).map(|v| Val::from_serde(&v));
    let (Ok(own), Ok(named)) = (own, named) else {
        rep.note("replay: spans are not JSON values");
        return;
    };
    let role: &'static str = match rp["role"].as_str().unwrap_or("") {
        "key" => "key",
        "string" => "string",
        "number" => "number",
        "literal" => "literal",
        "array" => "array",
        _ => "object",
    };
    let index = JsonIndex::build(&text);
    let starts = lm::line_starts(&text);
    const CLASSES: &[&str] = &[
        "leading_terminator_keyword_key", "non_ascii_identifier_key", "index_only", "ascii_ident", "ascii_punct",
        "leading_digit", "empty", "keyword", "non_ascii", "quote_backslash", "control",
    ];
    let ic = rp["input_class"].as_str().unwrap_or("");
    let input_class = CLASSES.iter().copied().find(|c| *c == ic).unwrap_or("replay");
    let ex = Expect { span, named: &named, own: &own, role, path_class: "", input_class };
    let mut cache = None;
    let rpc = rp.clone();
    check_offset(rep, &text, &index, &starts, o, &ex, &mut cache, &move || rpc.clone());
}

pub fn run(ctx: &Ctx) -> Report {
    let mut rep = Report::new("C28", "c28");
    rep.rule = "case = (JSON document without duplicate keys, token); every byte offset inside a scalar/key token and \
                each opening bracket is located; the printed expression is parsed and evaluated on the document and \
                compared with the generator's ground-truth value, byte_range with the ground-truth span, at_offset / \
                at_position with the token's own value; non-trivial = token below the root; distinct by \
                hash(document, token start)"
        .into();
    if let Some(rp) = &ctx.replay {
        replay_case(&mut rep, rp);
        return rep;
    }
    let mut r = Rng::new(ctx.shard_seed());
    let tiny = ctx.tiny();
    const WSB: &[u8] = b" \t\n\r";

    // ---- fixed documents exercising every key class once ------------------------------------
    {
        let mut kv: Vec<(String, Val)> = Vec::new();
        for (i, k) in KEY_POOL.iter().enumerate() {
            if tiny && i % 6 != 0 {
                continue;
            }
            let inner = Val::Obj(vec![((*k).to_string(), Val::Arr(vec![Val::int(i as i64), Val::Str((*k).to_string())]))]);
            kv.push(((*k).to_string(), inner));
        }
        let tree = Val::Obj(kv);
        for ws in 0..if tiny { 1 } else { 3u8 } {
            for esc in 0..if tiny { 1 } else { 3u8 } {
                let rd = gj::render(&mut r, &gj::RenderOpts { ws, esc, align_to: None }, &tree);
                check_doc(&mut rep, &tree, &rd, b"", if tiny { 4 } else { 1 });
                rep.count("w.key_pool_docs");
            }
        }
    }

    // ---- generated documents -----------------------------------------------------------------
    let docs = ctx.n(6000, 100000, 5);
    for i in 0..docs {
        let o = gj::TreeOpts {
            max_depth: *r.pick(&[1usize, 2, 3, 4, 6, 12]),
            max_width: *r.pick(&[1usize, 2, 4, 8, 24]),
            budget: if tiny { 8 } else { *r.pick(&[5usize, 20, 60, 150]) },
            dup_keys: false,
            str_class: r.below(4) as u8,
            max_str: *r.pick(&[4usize, 16, 40]),
            num_class: r.below(3) as u8,
            simple_keys: r.chance(1, 4),
        };
        let mut tree = gj::gen_tree(&mut r, &o);
        if r.chance(2, 3) {
            mangle_keys(&mut r, &mut tree, 1, 3);
        }
        if tree.has_dup_keys() {
            rep.count("gen.dup_keys_skipped");
            continue;
        }
        let ro = gj::RenderOpts { ws: r.below(3) as u8, esc: r.below(3) as u8, align_to: None };
        let rd = gj::render(&mut r, &ro, &tree);
        let mut prefix = Vec::new();
        if r.chance(1, 2) {
            for _ in 0..r.range(1, 6) {
                prefix.push(*r.pick(WSB));
            }
            if r.chance(1, 3) {
                prefix.extend_from_slice(b"\r\n");
            }
        }
        let stride = if rd.bytes.len() > 1500 { 3 } else { 1 };
        let before = rep.violations_total;
        check_doc(&mut rep, &tree, &rd, &prefix, stride);
        rep.count("w.generated_docs");
        if i < 2 || (rep.violations_total > before && rep.samples.len() < 5) {
            rep.sample(json!({"doc": show_bytes(&rd.bytes), "nodes": rd.nodes.len(), "leading_ws": prefix.len(),
                              "violations_in_doc": rep.violations_total - before}));
        }
    }

    // ---- deep / wide shapes ----------------------------------------------------------------------
    for k in 0..ctx.n(150, 1500, 1) {
        let depth = if tiny { 6 } else { r.range(10, 60) };
        let tree = gj::gen_deep(&mut r, depth, (k % 3) as u8);
        let rd = gj::render(&mut r, &gj::RenderOpts { ws: (k % 3) as u8, esc: 1, align_to: None }, &tree);
        check_doc(&mut rep, &tree, &rd, b"", 1);
        rep.count("w.deep_docs");
    }
    for k in 0..ctx.n(100, 1000, 1) {
        let n = if tiny { 12 } else { r.range(11, 300) };
        let elems: Vec<Val> = (0..n)
            .map(|j| match (j + k) % 5 {
                0 => Val::Arr(vec![Val::int(j as i64)]),
                1 => Val::Obj(vec![("k".into(), Val::int(j as i64))]),
                2 => Val::Str(format!("s{j}")),
                3 => Val::Null,
                _ => Val::int(j as i64),
            })
            .collect();
        let tree = if k % 2 == 0 { Val::Arr(elems) } else { Val::Obj(vec![("list".into(), Val::Arr(elems))]) };
        let rd = gj::render(&mut r, &gj::RenderOpts { ws: (k % 3) as u8, esc: 0, align_to: None }, &tree);
        check_doc(&mut rep, &tree, &rd, b"\n", 1);
        rep.count("w.wide_docs");
    }
    // root scalars with surrounding whitespace
    for _ in 0..ctx.n(300, 3000, 2) {
        let tree = gj::gen_scalar(&mut r, &gj::TreeOpts::default());
        let rd = gj::render(&mut r, &gj::RenderOpts { ws: 2, esc: 1, align_to: None }, &tree);
        check_doc(&mut rep, &tree, &rd, b" \r\n\t", 1);
        rep.count("w.root_scalars");
    }

    if !tiny {
        for k in ["role.key", "role.string", "role.number", "role.literal", "role.array", "role.object"] {
            rep.require(k, 500);
        }
        for k in [
            "pathclass.ascii_ident",
            "pathclass.ascii_punct",
            "pathclass.leading_digit",
            "pathclass.empty",
            "pathclass.keyword",
            "pathclass.non_ascii",
            "pathclass.quote_backslash",
            "pathclass.control",
        ] {
            rep.require(k, 100);
        }
        rep.require("node.depth_ge_10", 200);
        rep.require("node.array_index_ge_10", 500);
        rep.require("pos.line_gt_1", 2000);
        rep.require("doc.leading_whitespace", 100);
        rep.require("doc.has_crlf", 50);
        rep.require("expr.evaluated", 10000);
    }
    rep
}
