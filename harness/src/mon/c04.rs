//! C04 — Balanced-parentheses navigation matches its linear-scan definition.
//!
//! Oracle: `model::parens` (naive excess scans; `Pre` = the same answers precomputed per input
//! with a stack, cross-checked against the scans). Inputs: `gen::parens` (G-PAREN). Every input
//! is presented to the library in up to four storage variants (clean, stray bits inside the
//! last used word, whole surplus words after it, both), as owned (`new*`) and borrowed
//! (`from_words*` over `&[u64]`) storage, with `NoSelect`, `WithSelect` and `WithCsPoppy` at
//! several sample rates, and through the free functions `trees::{find_close, find_open,
//! enclose}`. The model only ever sees the first `len` bits.
//!
//! Only answers the documentation (or the property text: "None for unmatched parentheses and
//! out-of-range positions") defines are compared; the others (e.g. `find_close` on a close,
//! `excess(p >= len)`, `depth` where the excess is negative) are counted as `unspecified.*`,
//! must not panic, and enter the cross-build digest only.
//!
//! Signatures: `C04:<api>:<storage variant>:<class>`, api = `bp.<owned|borrowed>.<op>` or
//! `free.<op>`; the storage variant separates stray bits in the last used word from whole
//! surplus words.
//!
//! `--only small|medium|large` restricts a run to one workload phase (debugging aid).

use crate::gen::parens::{self as gp, Paren, Stray};
use crate::model::parens::Pre;
use crate::report::{catch, hex, panic_sig, unhex, Ctx, Report};
use crate::rng::{fnv_words, mix, Rng};
use serde_json::{json, Value};
#[allow(deprecated)]
use succinctly::trees::WithSelect;
use succinctly::trees::{self, BalancedParens, NoSelect, SelectSupport, WithCsPoppy};
use succinctly::Config;

#[derive(Clone, Copy, Debug, PartialEq, Eq)]
enum Sel {
    No,
    With,
    Cs(u32),
    /// `new_with_cspoppy` / `from_words_with_cspoppy` (default rate, no Config)
    CsDefault,
}

impl Sel {
    fn name(self) -> &'static str {
        match self {
            Sel::No => "noselect",
            Sel::With => "withselect",
            Sel::Cs(_) | Sel::CsDefault => "cspoppy",
        }
    }
    fn rate(self) -> u32 {
        match self {
            Sel::Cs(r) => r,
            _ => 256,
        }
    }
}

struct Cx<'a> {
    /// storage exactly as handed to the library (may contain strays)
    words: &'a [u64],
    len: usize,
    stray: Stray,
    store: &'static str,
    sel: Sel,
    kind: &'a str,
    /// violations reported for this (storage, configuration) so far; capped so that a defect
    /// that affects every query (e.g. every select0 on one input) stays cheap
    reported: std::cell::Cell<u32>,
}

fn words_hex(words: &[u64]) -> String {
    let mut b = Vec::with_capacity(words.len() * 8);
    for w in words {
        b.extend_from_slice(&w.to_le_bytes());
    }
    hex(&b)
}
fn words_unhex(s: &str) -> Vec<u64> {
    unhex(s)
        .chunks_exact(8)
        .map(|c| u64::from_le_bytes([c[0], c[1], c[2], c[3], c[4], c[5], c[6], c[7]]))
        .collect()
}

impl Cx<'_> {
    fn replay(&self, api: &str, p: Option<usize>, k: Option<usize>) -> Value {
        json!({
            "kind": if api.starts_with("free") { "free" } else { "bp" },
            "words_le64_hex": words_hex(self.words),
            "len": self.len,
            "store": self.store,
            "sel": self.sel.name(),
            "sel_config": !matches!(self.sel, Sel::CsDefault),
            "rate": self.sel.rate(),
            "positions": p.map(|p| vec![p.to_string()]).unwrap_or_default(),
            "ks": k.map(|k| vec![k.to_string()]).unwrap_or_default(),
            "generator_kind": self.kind,
            "storage_variant": self.stray.name(),
        })
    }
    fn viol(&self, rep: &mut Report, api: &str, class: &str, msg: String, p: Option<usize>, k: Option<usize>) {
        self.reported.set(self.reported.get() + 1);
        if self.reported.get() > 60 {
            rep.add("violations.not_reported_beyond_60_per_configuration", 1);
            return;
        }
        let sig = format!("C04:{api}:{}:{class}", self.stray.name());
        let msg = format!(
            "{msg} [len {} bits in {} words, {} storage, {}, rate {}, input kind {}]",
            self.len,
            self.words.len(),
            self.store,
            self.sel.name(),
            self.sel.rate(),
            self.kind
        );
        // `Report` keeps three witnesses per signature; do not render the (possibly large)
        // replay object for the ones it will drop
        let kept = rep.violations.iter().filter(|v| v.sig == sig).count();
        let replay = if kept < 3 { self.replay(api, p, k) } else { Value::Null };
        rep.violation(sig, msg, replay);
    }
}

/// Local counters for hot loops (`Report::count` allocates per call); flushed with `Report::add`.
#[derive(Default)]
struct Cnt(std::cell::RefCell<std::collections::HashMap<&'static str, u64>>);
impl Cnt {
    #[inline]
    fn inc(&self, k: &'static str) {
        *self.0.borrow_mut().entry(k).or_insert(0) += 1;
    }
    fn flush(self, rep: &mut Report) {
        for (k, v) in self.0.into_inner() {
            rep.add(k, v);
        }
    }
}

fn fold(d: &mut u64, x: u64) {
    *d = mix(*d, x);
}
fn fo(x: Option<usize>) -> u64 {
    match x {
        Some(v) => v as u64,
        None => u64::MAX - 1,
    }
}

/// What the docs / property define for an answer.
enum Exp<T> {
    Is(T),
    Unspec,
}

/// Remaining work allowance (in rough bit-steps) for the library's linear backward scans.
struct Budget(u64);
impl Budget {
    fn take(&mut self, cost: usize) -> bool {
        let c = cost as u64 + 16;
        if self.0 >= c {
            self.0 -= c;
            true
        } else {
            false
        }
    }
}

#[derive(Clone, Copy)]
struct Ans {
    fc: Option<usize>,
    fop: Option<usize>,
    en: Option<usize>,
    pa: Option<usize>,
    ns: Option<usize>,
    fch: Option<usize>,
    ex: i32,
    de: Option<usize>,
    ss: Option<usize>,
    r1: usize,
    r0: usize,
    io: bool,
    ic: bool,
}

/// Per-word / per-block minima of the absolute excess, for data-derived branch classes.
struct Mins {
    w: Vec<i64>,
    l1: Vec<i64>,
    l2: Vec<i64>,
}
fn mins(m: &Pre) -> Mins {
    let nw = m.len.div_ceil(64);
    let mut w = vec![i64::MAX; nw];
    for p in 0..m.len {
        let e = m.excess(p);
        if e < w[p / 64] {
            w[p / 64] = e;
        }
    }
    let l1: Vec<i64> = w.chunks(32).map(|c| *c.iter().min().unwrap()).collect();
    let l2: Vec<i64> = l1.chunks(32).map(|c| *c.iter().min().unwrap()).collect();
    Mins { w, l1, l2 }
}

fn classify_find_close(cnt: &Cnt, m: &Pre, mn: &Mins, p: usize) {
    match m.find_close(p) {
        None => cnt.inc("fc.unmatched_open"),
        Some(c) => {
            let t = m.excess(c);
            if c / 64 == p / 64 {
                cnt.inc("fc.same_word");
            } else {
                if c / 2048 == p / 2048 {
                    cnt.inc("fc.other_word_same_l1");
                } else if c / 65_536 == p / 65_536 {
                    cnt.inc("fc.other_l1_same_l2");
                } else {
                    cnt.inc("fc.other_l2");
                }
                // the skip decisions "excess + block_min <= 0" are taken with equality exactly
                // when the block holding the match never goes below the match level
                if mn.w[c / 64] == t {
                    cnt.inc("fc.word_min_equals_target");
                }
                if c / 2048 != p / 2048 && c % 2048 >= 64 && mn.l1[c / 2048] == t {
                    cnt.inc("fc.l1_min_equals_target");
                }
                if c / 65_536 != p / 65_536 && c % 65_536 >= 2048 && mn.l2[c / 65_536] == t {
                    cnt.inc("fc.l2_min_equals_target");
                }
            }
            if c + 1 == m.len {
                cnt.inc("fc.match_is_last_bit");
            }
        }
    }
}

fn check_bp<W: AsRef<[u64]>, S: SelectSupport>(
    rep: &mut Report,
    cx: &Cx,
    bp: &BalancedParens<W, S>,
    m: &Pre,
    mn: &Mins,
    positions: &[usize],
    ks: &[usize],
    budget: &mut Budget,
    dig: &mut u64,
) -> bool {
    let len = cx.len;
    let ok = std::cell::Cell::new(true);
    let cnt = Cnt::default();
    let api = |op: &str| format!("bp.{}.{op}", cx.store);

    // ---- whole-structure observers ----
    rep.eval();
    match catch(|| (bp.len(), bp.is_empty(), bp.total_ones())) {
        Ok((l, e, o)) => {
            fold(dig, o as u64);
            if l != len || e != (len == 0) {
                ok.set(false);
                cx.viol(rep, &api("len"), "mismatch", format!("len() {l} is_empty() {e}"), None, None);
            }
            if o != m.ones.len() {
                ok.set(false);
                cx.viol(rep, &api("total_ones"), "mismatch", format!("total_ones() = {o}, the first len bits hold {} ones", m.ones.len()), None, None);
            }
        }
        Err(p) => {
            ok.set(false);
            cx.viol(rep, &api("total_ones"), &format!("panic:{}", panic_sig(&p)), p, None, None);
        }
    }
    rep.eval();
    match catch(|| bp.total_zeros()) {
        Ok(z) => {
            fold(dig, z as u64);
            if z != m.zeros.len() {
                ok.set(false);
                cx.viol(rep, &api("total_zeros"), "mismatch", format!("total_zeros() = {z}, the first len bits hold {} zeros", m.zeros.len()), None, None);
            }
        }
        Err(p) => {
            ok.set(false);
            cx.viol(rep, &api("total_zeros"), &format!("panic:{}", panic_sig(&p)), p, None, None);
        }
    }

    // ---- per position ----
    for &p in positions {
        let open = m.is_open(p);
        let inb = p < len;
        // cost of the library's linear backward scans (bit steps), known from the model
        let fo_cost = if inb && !open { p - m.find_open(p).unwrap_or(0) } else { 0 };
        let en_cost = if inb && open { (p - m.enclose(p).unwrap_or(0)) / 16 } else { 0 };
        let do_back = budget.take(fo_cost + en_cost);
        if !do_back {
            cnt.inc("budget.backward_scans_skipped");
        }
        let call = || Ans {
            fc: bp.find_close(p),
            fop: if do_back { bp.find_open(p) } else { None },
            en: if do_back { bp.enclose(p) } else { None },
            pa: if do_back { bp.parent(p) } else { None },
            ns: bp.next_sibling(p),
            fch: bp.first_child(p),
            ex: bp.excess(p),
            de: bp.depth(p),
            ss: bp.subtree_size(p),
            r1: bp.rank1(p),
            r0: bp.rank0(p),
            io: bp.is_open(p),
            ic: bp.is_close(p),
        };
        let a = match catch(call) {
            Ok(a) => a,
            Err(_) => {
                // attribute the panic to the operation(s) that raise it
                ok.set(false);
                let mut one = |op: &str, f: &dyn Fn()| {
                    if let Err(pn) = catch(f) {
                        cx.viol(rep, &api(op), &format!("panic:{}", panic_sig(&pn)), format!("{op}({p}): {pn}"), Some(p), None);
                    }
                };
                one("find_close", &|| {
                    bp.find_close(p);
                });
                one("find_open", &|| {
                    bp.find_open(p);
                });
                one("enclose", &|| {
                    bp.enclose(p);
                });
                one("next_sibling", &|| {
                    bp.next_sibling(p);
                });
                one("first_child", &|| {
                    bp.first_child(p);
                });
                one("excess", &|| {
                    bp.excess(p);
                });
                one("depth", &|| {
                    bp.depth(p);
                });
                one("subtree_size", &|| {
                    bp.subtree_size(p);
                });
                one("rank1", &|| {
                    bp.rank1(p);
                });
                one("rank0", &|| {
                    bp.rank0(p);
                });
                continue;
            }
        };
        for x in [fo(a.fc), fo(a.fop), fo(a.en), fo(a.ns), fo(a.fch), a.ex as i64 as u64, fo(a.de), fo(a.ss), a.r1 as u64, a.r0 as u64] {
            fold(dig, x);
        }

        let opt = |rep: &mut Report, op: &str, unspec: &'static str, got: Option<usize>, exp: Exp<Option<usize>>| match exp {
            Exp::Unspec => cnt.inc(unspec),
            Exp::Is(w) => {
                rep.eval();
                if got != w {
                    ok.set(false);
                    let class = if !inb { "out_of_range_not_none" } else { "mismatch" };
                    cx.viol(rep, &api(op), class, format!("{op}({p}) = {got:?}, the scan over the first len bits gives {w:?}"), Some(p), None);
                }
            }
        };
        let oor = |v: Option<usize>| if inb { Exp::Is(v) } else { Exp::Is(None) };

        // find_close: defined on opens and out of range
        if inb && open {
            classify_find_close(&cnt, m, mn, p);
        }
        opt(rep, "find_close", "unspecified.find_close", a.fc, if !inb || open { oor(m.find_close(p)) } else { Exp::Unspec });
        if do_back {
            opt(rep, "find_open", "unspecified.find_open", a.fop, if !inb || !open { oor(m.find_open(p)) } else { Exp::Unspec });
            opt(rep, "enclose", "unspecified.enclose", a.en, if !inb || open { oor(m.enclose(p)) } else { Exp::Unspec });
            // parent is documented as an alias of enclose
            opt(rep, "parent", "unspecified.parent", a.pa, Exp::Is(a.en));
            if inb && !open {
                cnt.inc(match m.find_open(p) {
                    None => "fo.unmatched_close",
                    Some(o) if o / 64 == p / 64 => "fo.same_word",
                    Some(o) if o / 64 + 1 == p / 64 => "fo.previous_word",
                    Some(_) => "fo.many_words_back",
                });
            }
            if inb && open {
                cnt.inc(match m.enclose(p) {
                    None => "en.none",
                    Some(o) if o / 64 == p / 64 => "en.same_word",
                    Some(o) if o / 64 + 1 == p / 64 => "en.previous_word",
                    Some(_) => "en.many_words_back",
                });
            }
        }
        opt(rep, "next_sibling", "unspecified.next_sibling", a.ns, if !inb { Exp::Is(None) } else if open { Exp::Is(m.next_sibling(p)) } else { Exp::Unspec });
        opt(rep, "first_child", "unspecified.first_child", a.fch, if !inb { Exp::Is(None) } else if open { Exp::Is(m.first_child(p)) } else { Exp::Unspec });
        opt(rep, "subtree_size", "unspecified.subtree_size", a.ss, if inb && open { Exp::Is(m.subtree_size(p)) } else { Exp::Is(None) });
        if inb {
            let e = m.excess(p);
            rep.eval();
            if a.ex as i64 != e {
                ok.set(false);
                cx.viol(rep, &api("excess"), "mismatch", format!("excess({p}) = {}, scan gives {e}", a.ex), Some(p), None);
            }
            if e >= 0 {
                opt(rep, "depth", "unspecified.depth", a.de, Exp::Is(Some(e as usize)));
            } else {
                cnt.inc("unspecified.depth_negative_excess");
            }
            rep.eval();
            if a.io != open || a.ic == open {
                ok.set(false);
                cx.viol(rep, &api("is_open"), "mismatch", format!("is_open({p}) {} is_close({p}) {}, bit is {}", a.io, a.ic, open as u8), Some(p), None);
            }
        } else {
            cnt.inc("unspecified.excess_out_of_range");
            opt(rep, "depth", "unspecified.depth", a.de, Exp::Is(None));
            cnt.inc("pos.out_of_range");
            if p < cx.words.len() * 64 {
                cnt.inc("pos.out_of_range_inside_storage");
            }
        }
        rep.evals(2);
        if a.r1 != m.rank1(p) {
            ok.set(false);
            let class = if p > len { "beyond_len" } else { "mismatch" };
            cx.viol(rep, &api("rank1"), class, format!("rank1({p}) = {}, scan gives {}", a.r1, m.rank1(p)), Some(p), None);
        }
        if a.r0 != m.rank0(p) {
            ok.set(false);
            let class = if p > len { "beyond_len" } else { "mismatch" };
            cx.viol(rep, &api("rank0"), class, format!("rank0({p}) = {}, scan gives {}", a.r0, m.rank0(p)), Some(p), None);
        }
    }

    // ---- select ----
    let sel_api = api(&format!("select1[{}]", cx.sel.name()));
    for &k in ks {
        rep.evals(2);
        match catch(|| bp.select1(k)) {
            Ok(g) => {
                fold(dig, fo(g));
                let want = if cx.sel == Sel::No { None } else { m.select1(k) };
                if g != want {
                    ok.set(false);
                    let class = if k >= m.ones.len() { "k_out_of_range_not_none" } else { "mismatch" };
                    cx.viol(rep, &sel_api, class, format!("select1({k}) = {g:?}, the first len bits give {want:?} ({} ones)", m.ones.len()), None, Some(k));
                }
                if cx.sel != Sel::No {
                    if let Some(pos) = want {
                        let r = cx.sel.rate().max(1) as usize;
                        if k % r == 0 {
                            cnt.inc("sel1.k_multiple_of_rate");
                        }
                        if k % r == r - 1 {
                            cnt.inc("sel1.k_last_before_sample");
                        }
                        // an all-zero 512-bit rank block directly before the answer's block
                        let blk = pos / 512;
                        if blk > 0 && m.rank[blk * 512] == m.rank[(blk - 1) * 512] {
                            cnt.inc("sel1.answer_after_empty_rank_block");
                        }
                        if pos / 64 == (len - 1) / 64 {
                            cnt.inc("sel1.answer_in_last_word");
                        }
                    } else {
                        cnt.inc("sel1.k_out_of_range");
                    }
                }
            }
            Err(pn) => {
                ok.set(false);
                cx.viol(rep, &sel_api, &format!("panic:{}", panic_sig(&pn)), format!("select1({k}): {pn}"), None, Some(k));
            }
        }
        match catch(|| bp.select0(k)) {
            Ok(g) => {
                fold(dig, fo(g));
                let want = m.select0(k);
                if g != want {
                    ok.set(false);
                    let class = if k >= m.zeros.len() { "k_out_of_range_not_none" } else { "mismatch" };
                    cx.viol(rep, &api("select0"), class, format!("select0({k}) = {g:?}, the first len bits give {want:?} ({} zeros)", m.zeros.len()), None, Some(k));
                }
            }
            Err(pn) => {
                ok.set(false);
                cx.viol(rep, &api("select0"), &format!("panic:{}", panic_sig(&pn)), format!("select0({k}): {pn}"), None, Some(k));
            }
        }
    }
    cnt.flush(rep);
    ok.get()
}

/// Build the requested configuration over `cx.words` and check it.
#[allow(deprecated)]
fn check_config(rep: &mut Report, cx: &Cx, m: &Pre, mn: &Mins, positions: &[usize], ks: &[usize], budget: &mut Budget, dig: &mut u64) -> bool {
    rep.count(&format!("cfg.{}.{}", cx.store, cx.sel.name()));
    if let Sel::Cs(r) = cx.sel {
        rep.count(&format!("cfg.cspoppy_rate.{r}"));
    }
    rep.count(&format!("variant.{}", cx.stray.name()));
    let (words, len) = (cx.words, cx.len);
    let cfg = Config { select_sample_rate: cx.sel.rate() };
    macro_rules! go {
        ($build:expr) => {{
            match catch(|| $build) {
                Ok(bp) => check_bp(rep, cx, &bp, m, mn, positions, ks, budget, dig),
                Err(p) => {
                    let api = format!("bp.{}.construct[{}]", cx.store, cx.sel.name());
                    cx.viol(rep, &api, &format!("panic:{}", panic_sig(&p)), p, None, None);
                    false
                }
            }
        }};
    }
    match (cx.store, cx.sel) {
        ("owned", Sel::No) => go!(BalancedParens::new(words.to_vec(), len)),
        ("owned", Sel::With) => go!(BalancedParens::<Vec<u64>, WithSelect>::new_with_select(words.to_vec(), len)),
        ("owned", Sel::CsDefault) => go!(BalancedParens::<Vec<u64>, WithCsPoppy>::new_with_cspoppy(words.to_vec(), len)),
        ("owned", Sel::Cs(_)) => go!(BalancedParens::<Vec<u64>, WithCsPoppy>::new_with_cspoppy_config(words.to_vec(), len, cfg)),
        (_, Sel::No) => go!(BalancedParens::<&[u64], NoSelect>::from_words(words, len)),
        (_, Sel::With) => go!(BalancedParens::<&[u64], WithSelect>::from_words_with_select(words, len)),
        (_, Sel::CsDefault) => go!(BalancedParens::<&[u64], WithCsPoppy>::from_words_with_cspoppy(words, len)),
        (_, Sel::Cs(_)) => go!(BalancedParens::<&[u64], WithCsPoppy>::from_words_with_cspoppy_config(words, len, cfg)),
    }
}

/// Watchdog state for the free functions on storage with strays. On the unchanged tree a free
/// function was seen to spin (2^32 .. 2^64 loop iterations) instead of answering, so on
/// non-clean storage the three functions are called on a worker thread and awaited with a
/// generous wall-clock limit (a batch normally takes milliseconds). A firing is a per-case
/// INCONCLUSIVE (DESIGN 3.5), the spinning worker is abandoned, and that function is not
/// called on non-clean storage again in this run.
struct FreeGuard {
    secs: u64,
    disabled: [bool; 3],
    /// one long-lived worker (thread creation is expensive in some sandboxes); replaced only
    /// after a firing, when the old one is abandoned while it spins
    worker: Option<Worker>,
}

type Job = (usize, Vec<u64>, usize, Vec<usize>);
struct Worker {
    tx: std::sync::mpsc::Sender<Job>,
    rx: std::sync::mpsc::Receiver<FreeAnswers>,
}

impl FreeGuard {
    fn new(secs: u64) -> FreeGuard {
        FreeGuard { secs, disabled: [false; 3], worker: None }
    }
    /// Run one batch on the worker; None = no answer within the limit (worker abandoned).
    fn run(&mut self, op: usize, words: &[u64], len: usize, ps: &[usize]) -> Option<FreeAnswers> {
        if self.worker.is_none() {
            let (jtx, jrx) = std::sync::mpsc::channel::<Job>();
            let (atx, arx) = std::sync::mpsc::channel::<FreeAnswers>();
            std::thread::Builder::new()
                .stack_size(1 << 20)
                .spawn(move || {
                    while let Ok((op, w, len, q)) = jrx.recv() {
                        if atx.send(free_batch(op, &w, len, &q)).is_err() {
                            break;
                        }
                    }
                })
                .ok()?;
            self.worker = Some(Worker { tx: jtx, rx: arx });
        }
        let w = self.worker.as_ref()?;
        w.tx.send((op, words.to_vec(), len, ps.to_vec())).ok()?;
        match w.rx.recv_timeout(std::time::Duration::from_secs(self.secs)) {
            Ok(a) => Some(a),
            Err(_) => {
                self.worker = None;
                None
            }
        }
    }
}

const FREE_OPS: [&str; 3] = ["find_close", "find_open", "enclose"];

fn free_call(op: usize, words: &[u64], len: usize, p: usize) -> Option<usize> {
    match op {
        0 => trees::find_close(words, len, p),
        1 => trees::find_open(words, len, p),
        _ => trees::enclose(words, len, p),
    }
}

type FreeAnswers = Vec<Result<Option<usize>, String>>;

fn free_batch(op: usize, words: &[u64], len: usize, ps: &[usize]) -> FreeAnswers {
    ps.iter().map(|&p| catch(|| free_call(op, words, len, p))).collect()
}

/// The free functions over a raw slice.
fn check_free(rep: &mut Report, cx: &Cx, m: &Pre, positions: &[usize], budget: &mut Budget, guard: &mut FreeGuard, dig: &mut u64) -> bool {
    let (words, len) = (cx.words, cx.len);
    let mut ok = true;
    rep.count("cfg.free_functions");
    rep.count(&format!("variant.{}", cx.stray.name()));
    let clean = cx.stray == Stray::Clean;
    let cnt = Cnt::default();
    // positions affordable for the library's linear scans (cost known from the model)
    let mut ps: Vec<usize> = Vec::with_capacity(positions.len());
    for &p in positions {
        let open = m.is_open(p);
        let cost = if p >= len {
            0
        } else if open {
            (m.find_close(p).unwrap_or(len) - p) / 4 + (p - m.enclose(p).unwrap_or(0)) / 16
        } else {
            p - m.find_open(p).unwrap_or(0)
        };
        if budget.take(cost) {
            ps.push(p);
        } else {
            cnt.inc("budget.free_skipped");
        }
    }
    for op in 0..3 {
        let name = FREE_OPS[op];
        let answers = if clean {
            free_batch(op, words, len, &ps)
        } else if guard.disabled[op] {
            rep.count(&format!("watchdog.free.{name}.not_called_after_firing"));
            continue;
        } else {
            match guard.run(op, words, len, &ps) {
                Some(a) => a,
                None => {
                    guard.disabled[op] = true;
                    rep.count(&format!("watchdog.free.{name}.fired"));
                    let mut rp = cx.replay("free", None, None);
                    rp["positions"] = json!(ps.iter().map(|p| p.to_string()).collect::<Vec<_>>());
                    rp["only_op"] = json!(name);
                    rep.inconclusive(json!({
                        "why": format!("watchdog: free {name}(words, len, p) gave no answer for a batch of {} positions within {} s", ps.len(), guard.secs),
                        "signature": format!("C04:free.{name}:{}:no_answer_within_watchdog", cx.stray.name()),
                        "replay": rp,
                    }));
                    continue;
                }
            }
        };
        for (&p, res) in ps.iter().zip(answers) {
            let open = m.is_open(p);
            let inb = p < len;
            // find_close / find_open: documented None if p is out of bounds, the wrong kind of
            // parenthesis, or unmatched. enclose: documented for opens ("None if p is at the
            // root"); out of range by the property text; on a close: not defined.
            let exp = match op {
                0 => Exp::Is(if inb && open { m.find_close(p) } else { None }),
                1 => Exp::Is(if inb && !open { m.find_open(p) } else { None }),
                _ => {
                    if !inb {
                        Exp::Is(None)
                    } else if open {
                        Exp::Is(m.enclose(p))
                    } else {
                        Exp::Unspec
                    }
                }
            };
            match res {
                Ok(g) => {
                    if clean {
                        fold(dig, fo(g));
                    }
                    match exp {
                        Exp::Unspec => cnt.inc(["unspecified.free.find_close", "unspecified.free.find_open", "unspecified.free.enclose"][op]),
                        Exp::Is(w) => {
                            rep.eval();
                            if g != w {
                                ok = false;
                                let class = if !inb { "out_of_range_not_none" } else { "mismatch" };
                                cx.viol(rep, &format!("free.{name}"), class, format!("{name}(words, {len}, {p}) = {g:?}, the scan over the first len bits gives {w:?}"), Some(p), None);
                            }
                        }
                    }
                }
                Err(pn) => {
                    ok = false;
                    cx.viol(rep, &format!("free.{name}"), &format!("panic:{}", panic_sig(&pn)), format!("{name}(words, {len}, {p}): {pn}"), Some(p), None);
                }
            }
        }
    }
    cnt.flush(rep);
    ok
}

fn select_ks(r: &mut Rng, m: &Pre, rate: u32, all_below: usize, thin: bool) -> Vec<usize> {
    let ones = m.ones.len();
    let zeros = m.zeros.len();
    let top = ones.max(zeros);
    let mut ks: Vec<usize> = Vec::new();
    if thin {
        // interpreted runs: a handful of ranks around the ends and the middle
        ks.extend([0, 1, top / 2, ones.saturating_sub(1), ones, ones + 1, zeros.saturating_sub(1), zeros, zeros + 1]);
        ks.sort_unstable();
        ks.dedup();
        ks.push(usize::MAX);
        return ks;
    }
    if top <= all_below {
        ks.extend(0..top + 2);
    } else {
        let rate = rate.max(1) as usize;
        let step = rate.max(top / 600 / rate * rate).max(1);
        let mut k = 0usize;
        while k <= top {
            ks.extend([k.saturating_sub(1), k, k + 1]);
            k += step;
        }
        for _ in 0..1200 {
            ks.push(r.below(top));
        }
        ks.extend([ones.saturating_sub(1), ones, ones + 1, zeros.saturating_sub(1), zeros, zeros + 1]);
        ks.sort_unstable();
        ks.dedup();
    }
    ks.extend([usize::MAX, usize::MAX - 1, u32::MAX as usize, u32::MAX as usize + 1, 1usize << 32, (1usize << 32) + 1]);
    ks
}

fn input_classes(rep: &mut Report, p: &Paren, m: &Pre) {
    rep.count(&format!("kind.{}", p.kind));
    if m.max_depth > 32_767 {
        rep.count("input.depth_gt_32767");
    }
    if m.min_excess < -32_767 {
        rep.count("input.excess_below_minus_32767");
    }
    if p.len > 131_072 {
        rep.count("input.len_gt_131072");
    }
    if p.len > 65_536 {
        rep.count("input.len_gt_65536");
    }
    if p.len > 2048 {
        rep.count("input.len_gt_2048");
    }
    if m.min_excess < 0 {
        rep.count("input.has_unmatched_close");
    }
    if p.len > 0 && m.excess(p.len - 1) > 0 {
        rep.count("input.has_unmatched_open");
    }
    if p.len > 0 && m.min_excess >= 0 && m.excess(p.len - 1) == 0 {
        rep.count("input.balanced");
    }
    if p.len % 64 == 0 {
        rep.count("input.len_multiple_of_64");
    }
    // an aligned 65 536-bit block whose own excess or minimum leaves the i16 range
    for b in 0..p.len / 65_536 {
        let base = if b == 0 { 0 } else { m.excess(b * 65_536 - 1) };
        let end = m.excess((b + 1) * 65_536 - 1) - base;
        if end.abs() > 32_767 {
            rep.count("input.l2_block_excess_beyond_i16");
            break;
        }
    }
}

struct Plan {
    all_below: usize,
    extra: usize,
    /// interpreted runs: thin the boundary sweep to every n-th word and the select sample
    stride_words: usize,
    configs: usize,
    variants: usize,
    self_check: bool,
    /// interpreted runs: a handful of select ranks only
    thin: bool,
}

/// One generated input through storage variants x configurations.
fn run_input(rep: &mut Report, r: &mut Rng, p: &Paren, plan: &Plan, budget_per_cfg: u64, guard: &mut FreeGuard, dig: &mut u64) {
    let m = Pre::build(&p.words, p.len);
    let mn = mins(&m);
    input_classes(rep, p, &m);
    if plan.self_check {
        let ps: Vec<usize> = (0..p.len + 2).collect();
        m.self_check(&p.words, &ps);
    }
    let mut variants = vec![Stray::Clean];
    let mut others = [Stray::LastWord, Stray::Surplus, Stray::Both];
    r.shuffle(&mut others);
    variants.extend(others.iter().take(plan.variants));
    let rates = [0u32, 1, 2, 3, 64, 256, 1000, 4096, 7, 100];
    for v in variants {
        let Some(words) = gp::with_strays(r, p, v) else {
            rep.count("variant.not_applicable");
            continue;
        };
        let mut positions = gp::positions(r, p.len, words.len(), plan.all_below, plan.extra, plan.stride_words);
        if p.len > plan.all_below {
            // targeted (from the model): opens whose matching close sits on / next to an L1 or
            // L2 block boundary, where the block-skipping decisions are taken with equality
            for b in (2048..=p.len).step_by(2048 * plan.stride_words.max(1)) {
                for c in b.saturating_sub(2)..(b + 2).min(p.len) {
                    if let Some(o) = m.find_open(c) {
                        positions.push(o);
                    }
                }
            }
        }
        // configurations: free functions always; NoSelect owned + borrowed always; others rotate
        let mut cfgs: Vec<(&'static str, Sel)> = vec![("owned", Sel::No), ("borrowed", Sel::No)];
        let mut pool: Vec<(&'static str, Sel)> = vec![
            ("owned", Sel::With),
            ("borrowed", Sel::With),
            ("owned", Sel::CsDefault),
            ("borrowed", Sel::CsDefault),
            ("owned", Sel::Cs(*r.pick(&rates))),
            ("borrowed", Sel::Cs(*r.pick(&rates))),
            ("owned", Sel::Cs(*r.pick(&rates))),
            ("borrowed", Sel::Cs(*r.pick(&rates))),
        ];
        r.shuffle(&mut pool);
        cfgs.extend(pool.into_iter().take(plan.configs));
        for (store, sel) in cfgs {
            let cx = Cx { words: &words, len: p.len, stray: v, store, sel, kind: p.kind, reported: std::cell::Cell::new(0) };
            let ks = select_ks(r, &m, sel.rate(), plan.all_below, plan.thin);
            let mut b = Budget(budget_per_cfg);
            check_config(rep, &cx, &m, &mn, &positions, &ks, &mut b, dig);
        }
        let cx = Cx { words: &words, len: p.len, stray: v, store: "slice", sel: Sel::No, kind: p.kind, reported: std::cell::Cell::new(0) };
        let mut b = Budget(budget_per_cfg);
        check_free(rep, &cx, &m, &positions, &mut b, guard, dig);
    }
    if p.len >= 4 {
        rep.nontrivial(fnv_words(&p.words) ^ (p.len as u64).wrapping_mul(0x9E37_79B9));
    }
}

fn replay(rep: &mut Report, rp: &Value, dig: &mut u64) {
    let words = words_unhex(rp["words_le64_hex"].as_str().unwrap_or(""));
    let len = rp["len"].as_u64().unwrap_or(0) as usize;
    let used = len.div_ceil(64);
    if words.len() < used {
        rep.note("replay: fewer words than len needs");
        return;
    }
    // the model sees only the first len bits
    let mut clean: Vec<u64> = words[..used].to_vec();
    if len % 64 != 0 {
        *clean.last_mut().unwrap() &= (1u64 << (len % 64)) - 1;
    }
    let m = Pre::build(&clean, len);
    let mn = mins(&m);
    let nums = |k: &str| -> Vec<usize> {
        rp[k].as_array().map(|a| a.iter().filter_map(|x| x.as_str()?.parse().ok()).collect()).unwrap_or_default()
    };
    let mut positions = nums("positions");
    let ks = nums("ks");
    if positions.is_empty() && ks.is_empty() {
        positions = (0..len + 2).collect();
    }
    let sel = match rp["sel"].as_str().unwrap_or("") {
        "withselect" => Sel::With,
        "cspoppy" => {
            if rp["sel_config"].as_bool().unwrap_or(true) {
                Sel::Cs(rp["rate"].as_u64().unwrap_or(256) as u32)
            } else {
                Sel::CsDefault
            }
        }
        _ => Sel::No,
    };
    let store = if rp["store"] == "owned" { "owned" } else if rp["store"] == "borrowed" { "borrowed" } else { "slice" };
    let cx = Cx { words: &words, len, stray: gp::classify(&words, len), store, sel, kind: "replay", reported: std::cell::Cell::new(0) };
    let mut b = Budget(u64::MAX);
    if rp["kind"] == "free" {
        let mut guard = FreeGuard::new(30);
        if let Some(only) = rp["only_op"].as_str() {
            for (i, n) in FREE_OPS.iter().enumerate() {
                guard.disabled[i] = *n != only;
            }
        }
        check_free(rep, &cx, &m, &positions, &mut b, &mut guard, dig);
    } else {
        check_config(rep, &cx, &m, &mn, &positions, &ks, &mut b, dig);
    }
}

pub fn run(ctx: &Ctx) -> Report {
    let mut rep = Report::new("C04", "c04");
    rep.rule = "case = one bit string (G-PAREN) checked at all positions (<= 16384 bits) or at every 64-bit boundary \
                +-2 plus random positions (longer), in several storage variants x owned/borrowed x select variants \
                and through the free functions, against naive excess scans; non-trivial = input with >= 4 bits; \
                distinct by hash(words, len)"
        .into();
    let mut dig = 0xC04u64;
    if let Some(rp) = &ctx.replay {
        replay(&mut rep, rp, &mut dig);
        return rep;
    }
    let mut r = Rng::new(ctx.shard_seed());
    let kinds = gp::KINDS;
    let mut guard = FreeGuard::new(if cfg!(miri) { 120 } else { 2 });

    // 0. model self-check on small inputs of every kind (Pre vs the scan definitions)
    for i in 0..ctx.n(120, 600, 2) {
        let kind = kinds[i % kinds.len()];
        let target = if ctx.tiny() { r.range(8, 48) } else { r.range(0, 260) };
        let p = gp::gen(&mut r, kind, target);
        let m = Pre::build(&p.words, p.len);
        let ps: Vec<usize> = (0..p.len + 3).collect();
        m.self_check(&p.words, &ps);
        rep.count("model.self_checked_inputs");
    }

    // 1. small inputs: all positions, every storage variant, many configurations
    let small = Plan { all_below: 16_384, extra: 0, configs: if ctx.tiny() { 1 } else { 4 }, variants: if ctx.tiny() { 2 } else { 3 }, stride_words: 1, self_check: false, thin: ctx.tiny() };
    let only = ctx.arg("only").unwrap_or("").to_string();
    let phase = |name: &str| only.is_empty() || only == name;
    for i in 0..if phase("small") { ctx.n(260, 3000, 3) } else { 0 } {
        let kind = kinds[i % kinds.len()];
        // the first inputs are very short so that the witnesses kept per signature are readable
        let target = if i < 12 && !ctx.tiny() { r.range(2, 12 + 10 * i) } else if ctx.tiny() { r.range(5, 70) } else { gp::pick_len(&mut r, 1200) };
        let p = gp::gen(&mut r, kind, target);
        run_input(&mut rep, &mut r, &p, &small, if ctx.tiny() { 20_000 } else { 2_000_000 }, &mut guard, &mut dig);
        if i < 4 {
            rep.sample(json!({"kind": p.kind, "len": p.len, "words_head": p.words.iter().take(3).map(|w| format!("{w:#018x}")).collect::<Vec<_>>()}));
        }
    }

    // 2. medium inputs: all positions (<= 16 k bits), clean + one stray variant, two rotating configs
    let medium = Plan { all_below: if ctx.tiny() { 0 } else { 16_384 }, extra: if ctx.tiny() { 10 } else { 0 }, configs: if ctx.tiny() { 1 } else { 2 }, variants: 1, stride_words: if ctx.tiny() { 4 } else { 1 }, self_check: false, thin: ctx.tiny() };
    for i in 0..if phase("medium") { ctx.n(36, 400, 1) } else { 0 } {
        let kind = kinds[(i * 5 + 3) % kinds.len()];
        let target = if ctx.tiny() { 2100 + r.below(200) } else { r.range(1500, 16_384) };
        let p = gp::gen(&mut r, kind, target);
        run_input(&mut rep, &mut r, &p, &medium, if ctx.tiny() { 30_000 } else { 12_000_000 }, &mut guard, &mut dig);
    }

    // 3. large inputs: sampled positions; deep (> 32 767) and long (> 131 072 bits) ones included
    let large = Plan { all_below: 0, extra: if ctx.tiny() { 10 } else { 1500 }, configs: if ctx.tiny() { 0 } else { 1 }, variants: if ctx.tiny() { 0 } else { 1 }, stride_words: if ctx.tiny() { 8 } else { 1 }, self_check: false, thin: ctx.tiny() };
    let big_kinds = ["nest", "tree_deep", "comb", "aligned", "saw", "mono", "tree", "prefix", "suffix", "random", "slice", "tree_wide"];
    for i in 0..if phase("large") { ctx.n(12, 120, 1) } else { 0 } {
        let kind = big_kinds[i % big_kinds.len()];
        let target = match i % 3 {
            _ if ctx.tiny() => 4_300,
            0 => r.range(131_073, 300_000),
            1 => r.range(65_537, 140_000),
            _ => r.range(16_385, 70_000),
        };
        let p = gp::gen(&mut r, kind, target);
        run_input(&mut rep, &mut r, &p, &large, if ctx.tiny() { 6_000 } else { 20_000_000 }, &mut guard, &mut dig);
        if i < 2 {
            rep.sample(json!({"kind": p.kind, "len": p.len, "note": "large input, sampled positions"}));
        }
    }

    rep.digest("answers", dig);
    if !ctx.tiny() {
        for (c, n) in [
            ("fc.same_word", 1000),
            ("fc.other_word_same_l1", 1000),
            ("fc.other_l1_same_l2", 200),
            ("fc.other_l2", 50),
            ("fc.unmatched_open", 200),
            ("fc.word_min_equals_target", 200),
            ("fc.l1_min_equals_target", 20),
            ("fc.l2_min_equals_target", 5),
            ("fo.unmatched_close", 200),
            ("fo.many_words_back", 200),
            ("en.many_words_back", 200),
            ("en.none", 100),
            ("input.depth_gt_32767", 1),
            ("input.len_gt_131072", 2),
            ("input.l2_block_excess_beyond_i16", 1),
            ("input.has_unmatched_close", 20),
            ("input.has_unmatched_open", 20),
            ("input.balanced", 20),
            ("input.len_multiple_of_64", 3),
            ("variant.clean", 100),
            ("variant.last_word_strays", 100),
            ("variant.surplus_words", 100),
            ("variant.last_word_strays+surplus_words", 50),
            ("cfg.owned.noselect", 100),
            ("cfg.borrowed.noselect", 100),
            ("cfg.owned.withselect", 30),
            ("cfg.borrowed.withselect", 30),
            ("cfg.owned.cspoppy", 30),
            ("cfg.borrowed.cspoppy", 30),
            ("cfg.free_functions", 100),
            ("cfg.cspoppy_rate.1", 3),
            ("cfg.cspoppy_rate.4096", 3),
            ("sel1.k_multiple_of_rate", 500),
            ("sel1.answer_after_empty_rank_block", 20),
            ("sel1.k_out_of_range", 200),
            ("pos.out_of_range_inside_storage", 100),
        ] {
            rep.require(c, n);
        }
    }
    rep
}
