//! C10 (library part) — printed numbers read back to the same value.
//!
//! Oracle: Rust's correctly rounded `str::parse::<f64>` / `parse::<i128>` on the printed text,
//! plus the RFC 8259 / YAML 1.2 core number grammars from `model::jsonnum` ("reads back" needs
//! the text to be a number of the output format at all).
//!
//!   * floats: `OwnedValue::Float(f).to_json()` (jq mode), `format_float_with_fraction`,
//!     `format_float_yq` (yq JSON), `format_float_yq_yaml`, `format_float_yq_yaml_nested`
//!     (optional `!!float ` tag stripped) → parsed text must be bit-identical to `f`;
//!     a lost sign of zero is reported under its own signature;
//!   * integers: `OwnedValue::Int(i).to_json()` → parses (as i128) to exactly `i`;
//!   * literals: for every JSON-grammar literal `L` whose double `d = L.parse::<f64>()` is
//!     finite, `format_number_jq_compat(L)` and `OwnedValue::from_number_bytes(L).to_json()`
//!     are JSON numbers whose double equals `d`; integer literals inside the i64 range read
//!     back to exactly the same integer; the stored `NumberRepr` holds the literal's value.
//!     Literals whose double is infinite are outside the property (only "no panic" is checked).

use crate::gen::json::{gen_number, INTERESTING_NUMS};
use crate::model::jsonnum::{is_integer_literal, is_json_number, is_yaml_core_decimal_number};
use crate::report::{catch, panic_sig, Ctx, Report};
use crate::rng::{fnv, mix, Rng};
use serde_json::json;
use succinctly::jq::{format_number_jq_compat, NumberRepr, OwnedValue};
use succinctly::yaml::{format_float_with_fraction, format_float_yq, format_float_yq_yaml, format_float_yq_yaml_nested};

/// `panic_sig` with everything after the first variable part of the message dropped (messages
/// such as "byte index 17 is not a char boundary; it is inside 'é'" quote input data).
fn psig(p: &str) -> String {
    let s = panic_sig(p);
    match s.rsplit_once(" @ ") {
        Some((m, loc)) => format!("{} @ {loc}", m.split('#').next().unwrap_or("").trim_end()),
        None => s,
    }
}

#[derive(Clone, Copy, PartialEq)]
enum Grammar {
    Json,
    Yaml,
}

struct Printer {
    name: &'static str,
    f: fn(f64) -> String,
    g: Grammar,
}

fn jq_float(f: f64) -> String {
    OwnedValue::Float(f).to_json()
}
fn jq_float_in_array(f: f64) -> String {
    let s = OwnedValue::Array(vec![OwnedValue::Float(f)]).to_json();
    s.trim_start_matches('[').trim_end_matches(']').to_string()
}

const PRINTERS: &[Printer] = &[
    Printer { name: "OwnedValue::Float.to_json", f: jq_float, g: Grammar::Json },
    Printer { name: "OwnedValue::Array[Float].to_json", f: jq_float_in_array, g: Grammar::Json },
    Printer { name: "format_float_with_fraction", f: format_float_with_fraction, g: Grammar::Json },
    Printer { name: "format_float_yq", f: format_float_yq, g: Grammar::Json },
    Printer { name: "format_float_yq_yaml", f: format_float_yq_yaml, g: Grammar::Yaml },
    Printer { name: "format_float_yq_yaml_nested", f: format_float_yq_yaml_nested, g: Grammar::Yaml },
];

#[derive(Default)]
struct Stats {
    c: std::collections::BTreeMap<&'static str, u64>,
}
impl Stats {
    #[inline]
    fn hit(&mut self, k: &'static str) {
        *self.c.entry(k).or_insert(0) += 1;
    }
    fn flush(self, rep: &mut Report) {
        for (k, v) in self.c {
            rep.add(k, v);
        }
    }
}

fn ulp_class(a: f64, b: f64) -> &'static str {
    if a.is_nan() || b.is_nan() || a.is_infinite() || b.is_infinite() {
        return "not_finite";
    }
    let key = |x: f64| {
        let b = x.to_bits() as i64;
        if b < 0 {
            i64::MIN.wrapping_sub(b)
        } else {
            b
        }
    };
    match (key(a) as i128 - key(b) as i128).unsigned_abs() {
        0 => "zero_sign",
        1 => "one_ulp",
        2..=16 => "few_ulps",
        _ => "far",
    }
}

/// Significant mantissa digits of a decimal number text (leading zeros do not count).
fn sig_digits(s: &str) -> usize {
    let m = s.split(['e', 'E']).next().unwrap_or("");
    let mut n = 0usize;
    let mut seen_nonzero = false;
    for c in m.bytes() {
        if c.is_ascii_digit() {
            if c != b'0' {
                seen_nonzero = true;
            }
            if seen_nonzero {
                n += 1;
            }
        }
    }
    n
}

/// Compare a printed text against the double it must denote; a changed sign of zero has its own
/// signature. `lit_sig_digits` (0 for computed floats) = significant digits of the source
/// literal: a value change on a literal of more than 100 000 significant digits whose printed
/// mantissa has *fewer* digits than the literal is the one closed-form class
/// `mantissa_digits_dropped_beyond_100000`; every other change is classed by its size.
fn judge_text(
    rep: &mut Report,
    who: &str,
    text: &str,
    want: f64,
    g: Grammar,
    replay: &serde_json::Value,
    shown: &str,
    lit_sig_digits: usize,
) {
    rep.eval();
    let ok_grammar = match g {
        Grammar::Json => is_json_number(text),
        Grammar::Yaml => is_yaml_core_decimal_number(text),
    };
    if !ok_grammar {
        let cls = if g == Grammar::Json { "not_a_json_number" } else { "not_a_yaml_core_number" };
        rep.violation(format!("C10:{who}:{cls}"), format!("{shown} printed as {:?}", clip(text)), replay.clone());
        return;
    }
    match text.parse::<f64>() {
        Err(_) => rep.violation(format!("C10:{who}:unparseable"), format!("{shown} printed as {:?}", clip(text)), replay.clone()),
        Ok(back) => {
            if back.to_bits() == want.to_bits() {
                return;
            }
            if back == want {
                // only ±0 can be equal by value with different bits
                rep.violation(
                    format!("C10:{who}:zero_sign_changed"),
                    format!("{shown} printed as {:?}, which reads back as {back:?} (wanted {want:?})", clip(text)),
                    replay.clone(),
                );
            } else {
                let cls = if lit_sig_digits > 100_000 && sig_digits(text) < lit_sig_digits {
                    "mantissa_digits_dropped_beyond_100000"
                } else {
                    ulp_class(back, want)
                };
                rep.violation(
                    format!("C10:{who}:value_changed:{cls}"),
                    format!("{shown} printed as {:?}, which reads back as {back:e} (wanted {want:e})", clip(text)),
                    replay.clone(),
                );
            }
        }
    }
}

fn clip(s: &str) -> String {
    if s.len() <= 120 {
        s.to_string()
    } else {
        format!("{}…({} bytes)…{}", &s[..60], s.len(), &s[s.len() - 40..])
    }
}

fn check_float(rep: &mut Report, st: &mut Stats, f: f64) -> u64 {
    if !f.is_finite() {
        return 0;
    }
    let replay = json!({"kind": "float", "bits": format!("{:016x}", f.to_bits())});
    let shown = format!("{f:e} (bits {:016x})", f.to_bits());
    let mut dig = f.to_bits();
    for p in PRINTERS {
        match catch(|| (p.f)(f)) {
            Err(e) => rep.violation(format!("C10:{}:panic:{}", p.name, psig(&e)), e, replay.clone()),
            Ok(text) => {
                dig = mix(dig, fnv(text.as_bytes()));
                let body = match text.strip_prefix("!!float ") {
                    Some(rest) if p.name == "format_float_yq_yaml_nested" => {
                        st.hit("float.nested_tagged");
                        rest
                    }
                    _ => &text,
                };
                judge_text(rep, p.name, body, f, p.g, &replay, &shown, 0);
            }
        }
    }
    // data-derived classes (std only)
    let sci = format!("{f:e}");
    let (mant, exp) = sci.split_once('e').unwrap_or((&sci, "0"));
    let exp: i32 = exp.parse().unwrap_or(0);
    let sig = mant.bytes().filter(|b| b.is_ascii_digit()).count();
    if f == 0.0 {
        st.hit(if f.is_sign_negative() { "float.neg_zero" } else { "float.pos_zero" });
    } else {
        if f.abs() < f64::MIN_POSITIVE {
            st.hit("float.subnormal");
        }
        if sig >= 17 {
            st.hit("float.needs_17_digits");
        } else if sig == 16 {
            st.hit("float.needs_16_digits");
        }
        if exp >= 6 {
            st.hit("float.dec_exp_ge_6");
        } else if exp < -4 {
            st.hit("float.dec_exp_lt_minus_4");
        } else {
            st.hit("float.dec_exp_plain_window");
        }
        if exp == 5 || exp == 6 || exp == -4 || exp == -5 {
            st.hit("float.at_yq_notation_threshold");
        }
        if f.fract() == 0.0 {
            st.hit("float.integral");
            if f.abs() >= 9007199254740992.0 {
                st.hit("float.integral_ge_2p53");
            }
        }
        if f.abs() >= 1e300 || f.abs() <= 1e-300 {
            st.hit("float.extreme_magnitude");
        }
    }
    dig
}

fn check_int(rep: &mut Report, st: &mut Stats, i: i64) {
    rep.eval();
    let replay = json!({"kind": "int", "v": i.to_string()});
    match catch(|| OwnedValue::Int(i).to_json()) {
        Err(e) => rep.violation(format!("C10:OwnedValue::Int.to_json:panic:{}", psig(&e)), e, replay),
        Ok(text) => {
            if !is_json_number(&text) {
                rep.violation("C10:OwnedValue::Int.to_json:not_a_json_number", format!("{i} printed as {text:?}"), replay);
            } else if text.parse::<i128>().ok() != Some(i as i128) {
                rep.violation("C10:OwnedValue::Int.to_json:integer_changed", format!("{i} printed as {text:?}"), replay);
            }
            st.hit(if i.unsigned_abs() > (1u64 << 53) { "int.beyond_2p53" } else { "int.within_2p53" });
        }
    }
}

fn check_literal(rep: &mut Report, st: &mut Stats, lit: &str) -> u64 {
    if !is_json_number(lit) {
        rep.inconclusive(json!({"what": "generator produced a non-JSON number literal", "literal": clip(lit)}));
        return 0;
    }
    let want: f64 = match lit.parse() {
        Ok(v) => v,
        Err(_) => {
            rep.inconclusive(json!({"what": "std cannot parse a JSON-grammar literal", "literal": clip(lit)}));
            return 0;
        }
    };
    let replay = json!({"kind": "lit", "s": lit});
    let shown = format!("literal {}", clip(lit));
    let as_i64 = if is_integer_literal(lit) { lit.parse::<i64>().ok() } else { None };
    let mut dig = fnv(lit.as_bytes());
    let lit_digits = sig_digits(lit);

    let judge = |rep: &mut Report, who: &str, text: &str| {
        if !want.is_finite() {
            return;
        }
        judge_text(rep, who, text, want, Grammar::Json, &replay, &shown, lit_digits);
        if let Some(i) = as_i64 {
            rep.eval();
            if text.parse::<i128>().ok() != Some(i as i128) {
                rep.violation(format!("C10:{who}:integer_literal_changed"), format!("{shown} printed as {:?}", clip(text)), replay.clone());
            }
        }
    };

    // a) the formatter
    match catch(|| format_number_jq_compat(lit.as_bytes())) {
        Err(e) => rep.violation(format!("C10:format_number_jq_compat:panic:{}", psig(&e)), e, replay.clone()),
        Ok(text) => {
            dig = mix(dig, fnv(text.as_bytes()));
            judge(rep, "format_number_jq_compat", &text);
            if want.is_finite() {
                st.hit(if text.contains('E') { "lit.out_scientific" } else { "lit.out_plain" });
                if text == lit {
                    st.hit("lit.out_verbatim");
                }
            }
        }
    }
    // b) materialise + print
    match catch(|| {
        let v = OwnedValue::from_number_bytes(lit.as_bytes());
        let text = v.to_json();
        (v, text)
    }) {
        Err(e) => rep.violation(format!("C10:from_number_bytes.to_json:panic:{}", psig(&e)), e, replay.clone()),
        Ok((v, text)) => {
            dig = mix(dig, fnv(text.as_bytes()));
            judge(rep, "from_number_bytes.to_json", &text);
            rep.eval();
            match &v {
                OwnedValue::NumberLiteral(repr, stored) => {
                    st.hit("lit.materialised_as_NumberLiteral");
                    let repr_ok = match (repr, as_i64) {
                        (NumberRepr::Int(i), Some(w)) => *i == w,
                        (NumberRepr::Int(_), None) => false,
                        (NumberRepr::Float(_), Some(_)) => false,
                        (NumberRepr::Float(f), None) => f.to_bits() == want.to_bits() || (f.is_nan() && want.is_nan()),
                    };
                    if !repr_ok {
                        rep.violation(
                            "C10:from_number_bytes:repr_is_not_the_literal_value",
                            format!("{shown}: repr {repr:?}, literal as i64 {as_i64:?}, as f64 {want:e}"),
                            replay.clone(),
                        );
                    }
                    if &**stored != lit {
                        rep.violation("C10:from_number_bytes:stored_text_differs", format!("{shown}: stored {:?}", clip(stored)), replay.clone());
                    }
                }
                other => {
                    // documented: valid RFC 8259 syntax is preserved as NumberLiteral
                    rep.violation(
                        "C10:from_number_bytes:valid_literal_not_preserved",
                        format!("{shown} materialised as {}", clip(&format!("{other:?}"))),
                        replay.clone(),
                    );
                }
            }
        }
    }

    // classes
    let has_exp = lit.contains(['e', 'E']);
    let has_frac = lit.contains('.');
    if !want.is_finite() {
        st.hit("lit.double_is_infinite(outside_property)");
    } else {
        if has_exp {
            st.hit("lit.with_exponent");
        }
        if has_frac {
            st.hit("lit.with_fraction");
        }
        if !has_exp && !has_frac {
            st.hit(if as_i64.is_some() { "lit.integer_in_i64" } else { "lit.integer_beyond_i64" });
        }
        if want == 0.0 {
            if lit.bytes().any(|c| (b'1'..=b'9').contains(&c) && has_exp) && mantissa_nonzero(lit) {
                st.hit("lit.underflows_to_zero");
            }
            if lit.starts_with('-') {
                st.hit("lit.negative_zero");
            }
        }
        let digs = lit.split(['e', 'E']).next().unwrap_or("").bytes().filter(|c| c.is_ascii_digit()).count();
        if digs > 17 {
            st.hit("lit.mantissa_gt_17_digits");
        }
        if digs > 1000 {
            st.hit("lit.mantissa_gt_1000_digits");
        }
    }
    dig
}

fn mantissa_nonzero(lit: &str) -> bool {
    lit.split(['e', 'E']).next().unwrap_or("").bytes().any(|c| (b'1'..=b'9').contains(&c))
}

// ------------------------------------------------------------------ generators

fn next_up(f: f64, k: i64) -> f64 {
    // k-th neighbour in the ordered set of doubles
    let b = f.to_bits() as i64;
    let key = if b < 0 { i64::MIN.wrapping_sub(b) } else { b };
    let key = key.saturating_add(k);
    let b = if key < 0 { i64::MIN.wrapping_sub(key) } else { key };
    f64::from_bits(b as u64)
}

fn fixed_floats() -> Vec<f64> {
    let mut v = vec![
        0.0,
        -0.0,
        1.0,
        -1.0,
        0.1,
        0.2,
        0.1 + 0.2,
        0.3,
        1.5,
        2.5,
        1e15,
        1e16,
        1e17,
        1e21,
        1e22,
        1e23,
        f64::MAX,
        f64::MIN,
        f64::MIN_POSITIVE,
        f64::EPSILON,
        5e-324,
        123456.789,
        999999.9999999999,
        1000000.0,
        1000000.0000000001,
        0.0001,
        0.00009999999999999999,
        0.00010000000000000002,
        100000.0,
        99999.99999999999,
        9007199254740991.0,
        9007199254740992.0,
        9007199254740994.0,
        9223372036854775807.0,
        9223372036854775808.0,
        18446744073709551615.0,
        18446744073709551616.0,
        4.35,
        0.000001,
        2.2250738585072011e-308,
        1.7976931348623157e308,
        8.5,
        1e-7,
        123e-20,
    ];
    for k in -330..=310i32 {
        if let Ok(p) = format!("1e{k}").parse::<f64>() {
            v.push(p);
        }
    }
    for k in -1074..=1023i32 {
        v.push(2f64.powi(k));
    }
    let base: Vec<f64> = v.clone();
    for f in base {
        for d in [-2i64, -1, 1, 2] {
            let g = next_up(f, d);
            v.push(g);
            v.push(-g);
        }
    }
    v
}

fn gen_float(r: &mut Rng) -> f64 {
    loop {
        let f = match r.below(14) {
            0..=3 => f64::from_bits(r.u64()),
            // subnormals
            4 => f64::from_bits(r.u64() & ((1u64 << 52) - 1) | (r.u64() & (1 << 63))),
            5 => f64::from_bits(1 + r.below(4096) as u64),
            // around 2^53, 2^63, 2^64
            6 => next_up(2f64.powi(*r.pick(&[52, 53, 54, 62, 63, 64])), r.range_i64(-40, 40)),
            // around 1e15..1e22
            7 => next_up(10f64.powi(r.range(15, 22) as i32), r.range_i64(-40, 40)),
            // integers as floats
            8 => (r.u64() as i64) as f64,
            9 => r.range_i64(-1_000_000, 1_000_000) as f64 / *r.pick(&[1.0, 2.0, 4.0, 8.0, 10.0, 100.0, 1000.0]),
            // short decimals
            10 => (r.below(100000) as f64) / 10f64.powi(r.range(0, 12) as i32),
            // around the yq notation thresholds
            11 => next_up(*r.pick(&[1e5, 1e6, 1e-4, 1e-5, 1e-3]), r.range_i64(-30, 30)),
            // uniform exponent, few mantissa bits
            12 => f64::from_bits(((r.below(2047) as u64) << 52) | ((r.u64() & 0xFF) << r.below(45)) | (r.u64() & (1 << 63))),
            _ => f64::from_bits(r.u64() & !(0x7FFu64 << 52) | ((1023 + r.range_i64(-60, 70)) as u64) << 52),
        };
        if f.is_finite() {
            return f;
        }
    }
}

fn digits_run(r: &mut Rng, n: usize, style: usize) -> String {
    (0..n)
        .map(|i| match style {
            0 => (b'0' + r.below(10) as u8) as char,
            1 => '9',
            2 => '0',
            3 => {
                if i + 1 == n {
                    '1'
                } else {
                    '0'
                }
            }
            _ => (b'1' + r.below(9) as u8) as char,
        })
        .collect()
}

fn gen_literal(r: &mut Rng, long: bool) -> String {
    match r.below(12) {
        0 => (*r.pick(INTERESTING_NUMS)).to_string(),
        1 => gen_number(r, 2),
        2 => gen_number(r, 1),
        // a random double in several spellings
        3 | 4 => {
            let f = gen_float(r);
            let s = match r.below(7) {
                0 => format!("{f:?}"),
                1 => format!("{f:e}"),
                2 => format!("{f:E}"),
                3 => format!("{:.*e}", r.range(0, 25), f),
                4 => {
                    if f.abs() < 1e40 && f.abs() > 1e-30 {
                        format!("{:.*}", r.range(1, 40), f)
                    } else {
                        format!("{f:e}")
                    }
                }
                5 => format!("{f:e}").replace('e', if r.bool() { "e+" } else { "E+" }).replace("+-", "-"),
                _ => {
                    // zero-padded exponent
                    let t = format!("{f:e}");
                    match t.split_once('e') {
                        Some((m, e)) if !e.starts_with('-') => format!("{m}e{}{e}", "0".repeat(*r.pick(&[1usize, 2, 3, 10, 37, 38, 39, 40, 41, 60, 200]))),
                        Some((m, e)) => format!("{m}e-{}{}", "0".repeat(*r.pick(&[1usize, 2, 3, 10, 37, 38, 39, 40, 41, 60, 200])), &e[1..]),
                        None => t,
                    }
                }
            };
            s
        }
        // synthetic int[.frac][e exp], with structured digit runs
        5..=9 => {
            let mut s = String::new();
            if r.chance(1, 3) {
                s.push('-');
            }
            let il = if r.chance(1, 4) { 0 } else { r.range(1, if long { 60 } else { 22 }) };
            if il == 0 {
                s.push('0');
            } else {
                s.push((b'1' + r.below(9) as u8) as char);
                let st = r.below(5);
                s.push_str(&digits_run(r, il - 1, st));
            }
            if r.chance(2, 3) {
                s.push('.');
                let fl = r.range(1, if long { 60 } else { 22 });
                let st = r.below(5);
                s.push_str(&digits_run(r, fl, st));
            }
            if r.chance(2, 3) {
                s.push(if r.bool() { 'e' } else { 'E' });
                match r.below(3) {
                    0 => s.push('+'),
                    1 => s.push('-'),
                    _ => {}
                }
                let e = match r.below(6) {
                    0 => r.below(10),
                    1 => r.below(30),
                    2 => r.range(290, 330),
                    3 => r.below(400),
                    4 => r.below(8),
                    _ => r.below(25),
                };
                if r.chance(1, 6) {
                    s.push_str(&"0".repeat(*r.pick(&[1usize, 2, 3, 10, 37, 38, 39, 40, 41, 60, 200])));
                }
                s.push_str(&e.to_string());
            }
            s
        }
        // zero mantissas and signed zeros
        10 => {
            let m = *r.pick(&["0", "-0", "0.0", "-0.0", "0.000", "-0.00", "0.0000000"]);
            if r.bool() {
                format!("{m}{}{}{}", r.pick(&["e", "E"]), r.pick(&["", "+", "-"]), r.below(500))
            } else {
                m.to_string()
            }
        }
        // extreme exponents
        _ => {
            let m = *r.pick(&["1", "9.99", "-2.5", "123456789", "0.0001", "1.7976931348623157", "1.7976931348623159", "4.9", "2.4703282292062327", "2.4703282292062328"]);
            let e = *r.pick(&["308", "-308", "-324", "-323", "-325", "309", "400", "-400", "99999999999999999999", "-99999999999999999999", "-0", "+0", "0"]);
            format!("{m}e{e}")
        }
    }
}

/// Exact decimal expansion (80 fraction digits) of the midpoint between the double
/// `m * 2^-79` and its successor, for `m` in [2^52, 2^53): `0.0000000ddd…`.
fn midpoint_near_1e_minus_8(m: u64) -> String {
    let lo = m as f64 * 2f64.powi(-79);
    let half_ulp = 2f64.powi(-80);
    let a = format!("{lo:.80}");
    let b = format!("{half_ulp:.80}");
    // schoolbook addition of two "0.<80 digits>" strings
    let (a, b) = (a.as_bytes(), b.as_bytes());
    let mut out = vec![b'0'; a.len()];
    let mut carry = 0u8;
    for i in (0..a.len()).rev() {
        if a[i] == b'.' {
            out[i] = b'.';
            continue;
        }
        let d = (a[i] - b'0') + (b[i] - b'0') + carry;
        out[i] = b'0' + d % 10;
        carry = d / 10;
    }
    String::from_utf8(out).unwrap_or_default()
}

/// Literals with very long mantissas (around and beyond the formatter's internal digit cap).
fn long_literals(r: &mut Rng, thorough: bool) -> Vec<String> {
    let mut v = Vec::new();
    // a decimal that sits exactly on a rounding midpoint, pushed off it by one far-away digit:
    // its double is the *upper* neighbour; dropping the far digit makes it a tie (→ even)
    for n in [10usize, 2000, 99_900, 100_000, 120_000] {
        let m_even = (1u64 << 52) + 2 * (r.below(1 << 20) as u64);
        let m_odd = m_even + 1;
        for m in [m_even, m_odd] {
            let mid = midpoint_near_1e_minus_8(m);
            v.push(format!("{mid}{}1e0", "0".repeat(n)));
            v.push(format!("-{mid}{}1E+0", "0".repeat(n)));
            v.push(format!("{mid}{}1", "0".repeat(n)));
        }
    }
    let sizes: &[usize] = if thorough { &[300, 1000, 5000, 99_990, 100_010, 150_000] } else { &[300, 1000, 5000] };
    for &n in sizes {
        // 2^53+1 (exactly halfway between two doubles) followed by a far-away non-zero digit:
        // the correctly rounded value depends on that last digit
        v.push(format!("9007199254740993.{}1e0", "0".repeat(n)));
        v.push(format!("9007199254740993.{}1", "0".repeat(n)));
        v.push(format!("9007199254740993{}e-{}", "0".repeat(n), n));
        v.push(format!("0.{}9007199254740993{}1e{}", "0".repeat(7), "0".repeat(n), 23));
        v.push(format!("1.{}e5", digits_run(r, n, 0)));
        v.push(format!("{}.5e-{}", digits_run(r, n, 4), n / 2));
        v.push(format!("{}e-{}", digits_run(r, n, 1), n + 3));
        v.push(format!("-{}", digits_run(r, n.min(5000), 4)));
        v.push(format!("0.{}", digits_run(r, n, 3)));
    }
    v
}

pub fn run(ctx: &Ctx) -> Report {
    let mut rep = Report::new("C10", "c10");
    rep.rule = "case = one finite double through all float printers, one i64 through Int.to_json, or one JSON-grammar \
                literal through format_number_jq_compat and from_number_bytes+to_json; non-trivial = double that is \
                not a small integer, integer beyond 2^53, literal with fraction or exponent; distinct by bits / text"
        .into();
    rep.assumptions.push("`str::parse::<f64>` of the Rust standard library is correctly rounded (it is the reader)".into());
    let mut st = Stats::default();

    if let Some(rp) = &ctx.replay {
        match rp["kind"].as_str().unwrap_or("") {
            "float" => {
                let bits = u64::from_str_radix(rp["bits"].as_str().unwrap_or("0"), 16).unwrap_or(0);
                check_float(&mut rep, &mut st, f64::from_bits(bits));
            }
            "int" => check_int(&mut rep, &mut st, rp["v"].as_str().and_then(|s| s.parse().ok()).unwrap_or(0)),
            _ => {
                check_literal(&mut rep, &mut st, rp["s"].as_str().unwrap_or("0"));
            }
        }
        st.flush(&mut rep);
        return rep;
    }

    let mut r = Rng::new(ctx.shard_seed());
    let tiny = ctx.tiny();
    let mut digest = 0u64;

    // ---- floats
    let fixed = fixed_floats();
    if tiny {
        for _ in 0..ctx.n(0, 0, 25) {
            let f = *r.pick(&fixed);
            check_float(&mut rep, &mut st, f);
        }
    } else {
        for &f in &fixed {
            digest = mix(digest, check_float(&mut rep, &mut st, f));
            if f.fract() != 0.0 || f.abs() >= 9007199254740992.0 {
                rep.nontrivial(f.to_bits());
            }
        }
        rep.exhaustive.push("every power of ten 1e-330..1e310 and power of two 2^-1074..2^1023 with its ±1, ±2 ulp neighbours, both signs".into());
    }
    for _ in 0..ctx.n(1_000_000, 8_000_000, 25) {
        let f = gen_float(&mut r);
        check_float(&mut rep, &mut st, f);
        if f.fract() != 0.0 || f.abs() >= 9007199254740992.0 {
            rep.nontrivial(f.to_bits());
        }
    }

    // ---- integers
    let mut ints: Vec<i64> = vec![0, 1, -1, i64::MAX, i64::MIN, i64::MAX - 1, i64::MIN + 1, 9, 10, 99, 100, -9, -10];
    for k in 0..63 {
        for d in [-1i64, 0, 1] {
            ints.push((1i64 << k).wrapping_add(d));
            ints.push((-(1i64 << k)).wrapping_add(d));
        }
    }
    let mut p = 1i64;
    for _ in 0..18 {
        p *= 10;
        for d in [-1i64, 0, 1] {
            ints.push(p + d);
            ints.push(-p + d);
        }
    }
    if tiny {
        ints.truncate(30);
    }
    for &i in &ints {
        check_int(&mut rep, &mut st, i);
    }
    for _ in 0..ctx.n(100_000, 1_000_000, 10) {
        let i = match r.below(3) {
            0 => r.u64() as i64,
            1 => (r.u64() as i64) >> r.below(64),
            _ => r.range_i64(-1000, 1000),
        };
        check_int(&mut rep, &mut st, i);
        if i.unsigned_abs() > (1 << 53) {
            rep.nontrivial(mix(i as u64, 7));
        }
    }

    // ---- literals
    let reg_lit = |rep: &mut Report, s: &str| {
        if s.contains(['.', 'e', 'E']) {
            rep.nontrivial(fnv(s.as_bytes()));
        }
    };
    for s in INTERESTING_NUMS {
        digest = mix(digest, check_literal(&mut rep, &mut st, s));
        reg_lit(&mut rep, s);
    }
    if !tiny {
        // every integer boundary as a literal, and the notation windows: d digits x exponent
        for &i in &ints {
            check_literal(&mut rep, &mut st, &i.to_string());
        }
        for i in [i64::MAX as i128 + 1, i64::MIN as i128 - 1, u64::MAX as i128, u64::MAX as i128 + 1, 1i128 << 100] {
            check_literal(&mut rep, &mut st, &i.to_string());
        }
        for mant in ["1", "5", "9", "10", "50", "12", "1.0", "1.5", "1.50", "0.5", "0.05", "0.00012", "123456", "99999999999999", "999999999999999999", "100000000000000000000", "0.0", "0", "-0", "-7.25"] {
            for e in -30..=30i32 {
                for spell in 0..3 {
                    let s = match spell {
                        0 => format!("{mant}e{e}"),
                        1 => format!("{mant}E{}{e}", if e >= 0 { "+" } else { "" }),
                        _ => format!("{mant}e{}{:03}", if e < 0 { "-" } else { "" }, e.abs()),
                    };
                    digest = mix(digest, check_literal(&mut rep, &mut st, &s));
                    reg_lit(&mut rep, &s);
                }
            }
        }
        rep.exhaustive.push("20 mantissa shapes x exponents -30..=30 x 3 exponent spellings".into());
    }
    for _ in 0..ctx.n(400_000, 4_000_000, 40) {
        let s = gen_literal(&mut r, !tiny);
        check_literal(&mut rep, &mut st, &s);
        reg_lit(&mut rep, &s);
    }
    if !tiny {
        for s in long_literals(&mut r, ctx.thorough()) {
            check_literal(&mut rep, &mut st, &s);
            reg_lit(&mut rep, &s);
            st.hit("lit.long_cases");
        }
    }

    st.flush(&mut rep);
    if !tiny {
        rep.digest("c10.fixed_outputs", digest);
    }
    for f in [0.1 + 0.2, 1e21, -0.0, 5e-324, 1234567.0] {
        let mut o = serde_json::Map::new();
        o.insert("double".into(), json!(format!("{f:e}")));
        for p in PRINTERS {
            o.insert(p.name.into(), json!((p.f)(f)));
        }
        rep.sample(serde_json::Value::Object(o));
    }
    let lit_samples: Vec<serde_json::Value> = ["1e100", "12e2", "5.5e0", "1e-3", "-0", "0.10", "9007199254740993"]
        .iter()
        .map(|l| json!([l, format_number_jq_compat(l.as_bytes())]))
        .collect();
    rep.sample(json!({ "literals": lit_samples }));

    if !tiny {
        rep.require("float.subnormal", 5000);
        rep.require("float.needs_17_digits", 50_000);
        rep.require("float.needs_16_digits", 1000);
        rep.require("float.dec_exp_ge_6", 10_000);
        rep.require("float.dec_exp_lt_minus_4", 10_000);
        rep.require("float.dec_exp_plain_window", 10_000);
        rep.require("float.at_yq_notation_threshold", 1000);
        rep.require("float.integral_ge_2p53", 1000);
        rep.require("float.extreme_magnitude", 1000);
        rep.require("float.neg_zero", 1);
        rep.require("float.nested_tagged", 1000);
        rep.require("int.beyond_2p53", 10_000);
        rep.require("lit.with_exponent", 10_000);
        rep.require("lit.with_fraction", 10_000);
        rep.require("lit.integer_in_i64", 1000);
        rep.require("lit.integer_beyond_i64", 100);
        rep.require("lit.out_scientific", 5000);
        rep.require("lit.out_plain", 5000);
        rep.require("lit.negative_zero", 100);
        rep.require("lit.underflows_to_zero", 100);
        rep.require("lit.mantissa_gt_17_digits", 1000);
        rep.require("lit.long_cases", 20);
        rep.require("lit.materialised_as_NumberLiteral", 10_000);
    }
    rep
}
