//! Seeded YAML *text* corpus for cross-configuration digests (C16): no ground truth, only
//! determinism. Every item is a pure function of `(seed, index)` so a single input can be
//! regenerated (`--dump i`) without generating the ones before it.
//!
//! Sources (each `fn(seed, j, tiny) -> Vec<u8>`):
//! * [`text_doc`]   — block/flow documents with long plain / quoted / block scalars, anchors,
//!   aliases, tags, comments, multi-document streams, LF / CRLF / CR / mixed breaks;
//! * [`edge_doc`]   — small templates swept systematically over the distance between the start
//!   of a scan and its terminator (0..=71 bytes, i.e. every offset mod 16 and mod 32, twice) with
//!   a short random tail so the terminator also falls into every kernel's remainder loop;
//! * [`mutant_doc`] — byte-level mutations of a `text_doc`;
//! * [`soup_doc`]   — arbitrary bytes / token lines over the YAML indicator alphabet.

use crate::rng::Rng;

pub type SourceFn = fn(u64, usize, bool) -> Vec<u8>;

fn rng_for(seed: u64, tag: u64, j: usize) -> Rng {
    Rng::new(seed).fork(tag).fork(j as u64)
}

// ---------------------------------------------------------------------------------------------
// text documents
// ---------------------------------------------------------------------------------------------

struct G {
    r: Rng,
    out: Vec<u8>,
    anchors: Vec<String>,
    budget: isize,
    next_anchor: usize,
}

const WORDS: &[&str] = &[
    "alpha", "beta", "gamma", "delta", "x", "y", "id", "name", "value", "items", "config", "srv", "port", "host", "path", "enabled",
    "timeout", "retries", "labels", "meta", "spec", "data", "k8s", "env",
];

impl G {
    fn push(&mut self, s: &str) {
        self.out.extend_from_slice(s.as_bytes());
        self.budget -= s.len() as isize;
    }
    fn spaces(&mut self, n: usize) {
        for _ in 0..n {
            self.out.push(b' ');
        }
    }
    /// A length with mass on 0..12 and on the 16/32/64-byte boundaries.
    fn len_class(&mut self) -> usize {
        match self.r.below(12) {
            0..=4 => self.r.range(1, 12),
            5 => self.r.range(13, 19),
            6..=7 => self.r.range(28, 36),
            8 => self.r.range(44, 52),
            9 => self.r.range(60, 70),
            10 => self.r.range(90, 140),
            _ => self.r.range(1, 300),
        }
    }
    /// `n` bytes of harmless scalar text: starts and ends with a letter, may contain inner spaces
    /// and inner punctuation that is *not* a terminator in context (`a:b`, `a#b`, `-`, `.`, `/`).
    fn filler(&mut self, n: usize, rich: bool) -> String {
        let mut s = String::with_capacity(n);
        for i in 0..n {
            let edge = i == 0 || i + 1 == n;
            let prev_space = s.ends_with(' ');
            let c = if edge {
                *self.r.pick(b"abcdefghijklmnopqrstuvwxyzABCXYZ") as char
            } else if rich && !prev_space && self.r.chance(1, 9) {
                *self.r.pick(b":#-./_,0123456789") as char
            } else if !prev_space && self.r.chance(1, 7) {
                ' '
            } else {
                *self.r.pick(b"abcdefghijklmnopqrstuvwxyz0123456789") as char
            };
            s.push(c);
        }
        // a ':' or '#' directly before a space would become a terminator: neutralise
        let b: Vec<u8> = s.into_bytes();
        let mut o = Vec::with_capacity(b.len());
        for i in 0..b.len() {
            let c = b[i];
            let next_space = i + 1 < b.len() && b[i + 1] == b' ';
            let prev_space = i > 0 && b[i - 1] == b' ';
            if (c == b':' && next_space) || (c == b'#' && prev_space) || (c == b',' || c == b'-') && (prev_space || next_space) {
                o.push(b'q');
            } else {
                o.push(c);
            }
        }
        String::from_utf8(o).unwrap_or_default()
    }
    fn plain(&mut self, flow: bool) -> String {
        match self.r.below(14) {
            0 => self.r.range_i64(-5000, 5000).to_string(),
            1 => (*self.r.pick(&["true", "false", "null", "~", "1.5", "1e3", "0x1F", "0o17", ".inf", "-.inf", ".nan", "yes", "No", "1_000", "+12", "2001-12-14"])).to_string(),
            2..=4 => (*self.r.pick(WORDS)).to_string(),
            5 => format!("http://example.com/{}?q=1", self.filler(6, false).replace(' ', "")),
            _ => {
                let n = self.len_class();
                let s = self.filler(n, !flow);
                if flow {
                    s.replace([',', '[', ']', '{', '}'], "_")
                } else {
                    s
                }
            }
        }
    }
    fn dq(&mut self) -> String {
        let n = self.len_class();
        let mut s = String::from("\"");
        let mut i = 0;
        while i < n {
            match self.r.below(40) {
                0 => s.push_str("\\\""),
                1 => s.push_str("\\\\"),
                2 => s.push_str("\\n"),
                3 => s.push_str("\\t"),
                4 => s.push_str("\\u00e9"),
                5 => s.push_str("\\x41"),
                6 => s.push_str(": "),
                7 => s.push_str(" #"),
                8 => s.push('\''),
                9 => s.push('é'),
                10 => s.push_str("\\/"),
                11 => s.push_str("- "),
                12 => s.push_str("{[,]}"),
                13 => s.push_str("\\U0001F600"),
                14..=18 => s.push(' '),
                _ => s.push(*self.r.pick(b"abcdefghijklmnopqrstuvwxyz0123456789") as char),
            }
            i += 1;
        }
        s.push('"');
        s
    }
    fn sq(&mut self) -> String {
        let n = self.len_class();
        let mut s = String::from("'");
        for _ in 0..n {
            match self.r.below(30) {
                0..=1 => s.push_str("''"),
                2 => s.push('"'),
                3 => s.push('\\'),
                4 => s.push_str(": "),
                5 => s.push_str(" #"),
                6 => s.push('é'),
                7..=10 => s.push(' '),
                _ => s.push(*self.r.pick(b"abcdefghijklmnopqrstuvwxyz0123456789") as char),
            }
        }
        s.push('\'');
        s
    }
    fn new_anchor(&mut self) -> String {
        self.next_anchor += 1;
        let k = self.next_anchor;
        let name = match self.r.below(9) {
            0..=2 => format!("a{k}"),
            3 => format!("anchor_{k}_padded_to_16"),
            4 => format!("anchor_{k}_with_a_name_longer_than_thirty_two_bytes"),
            5 => format!("ns:name{k}"),
            6 => format!("a-b.c{k}"),
            7 => {
                let n = self.r.range(13, 40);
                format!("{}{k}", self.filler(n, false).replace(' ', "_"))
            }
            _ => {
                let n = self.r.range(14, 36);
                let mut f = self.filler(n, false).replace(' ', "_");
                let at = self.r.range(1, f.len() - 1);
                f.replace_range(at..at + 1, ":");
                format!("{f}{k}")
            }
        };
        self.anchors.push(name.clone());
        name
    }
    fn tag(&mut self) -> &'static str {
        *self.r.pick(&["!!str", "!!int", "!!map", "!!seq", "!custom", "!<tag:example.com,2000:foo>", "!e!x", "!", "!!float", "!!null", "!!bool"])
    }
    /// `&a !t ` properties written in front of a node; returns whether a tag was written.
    fn props(&mut self, allow_anchor: bool) -> String {
        let mut s = String::new();
        let anchor_first = self.r.bool();
        let a = if allow_anchor && self.r.chance(1, 5) { Some(self.new_anchor()) } else { None };
        let t = if self.r.chance(1, 9) { Some(self.tag()) } else { None };
        if anchor_first {
            if let Some(a) = &a {
                s.push_str(&format!("&{a} "));
            }
        }
        if let Some(t) = t {
            s.push_str(t);
            s.push(' ');
        }
        if !anchor_first {
            if let Some(a) = &a {
                s.push_str(&format!("&{a} "));
            }
        }
        s
    }
    fn trailing_comment(&mut self) {
        if self.r.chance(1, 6) {
            let n = self.len_class();
            let pad = self.r.range(1, 3);
            self.spaces(pad);
            let c = self.filler(n, true);
            self.push("#");
            if self.r.chance(3, 4) {
                self.push(" ");
            }
            self.push(&c);
        }
    }
    fn comment_line(&mut self, indent: usize) {
        if self.r.chance(1, 9) {
            let n = self.len_class();
            let ind = if self.r.bool() { indent } else { self.r.below(indent + 6) };
            self.spaces(ind);
            let c = self.filler(n, true);
            self.push("# ");
            self.push(&c);
            self.push("\n");
        } else if self.r.chance(1, 14) {
            let n = self.r.below(5);
            self.spaces(n);
            self.push("\n");
        }
    }
    fn key(&mut self) -> String {
        match self.r.below(12) {
            0 => self.dq(),
            1 => self.sq(),
            2 => {
                let n = self.len_class().min(90);
                self.filler(n, true)
            }
            3 => self.r.below(100).to_string(),
            4 => format!("{} {}", self.r.pick(WORDS), self.r.pick(WORDS)),
            _ => format!("{}{}", self.r.pick(WORDS), if self.r.chance(1, 3) { self.r.below(50).to_string() } else { String::new() }),
        }
    }
    fn flow(&mut self, depth: usize, indent: usize) -> String {
        let multi = self.r.chance(1, 5);
        let sep = |g: &mut G| -> String {
            if multi && g.r.chance(1, 2) {
                let extra = g.r.below(40);
                format!(",\n{}", " ".repeat(indent + 2 + extra))
            } else if g.r.chance(1, 6) {
                ",".to_string()
            } else {
                ", ".to_string()
            }
        };
        let n = self.r.below(5);
        let mut s = String::new();
        if self.r.bool() {
            s.push('[');
            for i in 0..n {
                if i > 0 {
                    let x = sep(self);
                    s.push_str(&x);
                }
                let v = self.flow_value(depth);
                s.push_str(&v);
            }
            s.push(']');
        } else {
            s.push('{');
            for i in 0..n {
                if i > 0 {
                    let x = sep(self);
                    s.push_str(&x);
                }
                let k = match self.r.below(6) {
                    0 => self.dq(),
                    1 => self.sq(),
                    _ => format!("{}{}", self.r.pick(WORDS), i),
                };
                s.push_str(&k);
                if self.r.chance(1, 10) {
                    continue; // key without value
                }
                s.push_str(": ");
                let v = self.flow_value(depth);
                s.push_str(&v);
            }
            s.push('}');
        }
        s
    }
    fn flow_value(&mut self, depth: usize) -> String {
        let choice = self.r.below(12);
        if choice == 3 && !self.anchors.is_empty() {
            let a = self.r.pick(&self.anchors).clone();
            return format!("*{a}");
        }
        // the anchor of a node becomes usable only after the node ends
        let mark = self.anchors.len();
        let p = if self.r.chance(1, 8) { self.props(true) } else { String::new() };
        let held: Vec<String> = self.anchors.drain(mark..).collect();
        let v = match choice {
            0 if depth > 0 => self.flow(depth - 1, 0),
            1 => self.dq(),
            2 => self.sq(),
            _ => self.plain(true),
        };
        self.anchors.extend(held);
        format!("{p}{v}")
    }
    fn block_scalar(&mut self, indent: usize) {
        // header
        let style = *self.r.pick(&["|", ">"]);
        self.push(style);
        let body_indent = indent + self.r.range(1, 4);
        match self.r.below(8) {
            0 => self.push("-"),
            1 => self.push("+"),
            2 if body_indent - indent <= 9 => {
                self.push(&(body_indent - indent).to_string());
            }
            3 if body_indent - indent <= 9 => {
                self.push(&format!("{}-", body_indent - indent));
            }
            _ => {}
        }
        if self.r.chance(1, 8) {
            self.push(" # block comment");
        }
        self.push("\n");
        let lines = self.r.range(1, 7);
        for li in 0..lines {
            match self.r.below(9) {
                0 if li > 0 => {
                    // blank line (possibly whitespace only)
                    let n = self.r.below(body_indent + 3);
                    self.spaces(n);
                    self.push("\n");
                    continue;
                }
                1 if li > 0 => {
                    self.push("\n");
                    continue;
                }
                _ => {}
            }
            let extra = if li > 0 && self.r.chance(1, 4) { self.r.below(36) } else { 0 };
            self.spaces(body_indent + extra);
            let n = self.len_class();
            let mut t = self.filler(n, true);
            match self.r.below(10) {
                0 => t = format!("# {t}"),
                1 => t = format!("- {t}"),
                2 => t = format!("{t}: {t}"),
                3 => t.push_str(" # not a comment"),
                4 => t = format!("\"{t}"),
                _ => {}
            }
            self.push(&t);
            self.push("\n");
        }
        if self.r.chance(1, 6) {
            // trailing blank lines belong to the block (keep / strip)
            let n = self.r.range(1, 3);
            for _ in 0..n {
                let sp = self.r.below(3);
                self.spaces(sp);
                self.push("\n");
            }
        }
    }
    /// Writes the value part after `key:` or `- ` (the cursor is right after the indicator) and
    /// ends with a line break.
    fn value(&mut self, indent: usize, depth: usize, after_dash: bool) {
        let choice = if self.budget <= 0 || depth == 0 { self.r.below(8) } else { self.r.below(16) };
        match choice {
            // scalars on the same line
            0..=7 => {
                self.push(" ");
                if self.r.chance(1, 30) {
                    let n = self.r.range(8, 40);
                    self.spaces(n); // long separation run
                }
                match choice {
                    0 if !self.anchors.is_empty() => {
                        let a = self.r.pick(&self.anchors).clone();
                        self.push(&format!("*{a}"));
                    }
                    1 => {
                        let p = self.props(true);
                        self.push(&p);
                        let s = self.dq();
                        self.push(&s);
                    }
                    2 => {
                        let p = self.props(true);
                        self.push(&p);
                        let s = self.sq();
                        self.push(&s);
                    }
                    3 if depth > 0 || self.r.bool() => {
                        let p = self.props(true);
                        self.push(&p);
                        self.block_scalar(indent);
                        return;
                    }
                    4 => {
                        let mark = self.anchors.len();
                        let p = self.props(true);
                        let held: Vec<String> = self.anchors.drain(mark..).collect();
                        self.push(&p);
                        let f = self.flow(2, indent);
                        self.push(&f);
                        self.anchors.extend(held);
                    }
                    _ => {
                        let p = self.props(true);
                        self.push(&p);
                        let s = self.plain(false);
                        self.push(&s);
                        // multi-line plain scalar continuation
                        if self.r.chance(1, 14) {
                            self.push("\n");
                            let extra = self.r.range(1, 6);
                            self.spaces(indent + extra);
                            let n = self.len_class();
                            let c = self.filler(n, false);
                            self.push(&c);
                        }
                    }
                }
                self.trailing_comment();
                self.push("\n");
            }
            // empty value (null)
            8 => {
                if self.r.chance(1, 3) {
                    let p = self.props(true);
                    if !p.is_empty() {
                        self.push(" ");
                        self.push(p.trim_end());
                    }
                }
                self.trailing_comment();
                self.push("\n");
            }
            // nested block mapping
            9..=11 => {
                if after_dash && self.r.chance(2, 3) {
                    // compact form: "- k: v\n  k2: v2"
                    self.push(" ");
                    self.mapping_inline(indent + 2, depth - 1);
                } else {
                    // the anchor of a container becomes usable only after the container ends
                    let mark = self.anchors.len();
                    let p = self.props(true);
                    let held: Vec<String> = self.anchors.drain(mark..).collect();
                    if !p.is_empty() {
                        self.push(" ");
                        self.push(p.trim_end());
                    }
                    self.trailing_comment();
                    self.push("\n");
                    let step = if after_dash { 2 } else { *self.r.pick(&[1usize, 2, 2, 2, 4, 8]) };
                    self.mapping(indent + step, depth - 1);
                    self.anchors.extend(held);
                }
            }
            // nested block sequence
            12..=14 => {
                let mark = self.anchors.len();
                let p = self.props(true);
                let held: Vec<String> = self.anchors.drain(mark..).collect();
                if !p.is_empty() {
                    self.push(" ");
                    self.push(p.trim_end());
                }
                self.trailing_comment();
                self.push("\n");
                // a sequence under a mapping key may sit at the key's own indentation
                let step = if after_dash { 2 } else { *self.r.pick(&[0usize, 2, 2, 4]) };
                self.sequence(indent + step, depth - 1);
                self.anchors.extend(held);
            }
            // explicit long separation then scalar (count_leading_spaces >= 8 branch)
            _ => {
                let n = self.r.range(8, 70);
                self.spaces(n);
                let s = self.plain(false);
                self.push(&s);
                self.push("\n");
            }
        }
    }
    fn mapping_inline(&mut self, indent: usize, depth: usize) {
        // first entry continues the current line
        let n = self.r.range(1, 4);
        for i in 0..n {
            if i > 0 {
                self.comment_line(indent);
                self.spaces(indent);
            }
            let k = format!("{}{}", self.r.pick(WORDS), i);
            self.push(&k);
            self.push(":");
            self.value(indent, depth, false);
        }
    }
    fn mapping(&mut self, indent: usize, depth: usize) {
        let n = if self.budget <= 0 { 1 } else { self.r.range(1, 6) };
        for i in 0..n {
            self.comment_line(indent);
            self.spaces(indent);
            if self.r.chance(1, 25) {
                // explicit key
                self.push("? ");
                let k = self.plain(false);
                self.push(&k);
                self.push("\n");
                self.spaces(indent);
                self.push(":");
                self.value(indent, depth, false);
                continue;
            }
            let mut k = self.key();
            if !(k.starts_with('"') || k.starts_with('\'')) {
                k = format!("{k}{i}"); // keep keys distinct
            } else {
                k.insert(1, (b'a' + (i as u8 % 26)) as char);
            }
            self.push(&k);
            self.push(":");
            self.value(indent, depth, false);
        }
    }
    fn sequence(&mut self, indent: usize, depth: usize) {
        let n = if self.budget <= 0 { 1 } else { self.r.range(1, 6) };
        for _ in 0..n {
            self.comment_line(indent);
            self.spaces(indent);
            self.push("-");
            if self.r.chance(1, 12) && depth > 0 {
                // "- - x" nested compact sequence
                self.push(" -");
                self.value(indent + 2, 0, true);
                continue;
            }
            self.value(indent, depth, true);
        }
    }
    fn document(&mut self) {
        self.anchors.clear();
        let depth = self.r.range(1, 5);
        match self.r.below(10) {
            0 => {
                // scalar / flow document root
                let p = self.props(true);
                self.push(&p);
                match self.r.below(5) {
                    0 => {
                        let s = self.dq();
                        self.push(&s);
                        self.push("\n");
                    }
                    1 => {
                        let s = self.sq();
                        self.push(&s);
                        self.push("\n");
                    }
                    2 => self.block_scalar(0),
                    3 => {
                        let held: Vec<String> = self.anchors.drain(..).collect();
                        let f = self.flow(3, 0);
                        self.push(&f);
                        self.push("\n");
                        self.anchors.extend(held);
                    }
                    _ => {
                        let s = self.plain(false);
                        self.push(&s);
                        self.push("\n");
                    }
                }
            }
            1..=3 => self.sequence(0, depth),
            _ => self.mapping(0, depth),
        }
    }
}

fn apply_breaks(r: &mut Rng, text: &[u8], style: usize) -> Vec<u8> {
    let mut o = Vec::with_capacity(text.len() + text.len() / 16);
    for &b in text {
        if b == b'\n' {
            match style {
                0 => o.push(b'\n'),
                1 => o.extend_from_slice(b"\r\n"),
                2 => o.push(b'\r'),
                _ => o.extend_from_slice(*r.pick(&[&b"\n"[..], b"\n", b"\r\n", b"\r"])),
            }
        } else {
            o.push(b);
        }
    }
    o
}

/// Break style of a stream: 0 LF, 1 CRLF, 2 CR, 3 mixed.
fn pick_break_style(r: &mut Rng) -> usize {
    match r.below(20) {
        0..=9 => 0,
        10..=13 => 1,
        14..=16 => 2,
        _ => 3,
    }
}

pub fn text_doc(seed: u64, j: usize, tiny: bool) -> Vec<u8> {
    let mut r = rng_for(seed, 0x7e47, j);
    let budget = if tiny {
        120
    } else {
        match r.below(10) {
            0..=5 => 300,
            6..=8 => 1500,
            _ => 8000,
        }
    };
    let style = pick_break_style(&mut r);
    let mut g = G { r, out: Vec::new(), anchors: Vec::new(), budget, next_anchor: 0 };
    if g.r.chance(1, 12) {
        g.push("%YAML 1.2\n---\n");
    } else if g.r.chance(1, 5) {
        g.push("---\n");
    } else if g.r.chance(1, 10) {
        g.push("# leading comment\n");
    }
    let docs = if g.r.chance(1, 5) { g.r.range(2, 3) } else { 1 };
    for d in 0..docs {
        if d > 0 {
            if g.r.chance(1, 3) {
                g.push("...\n");
            }
            g.push("---");
            if g.r.chance(1, 6) {
                g.push(" # doc comment");
            }
            g.push("\n");
        }
        g.document();
    }
    if g.r.chance(1, 10) {
        g.push("...\n");
    }
    let mut out = std::mem::take(&mut g.out);
    if g.r.chance(1, 8) && out.last() == Some(&b'\n') {
        out.pop(); // no final break
    }
    apply_breaks(&mut g.r, &out, style)
}

// ---------------------------------------------------------------------------------------------
// edge templates
// ---------------------------------------------------------------------------------------------

pub const EDGE_TEMPLATES: usize = 16;
pub const EDGE_SPAN: usize = 72;

fn letters(r: &mut Rng, n: usize) -> String {
    (0..n).map(|_| *r.pick(b"abcdefghijklmnopqrstuvwxyz") as char).collect()
}

/// Template `j % EDGE_TEMPLATES`, scan distance `(j / EDGE_TEMPLATES) % EDGE_SPAN`.
pub fn edge_doc(seed: u64, j: usize, _tiny: bool) -> Vec<u8> {
    let mut r = rng_for(seed, 0xed6e, j);
    let t = j % EDGE_TEMPLATES;
    let l = (j / EDGE_TEMPLATES) % EDGE_SPAN;
    let style = pick_break_style(&mut r);
    let tail_n = *r.pick(&[0usize, 0, 1, 2, 5, 13, 14, 15, 16, 17, 29, 30, 31, 32, 33, 40, 64]);
    let tail = letters(&mut r, tail_n);
    let body = letters(&mut r, l);
    // what follows the scanned run
    let plain_term = *r.pick(&["\n", ": v\n", " # c\n", ":v\n", "#v\n", "", " \n", ":\n", "\t# c\n", ",x\n"]);
    let s = match t {
        // plain scalar as a mapping value
        0 => format!("k: {body}{plain_term}t: {tail}\n"),
        // plain scalar as a sequence item / key
        1 => format!("- {body}{plain_term}- {tail}\n"),
        // plain multi-word scalar (spaces inside must not terminate)
        2 => {
            let mut b = body.clone().into_bytes();
            for i in (2..b.len().saturating_sub(1)).step_by(5) {
                b[i] = b' ';
            }
            format!("k: {}{plain_term}t: {tail}\n", String::from_utf8(b).unwrap_or_default())
        }
        // double-quoted: terminator is the closing quote or an escape
        3 => {
            let esc = *r.pick(&["", "\\\"", "\\\\", "\\n", "\\u0041"]);
            format!("k: \"{body}{esc}{tail}\"\nz: 1\n")
        }
        // single-quoted with '' escape
        4 => {
            let esc = *r.pick(&["", "''", "\""]);
            format!("k: '{body}{esc}{tail}'\nz: 1\n")
        }
        // anchor name of length l (+1) with each terminator class
        5 => {
            let term = *r.pick(&[" v\n", "\nv: 1\n", " \n", "\n", ": v\n", ":x v\n"]);
            format!("k: &a{body}{term}r: *a{body}\nt: {tail}\n")
        }
        // anchor / alias in flow context
        6 => {
            let term = *r.pick(&[" x,", ",", " ,", "]"]);
            let close = if term == "]" { "" } else { " y]" };
            format!("s: [&b{body}{term}{close}\nt: {tail}\n")
        }
        // block scalar: content line of length l, then dedent
        7 => {
            let hdr = *r.pick(&["|", ">", "|-", "|+", ">-", "|2"]);
            format!("k: {hdr}\n  {body}x\n  {tail}\nz: 1\n")
        }
        // block scalar: deeper-indented / blank lines with l leading spaces
        8 => {
            let sp = " ".repeat(l);
            let what = *r.pick(&["x", "", "x", "# c"]);
            format!("k: |\n  first\n{sp}{what}\n  {tail}\nz: 1\n")
        }
        // block scalar ended by a dedented line with l' < indent spaces, nested
        9 => {
            let ind = 2 + l % 7;
            let sp = " ".repeat(ind);
            let ded = " ".repeat(l % (ind + 1));
            format!("o:\n  k: |\n  {sp}{body}\n  {sp}{tail}\n{ded}z: 1\n")
        }
        // long indentation / separation runs
        10 => {
            let sp = " ".repeat(l);
            format!("k:\n{sp}  a: 1\n{sp}  b:{sp} 2\n{sp}  c: {tail}\n")
        }
        // comment of length l after a value and on its own line
        11 => format!("k: v # {body}\n# {body}{tail}\nz: 1 #{body}\n"),
        // key of length l
        12 => format!("{body}k: 1\n? {body}\n: 2\n{tail}z: 3\n"),
        // tag of length l
        13 => format!("k: !t{body} v\nl: !!str {tail}x\n"),
        // flow sequence with a plain scalar of length l, multi-line
        14 => format!("k: [{body}x, {tail}y,\n  {body}z]\nz: 1\n"),
        // alias name then terminators; document markers after long scalar
        _ => {
            let term = *r.pick(&["\n", " # c\n", "\n---\nq: 1\n", "\n...\n"]);
            format!("a: &x{body} 1\nb: *x{body}{term}")
        }
    };
    let bytes = s.into_bytes();
    apply_breaks(&mut r, &bytes, style)
}

// ---------------------------------------------------------------------------------------------
// mutants and soups
// ---------------------------------------------------------------------------------------------

pub const ALPHABET: &[u8] = b":-?#&*!|>'\"%@`[]{},\n\r \t\\ab01~.";

pub fn mutate(r: &mut Rng, base: &[u8]) -> Vec<u8> {
    let mut t = base.to_vec();
    let n = r.range(1, 4);
    for _ in 0..n {
        if t.is_empty() {
            t.push(*r.pick(ALPHABET));
            continue;
        }
        let p = r.below(t.len());
        match r.below(12) {
            0 => {
                t.remove(p);
            }
            1 => t.insert(p, *r.pick(ALPHABET)),
            2 => t[p] = *r.pick(ALPHABET),
            3 => {
                // duplicate a slice
                let e = (p + r.range(1, 40)).min(t.len());
                let s = t[p..e].to_vec();
                let at = r.below(t.len() + 1);
                for (k, b) in s.into_iter().enumerate() {
                    t.insert(at + k, b);
                }
            }
            4 => t.truncate(p),
            5 => {
                // change one line break
                if let Some(q) = t[p..].iter().position(|&b| b == b'\n') {
                    t[p + q] = b'\r';
                }
            }
            6 => {
                // indent change
                let k = r.range(1, 34);
                for _ in 0..k {
                    t.insert(p, b' ');
                }
            }
            7 => t.insert(p, b'\t'),
            8 => {
                // delete a slice
                let e = (p + r.range(1, 20)).min(t.len());
                t.drain(p..e);
            }
            9 => {
                // unbalance a quote / bracket
                if let Some(q) = t[p..].iter().position(|&b| b"\"'[]{}".contains(&b)) {
                    t.remove(p + q);
                }
            }
            10 => {
                let s: &[u8] = *r.pick(&[&b": "[..], b" #", b"- ", b"\n---\n", b"&x ", b"*x", b"!!str ", b"|\n", b"? "]);
                for (k, &b) in s.iter().enumerate() {
                    t.insert(p + k, b);
                }
            }
            _ => t[p] = r.byte(),
        }
    }
    t
}

pub fn mutant_doc(seed: u64, j: usize, tiny: bool) -> Vec<u8> {
    let mut r = rng_for(seed, 0x3417, j);
    let base = if r.chance(1, 3) {
        edge_doc(seed ^ 0x55, r.below(EDGE_TEMPLATES * EDGE_SPAN), tiny)
    } else {
        text_doc(seed ^ 0x55, j, tiny)
    };
    mutate(&mut r, &base)
}

pub fn soup_doc(seed: u64, j: usize, tiny: bool) -> Vec<u8> {
    let mut r = rng_for(seed, 0x5009, j);
    let max = if tiny { 80 } else { 400 };
    let n = match r.below(6) {
        0 => r.below(4),
        1..=3 => r.below(70),
        _ => r.below(max),
    };
    match r.below(4) {
        // raw indicator soup
        0 => (0..n).map(|_| *r.pick(ALPHABET)).collect(),
        // mostly letters with sparse indicators (long runs between terminators)
        1 => (0..n).map(|_| if r.chance(1, 12) { *r.pick(ALPHABET) } else { *r.pick(b"abcdefgh ") }).collect(),
        // arbitrary bytes
        2 => (0..n).map(|_| if r.chance(1, 4) { r.byte() } else { *r.pick(ALPHABET) }).collect(),
        // token lines
        _ => {
            let toks: &[&str] = &[
                "a", "b: ", "- ", "? ", ": ", "&x ", "*x", "!!str ", "!t ", "|", ">", "|-", "# c", " #c", "\"q\"", "'s'", "[", "]", "{", "}", ", ", "\"", "'", "---", "...",
                "%YAML 1.2", "  ", "    ", "\t", "long_plain_scalar_over_thirty_two_bytes_long", "k:v", "x#y", "~", "null", "1",
            ];
            let mut o = Vec::new();
            while o.len() < n {
                for _ in 0..r.range(1, 6) {
                    o.extend_from_slice(r.pick(toks).as_bytes());
                }
                o.extend_from_slice(*r.pick(&[&b"\n"[..], b"\n", b"\n", b"\r\n", b"\r"]));
            }
            o
        }
    }
}
