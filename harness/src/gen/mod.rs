//! Seeded generators (ground truth known by construction).
pub mod json;
pub mod emit;
pub mod yaml_corpus;
pub mod utf8;
pub mod dsv;
pub mod yamlpos;
pub mod yaml;
pub mod soup;
pub mod bits;
pub mod jq;
pub mod jqrun;
pub mod mono;
pub mod parens;
