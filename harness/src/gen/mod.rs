//! Seeded generators (ground truth known by construction).
pub mod json;
pub mod emit;
