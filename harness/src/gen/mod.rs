//! Seeded generators (ground truth known by construction).
pub mod json;
