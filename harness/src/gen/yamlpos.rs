//! Generator for C17: node start / end position sequences, BP shapes and lookup histories.
//! The sequences themselves are the ground truth (the model is the two `Vec<u32>`).

use crate::rng::Rng;

pub const N_EDGES: [usize; 17] = [0, 1, 2, 3, 63, 64, 65, 127, 128, 129, 255, 256, 257, 511, 512, 513, 1000];
pub const LEN_EDGES: [usize; 14] = [0, 1, 2, 63, 64, 65, 127, 128, 129, 191, 192, 1000, 4096, 4097];

pub const START_KINDS: [&str; 6] = ["mono_dups", "all_equal", "step_one", "spread", "one_inversion", "random"];
pub const END_KINDS: [&str; 6] = ["parser_like", "mono_free", "all_zero", "leading_zeros", "one_inversion", "random"];

/// `max_pos` is the largest position value the generator may emit (<= text_len).
pub fn gen_starts(r: &mut Rng, n: usize, max_pos: usize, kind: usize) -> Vec<u32> {
    let mut v: Vec<u32> = Vec::with_capacity(n);
    let cap = max_pos as u64;
    match kind {
        // monotone with duplicates, steps of every magnitude, clamped at max_pos (so the tail
        // of a long sequence sits *at* the maximum)
        0 | 4 => {
            let pdup = *r.pick(&[0u32, 1, 3, 5, 7]);
            let mag = r.below(5);
            let mut pos: u64 = if r.bool() { 0 } else { r.below(max_pos.min(70) + 1) as u64 };
            for _ in 0..n {
                v.push(pos.min(cap) as u32);
                if !r.chance(pdup, 8) {
                    let step = match (mag + r.below(2)) % 5 {
                        0 => 1,
                        1 => 1 + r.below(8),
                        2 => 1 + r.below(64),
                        3 => 64 + r.below(640),
                        _ => {
                            if r.chance(1, 20) {
                                1 + r.below(5000)
                            } else {
                                1 + r.below(4)
                            }
                        }
                    } as u64;
                    pos = (pos + step).min(cap);
                }
            }
            if kind == 4 && n >= 2 {
                // exactly one descent: lower one element below its predecessor
                let cands: Vec<usize> = (1..n).filter(|&j| v[j - 1] > 0).collect();
                if let Some(&j) = cands.get(r.below(cands.len().max(1))) {
                    let lo = if j + 1 < n && r.bool() { v[j - 1] - 1 } else { r.below(v[j - 1] as usize) as u32 };
                    v[j] = lo;
                    // keep the remainder non-decreasing relative to v[j]: it already is (>= old v[j] >= v[j-1] > lo)
                }
            }
        }
        1 => {
            let rnd = r.below(max_pos + 1);
            let val = *r.pick(&[0usize, max_pos, max_pos / 2, rnd]) as u32;
            v.resize(n, val);
        }
        2 => {
            let base = r.below(max_pos.saturating_sub(n) + 1) as u64;
            for i in 0..n {
                v.push((base + i as u64).min(cap) as u32);
            }
        }
        3 => {
            for i in 0..n {
                v.push(((i as u64 * (cap + 1)) / n.max(1) as u64).min(cap) as u32);
            }
        }
        _ => {
            for _ in 0..n {
                v.push(r.below(max_pos + 1) as u32);
            }
        }
    }
    v
}

/// End positions, one per node; 0 = "no end recorded". Non-zero values lie in `1..=text_len`.
pub fn gen_ends(r: &mut Rng, starts: &[u32], text_len: usize, kind: usize) -> Vec<u32> {
    let n = starts.len();
    if text_len == 0 {
        return vec![0; n];
    }
    let tl = text_len as u32;
    let pz = *r.pick(&[0u32, 1, 3, 6]);
    let mut v = vec![0u32; n];
    match kind {
        // what a parser would record: a node's end lies between its own start and every later
        // node's start (so an inherited end is never after the inheriting node's start)
        0 => {
            let mut limit = vec![tl; n];
            let mut m = tl;
            for i in (0..n).rev() {
                limit[i] = m;
                m = m.min(starts[i]);
            }
            for i in 0..n {
                if r.chance(pz, 8) || starts[i] > limit[i] || limit[i] == 0 {
                    continue;
                }
                let lo = starts[i].max(1);
                let e = match r.below(4) {
                    0 => lo,
                    1 => limit[i],
                    _ => lo + r.below((limit[i] - lo) as usize + 1) as u32,
                };
                v[i] = e;
            }
        }
        // monotone non-zero values independent of the starts, zeros interleaved
        1 | 3 | 4 => {
            let lead = if kind == 3 { r.below(n + 1) } else { 0 };
            let mag = r.below(4);
            let mut pos: u32 = 1 + r.below(text_len.min(70)) as u32;
            for slot in v.iter_mut().skip(lead) {
                if r.chance(pz, 8) {
                    continue;
                }
                *slot = pos;
                if !r.chance(2, 8) {
                    let step = match mag {
                        0 => 1,
                        1 => 1 + r.below(8),
                        2 => 1 + r.below(70),
                        _ => 1 + r.below(700),
                    } as u32;
                    pos = pos.saturating_add(step).min(tl);
                }
            }
            if kind == 4 {
                // one descent among the non-zero values
                let nz: Vec<usize> = (0..n).filter(|&i| v[i] != 0).collect();
                let cands: Vec<usize> = (1..nz.len()).filter(|&k| v[nz[k - 1]] > 1).collect();
                if let Some(&k) = cands.get(r.below(cands.len().max(1))) {
                    v[nz[k]] = 1 + r.below(v[nz[k - 1]] as usize - 1) as u32;
                }
            }
        }
        2 => {}
        _ => {
            for slot in v.iter_mut() {
                if !r.chance(pz, 8) {
                    *slot = 1 + r.below(text_len) as u32;
                }
            }
        }
    }
    v
}

/// A balanced-parentheses bit string with `n` opens. shape 0 = `()()()…`, 1 = `((( … )))`,
/// 2 = random balanced. Returns (bits, bp position of the i-th open).
pub fn gen_bp(r: &mut Rng, n: usize, shape: usize) -> (Vec<bool>, Vec<usize>) {
    let mut bits = Vec::with_capacity(2 * n);
    match shape {
        0 => {
            for _ in 0..n {
                bits.push(true);
                bits.push(false);
            }
        }
        1 => {
            bits.resize(n, true);
            bits.resize(2 * n, false);
        }
        _ => {
            let mut left = n;
            let mut depth = 0usize;
            while left > 0 || depth > 0 {
                if left > 0 && (depth == 0 || r.bool()) {
                    bits.push(true);
                    left -= 1;
                    depth += 1;
                } else {
                    bits.push(false);
                    depth -= 1;
                }
            }
        }
    }
    let opens = bits.iter().enumerate().filter(|(_, &b)| b).map(|(i, _)| i).collect();
    (bits, opens)
}

/// Lookup history: indices into 0..n (plus out-of-range ones), built from segments.
pub fn gen_history(r: &mut Rng, n: usize, ops: usize) -> Vec<usize> {
    let mut h = Vec::with_capacity(ops);
    let mut cur = r.below(n + 1);
    while h.len() < ops {
        let seg = 1 + r.below(24);
        match r.below(12) {
            // sequential run
            0..=2 => {
                for _ in 0..seg * 2 {
                    h.push(cur);
                    cur = cur.saturating_add(1);
                }
            }
            // stride
            3 => {
                let s = *r.pick(&[2usize, 3, 7, 63, 64, 65, 255, 256, 257, 300]);
                for _ in 0..seg {
                    h.push(cur);
                    cur = cur.saturating_add(s);
                }
            }
            // backward run
            4..=5 => {
                let s = *r.pick(&[1usize, 1, 1, 2, 5, 64, 256]);
                for _ in 0..seg {
                    h.push(cur);
                    cur = cur.saturating_sub(s);
                }
            }
            // repeats
            6 => {
                for _ in 0..1 + r.below(4) {
                    h.push(cur);
                }
            }
            // jump
            7..=8 => {
                cur = r.below(n + 1);
                h.push(cur);
            }
            // zig-zag around a point (forward one, back two)
            9 => {
                for _ in 0..seg {
                    h.push(cur);
                    cur = cur.saturating_add(1);
                    h.push(cur);
                    cur = cur.saturating_sub(2);
                }
            }
            // out of range
            10 => {
                h.push(*r.pick(&[n, n + 1, n + 63, n + 64, n + 1000, usize::MAX, usize::MAX - 1, 1usize << 32, (1usize << 32) + 1]));
            }
            // wrap to the start / end
            _ => {
                cur = if r.bool() { 0 } else { n.saturating_sub(1 + r.below(3)) };
                h.push(cur);
            }
        }
        if cur > n + 2 {
            cur = r.below(n + 1);
        }
    }
    h.truncate(ops);
    h
}
