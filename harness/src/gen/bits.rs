//! G-BITS: word vectors + length for the bit-vector monitors (C01, C31 and the word classes
//! of C02). A case is always produced *clean* (exactly `ceil(len/64)` words, nothing set at
//! or after `len`); the hostile variants — stray bits above `len` inside the last used word,
//! and whole surplus words after it — are derived from a clean case so that the expected
//! answers (those of the first `len` bits) are unchanged by construction.
//! Nothing here calls into succinctly.

use crate::rng::Rng;

/// Lengths the design asks to emphasise (word and 512-bit rank-block edges).
pub const EDGE_LENS: &[usize] = &[
    0, 1, 2, 63, 64, 65, 127, 128, 129, 511, 512, 513, 575, 576, 577, 1023, 1024, 1025, 4095, 4096,
    4097, 8191, 8192,
];

/// Run lengths (in words) around which zero / one runs are drawn: one 8-word scan block,
/// one select-prologue + block, a 512-word stretch, 2048 words (32 rank super-steps).
pub const RUN_WORDS: &[usize] = &[8, 64, 512, 2048];

#[derive(Clone, Debug)]
pub struct BitsCase {
    pub words: Vec<u64>,
    pub len: usize,
    /// content class, for counters
    pub class: &'static str,
}

#[derive(Clone, Copy, Debug, PartialEq, Eq)]
pub enum Stray {
    /// exactly `ceil(len/64)` words, nothing at or after `len`
    Clean,
    /// garbage in bits `len%64..64` of the last used word (needs `len % 64 != 0`)
    LastWord,
    /// whole extra words after the last used word; the last used word itself is clean
    SurplusWords,
    /// both of the above
    Both,
}

impl Stray {
    pub fn tag(self) -> &'static str {
        match self {
            Stray::Clean => "clean",
            Stray::LastWord => "stray_last_word",
            Stray::SurplusWords => "surplus_words",
            Stray::Both => "stray_last_word+surplus_words",
        }
    }
    pub const ALL: [Stray; 4] = [Stray::Clean, Stray::LastWord, Stray::SurplusWords, Stray::Both];
}

/// A word whose bits are set independently with probability 2^-k (k = 0 gives all ones).
pub fn density_word(r: &mut Rng, k: u32) -> u64 {
    let mut w = u64::MAX;
    for _ in 0..k {
        w &= r.u64();
    }
    w
}

/// Interesting single words (used by C02 and as filler).
pub fn word_class(r: &mut Rng) -> u64 {
    match r.below(16) {
        0 => 0,
        1 => u64::MAX,
        2 => 1u64 << r.below(64),
        3 => !(1u64 << r.below(64)),
        4 => {
            let k = 1 + r.below(6) as u32;
            density_word(r, k)
        }
        5 => {
            let k = 1 + r.below(6) as u32;
            !density_word(r, k)
        }
        // one 16-bit lane / one byte lane populated
        6 => (r.u64() & 0xFFFF) << (16 * r.below(4)),
        7 => (r.u64() & 0xFF) << (8 * r.below(8)),
        // low / high runs
        8 => {
            let n = r.below(65);
            if n == 64 { u64::MAX } else { (1u64 << n) - 1 }
        }
        9 => {
            let n = r.below(65);
            if n == 64 { u64::MAX } else { !((1u64 << n) - 1) }
        }
        // byte extremes: every byte 0x00 / 0xFF / 0x80 / 0x01 / random
        10 => {
            let mut w = 0u64;
            for b in 0..8 {
                let v = *r.pick(&[0x00u64, 0xFF, 0x80, 0x01, 0x7F, 0xFE]);
                w |= v << (8 * b);
            }
            w
        }
        11 => *r.pick(&[0x5555_5555_5555_5555u64, 0xAAAA_AAAA_AAAA_AAAA, 0x3333_3333_3333_3333, 0x0F0F_0F0F_0F0F_0F0F, 0x00FF_00FF_00FF_00FF, 0x8000_0000_0000_0001]),
        _ => r.u64(),
    }
}

pub fn gen_len(r: &mut Rng, max_bits: usize) -> usize {
    let l = match r.below(10) {
        0..=2 => *r.pick(EDGE_LENS),
        // k*512 + {-1,0,1}, k*64 + {-1,0,1}
        3 => (r.below(max_bits / 512 + 1) * 512 + r.below(3)).saturating_sub(1),
        4 => (r.below(max_bits / 64 + 1) * 64 + r.below(3)).saturating_sub(1),
        5..=6 => r.below(600),
        _ => r.below(max_bits + 1),
    };
    l.min(max_bits)
}

fn set_bit(words: &mut [u64], p: usize) {
    words[p / 64] |= 1u64 << (p % 64);
}

/// Fill bits `from..to` with ones.
fn fill_ones(words: &mut [u64], from: usize, to: usize) {
    let mut p = from;
    while p < to {
        if p % 64 == 0 && p + 64 <= to {
            words[p / 64] = u64::MAX;
            p += 64;
        } else {
            set_bit(words, p);
            p += 1;
        }
    }
}

fn clean_tail(words: &mut [u64], len: usize) {
    if len % 64 != 0 {
        let last = len / 64;
        words[last] &= (1u64 << (len % 64)) - 1;
    }
}

/// A length in bits near `w` words: w*64 +- up to 70 bits (so run edges fall inside words).
fn run_bits(r: &mut Rng, w: usize) -> usize {
    (w * 64 + r.below(141)).saturating_sub(70).max(1)
}

/// Run-structured content over `len` bits: alternating long all-zero / all-one runs with
/// lengths drawn around RUN_WORDS (those that fit), separated by short noisy stretches or
/// single bits, so that a select scan has to cross whole 8-word blocks and rank blocks.
pub fn run_structured(r: &mut Rng, len: usize) -> Vec<u64> {
    let mut words = vec![0u64; len.div_ceil(64)];
    let mut fits: Vec<usize> = RUN_WORDS.iter().copied().filter(|w| w * 64 <= len * 2).collect();
    if fits.is_empty() {
        fits = vec![1, 2];
    }
    let mut p = 0usize;
    // mostly-zero or mostly-one or mixed
    let bias = r.below(3);
    while p < len {
        let w = *r.pick(&fits);
        let n = run_bits(r, w).min(len - p);
        let ones = match bias {
            0 => r.chance(1, 8),
            1 => r.chance(7, 8),
            _ => r.bool(),
        };
        if ones {
            fill_ones(&mut words, p, p + n);
        }
        p += n;
        // separator
        if p < len {
            match r.below(4) {
                0 => {}
                1 => {
                    // a single bit of the opposite value
                    if ones {
                        // leave a zero
                    } else {
                        set_bit(&mut words, p);
                    }
                    p += 1;
                }
                _ => {
                    let m = r.below(200).min(len - p);
                    for q in p..p + m {
                        if r.bool() {
                            set_bit(&mut words, q);
                        }
                    }
                    p += m;
                }
            }
        }
    }
    clean_tail(&mut words, len);
    words
}

/// One clean case with `len <= max_bits`.
pub fn gen_case(r: &mut Rng, max_bits: usize) -> BitsCase {
    let len = gen_len(r, max_bits);
    gen_case_len(r, len)
}

pub fn gen_case_len(r: &mut Rng, len: usize) -> BitsCase {
    let nw = len.div_ceil(64);
    let mut words = vec![0u64; nw];
    let class: &'static str;
    match r.below(12) {
        0..=1 => {
            class = "uniform";
            for w in words.iter_mut() {
                *w = r.u64();
            }
        }
        2..=4 => {
            class = "density";
            let k = r.below(13) as u32;
            for w in words.iter_mut() {
                *w = density_word(r, k);
            }
        }
        5 => {
            class = "density_inverted";
            let k = 1 + r.below(12) as u32;
            for w in words.iter_mut() {
                *w = !density_word(r, k);
            }
        }
        6..=8 => {
            class = "runs";
            words = run_structured(r, len);
        }
        9 => {
            class = "single_bit";
            if len > 0 {
                let p = match r.below(4) {
                    0 => 0,
                    1 => len - 1,
                    2 => (r.below(len / 64 + 1) * 64 + r.below(3)).saturating_sub(1).min(len - 1),
                    _ => r.below(len),
                };
                set_bit(&mut words, p);
            }
        }
        10 => {
            class = "constant";
            if r.bool() {
                for w in words.iter_mut() {
                    *w = u64::MAX;
                }
            }
        }
        _ => {
            class = "word_classes";
            for w in words.iter_mut() {
                *w = word_class(r);
            }
        }
    }
    clean_tail(&mut words, len);
    BitsCase { words, len, class }
}

/// A large run-structured case of about `target_words` words (for scans over >= 2048 words).
pub fn gen_long_runs(r: &mut Rng, target_words: usize) -> BitsCase {
    let len = (target_words * 64 + r.below(130)).saturating_sub(65);
    BitsCase { words: run_structured(r, len), len, class: "runs_long" }
}

/// Derive a hostile variant of a clean case. Returns None when the variant does not exist
/// for this length (`LastWord`/`Both` need `len % 64 != 0`).
pub fn with_stray(r: &mut Rng, clean: &BitsCase, kind: Stray) -> Option<Vec<u64>> {
    let mut w = clean.words.clone();
    let tail = clean.len % 64;
    let stray_last = |r: &mut Rng, w: &mut Vec<u64>| {
        let last = clean.len / 64;
        let above = !((1u64 << tail) - 1);
        let g = match r.below(4) {
            0 => u64::MAX,
            1 => 1u64 << tail,
            2 => 1u64 << 63,
            _ => r.u64() | (1u64 << (tail + r.below(64 - tail))),
        };
        w[last] |= g & above;
    };
    let surplus = |r: &mut Rng, w: &mut Vec<u64>| {
        let n = *r.pick(&[1usize, 1, 2, 7, 8, 9, 17, 70]);
        for i in 0..n {
            let g = match r.below(4) {
                0 => u64::MAX,
                1 => r.u64() | 1,
                2 => 1u64 << r.below(64),
                // a zero surplus word in the middle is fine, but never an all-zero surplus
                _ => if i == 0 { u64::MAX } else { 0 },
            };
            w.push(g);
        }
    };
    match kind {
        Stray::Clean => {}
        Stray::LastWord => {
            if tail == 0 {
                return None;
            }
            stray_last(r, &mut w);
        }
        Stray::SurplusWords => surplus(r, &mut w),
        Stray::Both => {
            if tail == 0 {
                return None;
            }
            stray_last(r, &mut w);
            surplus(r, &mut w);
        }
    }
    Some(w)
}

/// Run-length encoded hex form of a word vector for replay files: `[["hex", repeat], ...]`.
pub fn words_to_rle(words: &[u64]) -> serde_json::Value {
    let mut out: Vec<serde_json::Value> = Vec::new();
    let mut i = 0usize;
    while i < words.len() {
        let mut j = i + 1;
        while j < words.len() && words[j] == words[i] {
            j += 1;
        }
        out.push(serde_json::json!([format!("{:x}", words[i]), j - i]));
        i = j;
    }
    serde_json::Value::Array(out)
}

pub fn words_from_rle(v: &serde_json::Value) -> Vec<u64> {
    let mut out = Vec::new();
    if let Some(a) = v.as_array() {
        for e in a {
            let w = e.get(0).and_then(|x| x.as_str()).and_then(|s| u64::from_str_radix(s, 16).ok()).unwrap_or(0);
            let n = e.get(1).and_then(|x| x.as_u64()).unwrap_or(1) as usize;
            out.extend(std::iter::repeat(w).take(n));
        }
    }
    out
}
