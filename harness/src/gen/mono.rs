//! G-SEQ: non-decreasing `u32` sequences for C03 (duplicates, huge gaps up to `u32::MAX`, dense
//! runs, all-equal, clustered so that the high-bits bitmap has long empty stretches).
//! Deterministic in (rng state, style, n) so a replay can regenerate a long sequence.

use crate::rng::Rng;

pub const STYLES: &[&str] = &[
    "dense",
    "all_equal",
    "dup_heavy",
    "uniform",
    "huge_gaps",
    "clustered",
    "small_universe",
    "ends_at_max",
    "two_ends",
];

/// Lengths the design asks for (around the 256-element sample boundary) plus random ones.
pub fn pick_len(r: &mut Rng, max: usize) -> usize {
    let fixed = [0usize, 1, 2, 3, 63, 64, 65, 255, 256, 257, 511, 512, 513, 767, 768, 769, 1024, 10_000, 200_000];
    let n = match r.below(10) {
        0..=4 => *r.pick(&fixed),
        5..=6 => r.below(40),
        7..=8 => r.below(1500),
        _ => r.below(max + 1),
    };
    n.min(max)
}

fn push_sat(out: &mut Vec<u32>, acc: &mut u64, step: u64) {
    *acc = acc.saturating_add(step).min(u32::MAX as u64);
    out.push(*acc as u32);
}

pub fn gen_seq(r: &mut Rng, style: usize, n: usize) -> Vec<u32> {
    let mut out: Vec<u32> = Vec::with_capacity(n);
    if n == 0 {
        return out;
    }
    match STYLES[style % STYLES.len()] {
        "dense" => {
            let start = match r.below(4) {
                0 => 0u64,
                1 => r.below(100) as u64,
                2 => (u32::MAX as u64).saturating_sub(n as u64 - 1),
                _ => r.u32() as u64,
            };
            let start = start.min((u32::MAX as u64).saturating_sub(n as u64 - 1));
            for i in 0..n {
                out.push((start + i as u64) as u32);
            }
        }
        "all_equal" => {
            let rnd = r.u32();
            let v = *r.pick(&[0u32, 1, 63, 64, 1 << 31, u32::MAX - 1, u32::MAX, rnd]);
            out.resize(n, v);
        }
        "dup_heavy" => {
            let mut acc = r.below(5) as u64;
            out.push(acc as u32);
            for _ in 1..n {
                let s = *r.pick(&[0u64, 0, 0, 0, 1, 1, 2, 5, 64, 300]);
                push_sat(&mut out, &mut acc, s);
            }
        }
        "uniform" => {
            for _ in 0..n {
                out.push(r.u32());
            }
            out.sort_unstable();
        }
        "huge_gaps" => {
            let mut acc = if r.bool() { 0 } else { r.below(1 << 20) as u64 };
            out.push(acc as u32);
            let budget = (u32::MAX as u64 - acc) / (n as u64).max(1);
            for _ in 1..n {
                let s = match r.below(10) {
                    0..=5 => r.below(4) as u64,
                    6..=7 => r.below(5000) as u64,
                    8 => r.below((budget as usize).max(1) * 4 + 1) as u64,
                    _ => r.below((budget as usize).max(1) * 16 + 1) as u64,
                };
                push_sat(&mut out, &mut acc, s);
            }
        }
        "clustered" => {
            // dense runs (1..=300 elements, step 0/1) separated by gaps that are large relative
            // to universe/n, so the unary high part has many all-zero words between clusters
            let mut acc = r.below(1000) as u64;
            let clusters = (n / 40).max(1);
            let gap_max = ((u32::MAX as u64) / (clusters as u64 + 1)).max(1);
            while out.len() < n {
                let run = r.range(1, 300).min(n - out.len());
                for _ in 0..run {
                    let s = r.below(2) as u64;
                    push_sat(&mut out, &mut acc, s);
                }
                let gap = match r.below(4) {
                    0 => r.below(100_000) as u64,
                    _ => (r.u64() % gap_max) + gap_max / 2,
                };
                acc = acc.saturating_add(gap).min(u32::MAX as u64);
            }
        }
        "small_universe" => {
            // universe <= n: low width 0, every value duplicated several times
            let u = (n / *r.pick(&[1usize, 2, 4, 16])).max(1);
            for _ in 0..n {
                out.push(r.below(u) as u32);
            }
            out.sort_unstable();
        }
        "ends_at_max" => {
            let mut acc = 0u64;
            let step = ((u32::MAX as u64) / n as u64).max(1);
            for _ in 0..n {
                let s = r.below(step as usize * 2 + 1) as u64;
                push_sat(&mut out, &mut acc, s);
            }
            let tail = r.range(1, 3).min(n);
            for i in 0..tail {
                out[n - 1 - i] = u32::MAX;
            }
        }
        _ => {
            // two_ends: first part dense near 0, second part dense near u32::MAX
            let k = r.below(n + 1);
            for i in 0..k {
                out.push((i / r.range(1, 3)) as u32);
            }
            out.sort_unstable();
            let rest = n - k;
            for i in 0..rest {
                out.push(u32::MAX - (rest - 1 - i) as u32);
            }
        }
    }
    debug_assert!(out.windows(2).all(|w| w[0] <= w[1]));
    out
}
