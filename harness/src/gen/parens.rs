//! G-PAREN: bit strings for balanced-parentheses navigation (1 = open, LSB first).
//!
//! Kinds: random balanced trees (wide / deep / mixed bias), Dyck prefixes, suffixes and slices
//! (unmatched opens / closes), arbitrary bits at several densities, monotone runs, pure nests
//! deeper than 32 767 and longer than two 65 536-bit L2 blocks, combs (deep spine with leaves),
//! saw-tooth walks whose run lengths sit around the 64 / 512 / 2048 / 65 536-bit block sizes,
//! and `aligned` inputs whose matching closes are placed on, just before and just after block
//! boundaries. `with_strays` derives the storage variants: stray bits above `len` inside the
//! last used word, whole surplus words after it, or both.

use crate::rng::Rng;

#[derive(Clone, Debug)]
pub struct Paren {
    /// exactly ceil(len/64) words, bits at or above `len` are zero
    pub words: Vec<u64>,
    pub len: usize,
    pub kind: &'static str,
}

#[derive(Default)]
struct Bits {
    words: Vec<u64>,
    len: usize,
}

impl Bits {
    fn push(&mut self, b: bool) {
        if self.len % 64 == 0 {
            self.words.push(0);
        }
        if b {
            *self.words.last_mut().unwrap() |= 1u64 << (self.len % 64);
        }
        self.len += 1;
    }
    fn run(&mut self, b: bool, n: usize) {
        for _ in 0..n {
            self.push(b);
        }
    }
    fn get(&self, i: usize) -> bool {
        (self.words[i / 64] >> (i % 64)) & 1 == 1
    }
    fn slice(&self, a: usize, b: usize) -> Bits {
        let mut o = Bits::default();
        for i in a..b {
            o.push(self.get(i));
        }
        o
    }
    fn finish(self, kind: &'static str) -> Paren {
        Paren { words: self.words, len: self.len, kind }
    }
}

pub const KINDS: &[&str] = &[
    "tree", "tree_wide", "tree_deep", "prefix", "suffix", "slice", "random", "mono", "nest", "comb", "saw", "aligned",
];

/// Append a random balanced sequence of exactly `pairs` pairs. `bias` = probability (in 1/256)
/// of opening when both moves are legal; it is redrawn from `biases` every `seg` steps.
fn balanced(r: &mut Rng, out: &mut Bits, pairs: usize, biases: &[u32], seg: usize) {
    let total = 2 * pairs;
    let mut e = 0usize;
    let mut bias = *r.pick(biases);
    for i in 0..total {
        if seg > 0 && i % seg == 0 {
            bias = *r.pick(biases);
        }
        let remaining = total - i;
        let open = if e == 0 {
            true
        } else if e == remaining {
            false
        } else {
            (r.below(256) as u32) < bias
        };
        out.push(open);
        if open {
            e += 1;
        } else {
            e -= 1;
        }
    }
}

/// Lengths with emphasis on word / rank-block / L1 / L2 boundaries.
pub fn pick_len(r: &mut Rng, max: usize) -> usize {
    let edges = [0usize, 1, 2, 63, 64, 65, 127, 128, 129, 511, 512, 513, 2047, 2048, 2049, 4096, 65_535, 65_536, 65_537, 131_072, 131_073];
    let n = match r.below(10) {
        0..=1 => *r.pick(&edges),
        2..=4 => r.below(300),
        5..=7 => r.below(5000),
        _ => r.below(max + 1),
    };
    n.min(max)
}

pub fn gen(r: &mut Rng, kind: &'static str, target: usize) -> Paren {
    let mut b = Bits::default();
    match kind {
        "tree" => balanced(r, &mut b, target / 2, &[64, 110, 128, 128, 150, 200], 97),
        "tree_wide" => balanced(r, &mut b, target / 2, &[20, 60, 100], 0),
        "tree_deep" => balanced(r, &mut b, target / 2, &[180, 220, 245], 1021),
        "prefix" | "suffix" | "slice" => {
            let mut t = Bits::default();
            balanced(r, &mut t, target / 2 + 2, &[100, 128, 160, 230], 211);
            let n = t.len;
            let (a, z) = match kind {
                "prefix" => (0, r.range(n / 3, n)),
                "suffix" => (r.below(n * 2 / 3 + 1), n),
                _ => {
                    let a = r.below(n / 2 + 1);
                    (a, r.range(a, n))
                }
            };
            b = t.slice(a, z);
        }
        "random" => {
            let dens = *r.pick(&[128u32, 128, 140, 116, 64, 192, 250, 6]);
            for _ in 0..target {
                b.push((r.below(256) as u32) < dens);
            }
        }
        "mono" => {
            // a few long runs; starts with either polarity
            let mut open = r.bool();
            while b.len < target {
                let base = *r.pick(&[1usize, 8, 63, 64, 65, 512, 2048, 4096, 40_000, 65_536, 70_000]);
                let n = (base + r.below(3)).min(target - b.len).max(1);
                b.run(open, n);
                open = !open;
            }
        }
        "nest" => {
            let d = target / 2;
            b.run(true, d);
            b.run(false, d);
            if target % 2 == 1 {
                b.push(r.bool());
            }
        }
        "comb" => {
            // spine of depth d; `k` leaves hang below every spine node on the way down and
            // `k2` on the way up
            let k = r.below(3);
            let k2 = r.below(3);
            let d = (target / (2 + 2 * (k + k2))).max(1);
            for _ in 0..d {
                b.push(true);
                for _ in 0..k {
                    b.push(true);
                    b.push(false);
                }
            }
            for _ in 0..d {
                for _ in 0..k2 {
                    b.push(true);
                    b.push(false);
                }
                b.push(false);
            }
        }
        "saw" => {
            // up-runs and down-runs with lengths around the block sizes; not balanced
            let mut open = true;
            while b.len < target {
                let base = *r.pick(&[3usize, 8, 30, 64, 100, 512, 600, 2048, 3000, 33_000, 65_536]);
                let n = (base / 2 + r.below(base + 1)).min(target - b.len).max(1);
                // mostly-monotone run with a little noise so the minima are not at run ends only
                for _ in 0..n {
                    b.push(if r.chance(1, 12) { !open } else { open });
                }
                open = !open;
            }
        }
        _ => {
            // aligned: root, then children "( filler )" whose close lands at a chosen distance
            // from a block boundary; occasionally descend one level to flip the parity
            let units = [64usize, 512, 2048, 65_536];
            b.push(true);
            let mut open_levels = 1usize;
            while b.len + 8 < target {
                if r.chance(1, 5) {
                    b.push(true);
                    open_levels += 1;
                    continue;
                }
                if open_levels > 1 && r.chance(1, 8) {
                    b.push(false);
                    open_levels -= 1;
                    continue;
                }
                let start = b.len;
                let unit = *r.pick(&units[..if target > 140_000 { 4 } else if target > 5000 { 3 } else { 2 }]);
                let delta = *r.pick(&[-2i64, -1, 0, 1, 2, 62, 63]);
                // smallest close position > start with (close - delta) % unit == 0
                let mut close = ((start as i64 + 1 - delta).div_euclid(unit as i64) + 1) * unit as i64 + delta;
                if r.chance(1, 6) {
                    close += unit as i64 * r.below(3) as i64;
                }
                let close = close.max(start as i64 + 1) as usize;
                let mut inner = close - start - 1;
                if inner % 2 == 1 {
                    inner -= 1;
                }
                if start + inner + 2 + open_levels > target {
                    break;
                }
                b.push(true);
                // filler: either flat leaves, a nest, or a random tree (keeps excess patterns varied)
                match r.below(3) {
                    0 => balanced(r, &mut b, inner / 2, &[30, 128, 220], 301),
                    1 => {
                        b.run(true, inner / 2);
                        b.run(false, inner / 2);
                    }
                    _ => {
                        for _ in 0..inner / 2 {
                            b.push(true);
                            b.push(false);
                        }
                    }
                }
                b.push(false);
            }
            // close what is open (sometimes leave it unbalanced)
            if r.chance(4, 5) {
                b.run(false, open_levels);
            }
        }
    }
    b.finish(kind)
}

#[derive(Clone, Copy, Debug, PartialEq, Eq)]
pub enum Stray {
    Clean,
    /// 1-bits at or above `len` inside the last used word (needs len % 64 != 0)
    LastWord,
    /// whole words after the last used word
    Surplus,
    /// both
    Both,
}

impl Stray {
    pub fn name(self) -> &'static str {
        match self {
            Stray::Clean => "clean",
            Stray::LastWord => "last_word_strays",
            Stray::Surplus => "surplus_words",
            Stray::Both => "last_word_strays+surplus_words",
        }
    }
}

/// Classify given storage relative to `len` (used by replays, where only words + len exist).
pub fn classify(words: &[u64], len: usize) -> Stray {
    let used = len.div_ceil(64);
    let surplus = words.len() > used;
    let last = len % 64 != 0 && used >= 1 && used <= words.len() && (words[used - 1] >> (len % 64)) != 0;
    match (last, surplus) {
        (false, false) => Stray::Clean,
        (true, false) => Stray::LastWord,
        (false, true) => Stray::Surplus,
        (true, true) => Stray::Both,
    }
}

/// Storage variant of a clean input. Returns None when the variant does not exist for this
/// length (no spare bits in the last used word).
pub fn with_strays(r: &mut Rng, p: &Paren, s: Stray) -> Option<Vec<u64>> {
    let mut w = p.words.clone();
    let tail = p.len % 64;
    if matches!(s, Stray::LastWord | Stray::Both) {
        if tail == 0 || w.is_empty() {
            return None;
        }
        let hi = !0u64 << tail;
        let add = match r.below(4) {
            0 => hi,
            1 => 1u64 << tail,
            2 => 1u64 << 63,
            _ => r.u64() & hi,
        };
        let add = if add == 0 { hi } else { add };
        *w.last_mut().unwrap() |= add;
    }
    if matches!(s, Stray::Surplus | Stray::Both) {
        let n = *r.pick(&[1usize, 1, 2, 3, 7, 8, 9, 33, 40]);
        let style = r.below(4);
        for _ in 0..n {
            w.push(match style {
                0 => !0u64,
                1 => 0,
                2 => r.u64(),
                _ => {
                    if r.bool() {
                        !0u64
                    } else {
                        r.u64()
                    }
                }
            });
        }
    }
    Some(w)
}

/// Positions to query on an input of `len` bits stored in `nwords` words: everything when the
/// input is small, otherwise every 64-bit boundary +-2 (which contains every rank-block, L1 and
/// L2 boundary; `stride_words` > 1 thins this to every stride-th word for interpreted runs),
/// the ends, and `extra` random positions. Out-of-range positions (including ones
/// that fall inside surplus words) are always appended.
pub fn positions(r: &mut Rng, len: usize, nwords: usize, all_below: usize, extra: usize, stride_words: usize) -> Vec<usize> {
    let mut ps: Vec<usize> = Vec::new();
    if len <= all_below {
        ps.extend(0..len);
    } else {
        for w in (0..=len / 64).step_by(stride_words.max(1)) {
            for d in [-2i64, -1, 0, 1, 2] {
                let p = w as i64 * 64 + d;
                if p >= 0 && (p as usize) < len {
                    ps.push(p as usize);
                }
            }
        }
        for _ in 0..extra {
            ps.push(r.below(len));
        }
        for d in 0..4.min(len) {
            ps.push(len - 1 - d);
            ps.push(d);
        }
        ps.sort_unstable();
        ps.dedup();
    }
    let cap = nwords * 64;
    for p in [len, len + 1, len + 2, len + 63, len + 64, len + 65, cap.saturating_sub(1), cap, cap + 1, u32::MAX as usize, usize::MAX - 1, usize::MAX] {
        ps.push(p);
    }
    if cap > len {
        for _ in 0..4 {
            ps.push(len + r.below(cap - len));
        }
    }
    ps
}
