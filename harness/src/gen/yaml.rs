//! G-YAML: value-tree generator and a YAML renderer that makes an independent presentation
//! choice at every node and records ground truth (documents, scalar/key byte spans, the style of
//! every node, the presentation features used).
//!
//! Nothing here calls into succinctly. Every style is emitted only if a *conservative* predicate
//! written from the YAML 1.2.2 productions says the style is legal and unambiguous at that
//! position (the production names are quoted in the comments). Strings that a YAML 1.1 or 1.2
//! resolver could read as null / bool / number / merge key, or that begin with an indicator,
//! are always quoted. A separate "adventurous" class covers legal-but-unusual plain scalars.
//!
//! Deliberately outside the space (docs/compliance/yaml/limitations.md, "Full accounting of the
//! load failures" and the `|+`/`>+` notes, plus behaviour documented in the source): tags, floats,
//! zero-indented block scalars at the document root, `|+`/`>+` and explicit indentation
//! indicators on a `---` line, content-less block scalars, whitespace-only lines inside block
//! scalars, tabs as separation/indentation, anchors with `:` or other punctuation in the name,
//! bare documents after `...`, explicit `?` keys in flow context, flow collections as keys,
//! NEL/LS/PS written literally (YAML 1.1 readers treat them as breaks; always `\N \L \P`),
//! keys whose content is `<<` (treated as merge keys even when quoted: `is_merge_key_value`),
//! a comment holding `: ` after an unquoted token that stands where a mapping key could start
//! (limitations.md `b #c: d` -> KeyWithoutValue; see `trailing_comment_text`), a flow-mapping
//! key without `:` followed by a trailing comment (`{ k # c` is rejected on purpose, #437).
//!
//! Risk constructs: well-formed shapes on which succinctly has been seen to fail are listed in
//! `TRIGGERS`. A stream holds at most one kind (`YamlStream::trigger`) so that a violation can be
//! attributed exactly; `YamlOpts::avoid_risks` renders "clean" streams without any of them and
//! without the strict validator's risk shapes (`validator_risk_plain`, compact collections whose
//! non-final entries may span lines).
//!
//! `self_check` loads a stream with serde_yaml (libyaml) and compares with the ground truth; a
//! disagreement marks the case generator-suspect.

use crate::gen::json::gen_string;
use crate::rng::Rng;
use crate::val::Val;
use std::collections::BTreeSet;

// ---------------------------------------------------------------------------------------
// Options / results

#[derive(Clone, Copy, Debug, PartialEq, Eq)]
pub enum Collections {
    Mixed,
    BlockOnly,
    FlowOnly,
}

#[derive(Clone, Copy, Debug, PartialEq, Eq)]
pub enum LineBreak {
    Lf,
    CrLf,
    Cr,
}

impl LineBreak {
    pub fn bytes(self) -> &'static [u8] {
        match self {
            LineBreak::Lf => b"\n",
            LineBreak::CrLf => b"\r\n",
            LineBreak::Cr => b"\r",
        }
    }
    pub fn name(self) -> &'static str {
        match self {
            LineBreak::Lf => "lf",
            LineBreak::CrLf => "crlf",
            LineBreak::Cr => "cr",
        }
    }
}

#[derive(Clone, Debug)]
pub struct YamlOpts {
    pub min_docs: usize,
    pub max_docs: usize,
    pub collections: Collections,
    pub anchors: bool,
    pub comments: bool,
    pub blank_lines: bool,
    pub block_scalars: bool,
    /// multi-line plain / single / double quoted scalars (line folding)
    pub multiline_scalars: bool,
    /// legal-but-unusual plain scalars, `+1`/`0x1F` ints, flow single pairs, `? key` entries, ...
    pub adventurous: bool,
    pub explicit_keys: bool,
    /// optional `---` on the first document, `...` markers, `%YAML` directive
    pub doc_markers: bool,
    /// `key:` / `-` with no content as null
    pub empty_nulls: bool,
    /// only double-quoted strings with JSON escapes, `null`/`true`/`false`, decimal ints
    pub json_scalars: bool,
    /// Avoid every known risk construct: the `TRIGGERS` list and the validator risks (plain
    /// scalars holding a quote after white space or a flow bracket, compact collections whose
    /// non-final entries can span lines). Streams rendered this way are "clean".
    pub avoid_risks: bool,
    pub line_break: Option<LineBreak>,
    // tree shape
    pub max_depth: usize,
    pub max_width: usize,
    pub budget: usize,
    /// as gen::json::gen_string: 0 ASCII .. 3 control characters
    pub str_class: u8,
    pub max_str: usize,
}

impl Default for YamlOpts {
    fn default() -> Self {
        YamlOpts {
            min_docs: 1,
            max_docs: 4,
            collections: Collections::Mixed,
            anchors: true,
            comments: true,
            blank_lines: true,
            block_scalars: true,
            multiline_scalars: true,
            adventurous: true,
            explicit_keys: true,
            doc_markers: true,
            empty_nulls: true,
            json_scalars: false,
            avoid_risks: false,
            line_break: None,
            max_depth: 5,
            max_width: 5,
            budget: 40,
            str_class: 3,
            max_str: 30,
        }
    }
}

impl YamlOpts {
    /// Plain YAML without YAML-only features: no anchors, comments, blank lines, markers.
    pub fn plain(collections: Collections) -> Self {
        YamlOpts {
            collections,
            anchors: false,
            comments: false,
            blank_lines: false,
            adventurous: false,
            explicit_keys: false,
            doc_markers: false,
            empty_nulls: false,
            line_break: Some(LineBreak::Lf),
            ..Default::default()
        }
    }
    pub fn block_only_plain() -> Self {
        Self::plain(Collections::BlockOnly)
    }
    pub fn flow_only_plain() -> Self {
        let mut o = Self::plain(Collections::FlowOnly);
        o.block_scalars = false;
        o
    }
    /// Random option mixture for the library monitors.
    pub fn random(r: &mut Rng) -> Self {
        YamlOpts {
            min_docs: 1,
            max_docs: *r.pick(&[1usize, 1, 2, 4]),
            collections: *r.pick(&[
                Collections::Mixed,
                Collections::Mixed,
                Collections::Mixed,
                Collections::BlockOnly,
                Collections::FlowOnly,
            ]),
            anchors: r.chance(2, 3),
            comments: r.chance(2, 3),
            blank_lines: r.chance(2, 3),
            block_scalars: r.chance(4, 5),
            multiline_scalars: r.chance(3, 4),
            adventurous: r.chance(1, 2),
            explicit_keys: r.chance(1, 2),
            doc_markers: r.chance(3, 4),
            empty_nulls: r.chance(2, 3),
            json_scalars: false,
            avoid_risks: r.chance(1, 3),
            line_break: None,
            max_depth: *r.pick(&[1usize, 2, 3, 4, 6]),
            max_width: *r.pick(&[1usize, 2, 3, 5, 8]),
            budget: *r.pick(&[3usize, 8, 20, 50]),
            str_class: r.below(4) as u8,
            max_str: *r.pick(&[4usize, 12, 30, 80]),
        }
    }
}

#[derive(Clone, Debug, PartialEq, Eq)]
pub enum PathSeg {
    Key(String),
    Idx(usize),
}

#[derive(Clone, Debug)]
pub struct Span {
    pub start: usize,
    /// exclusive
    pub end: usize,
    pub doc: usize,
    /// path of the *value* node (for a key: the path of the value the key names)
    pub path: Vec<PathSeg>,
    pub is_key: bool,
    pub style: &'static str,
}

/// Presentation style of every node (scalars, containers, aliases), by path.
#[derive(Clone, Debug)]
pub struct NodeStyle {
    pub doc: usize,
    pub path: Vec<PathSeg>,
    pub style: &'static str,
    pub is_key: bool,
    /// further presentation detail used to make violation signatures narrow, `+`-joined
    /// (e.g. `strip+ind+first_compact`, `next_line`, `then_blank_line`, `compact`)
    pub detail: String,
}

#[derive(Clone, Debug)]
pub struct YamlStream {
    pub bytes: Vec<u8>,
    pub docs: Vec<Val>,
    pub spans: Vec<Span>,
    /// union of the presentation features used (sorted, unique)
    pub features: Vec<&'static str>,
    pub doc_features: Vec<Vec<&'static str>>,
    pub styles: Vec<NodeStyle>,
    pub line_break: LineBreak,
    /// Name of the one *risk construct* kind this stream contains, if any (`"multi"` if more
    /// than one kind could not be avoided). Risk constructs are well-formed YAML shapes that
    /// the monitors have seen succinctly mis-handle; a stream is limited to one kind so that a
    /// violation can be attributed exactly (see `TRIGGERS`).
    pub trigger: Option<&'static str>,
    /// rendered with `avoid_risks`
    pub clean: bool,
}

impl YamlStream {
    /// Style of the node at (doc, path); "?" if unknown (inside an aliased subtree).
    pub fn style_at(&self, doc: usize, path: &[PathSeg], is_key: bool) -> &'static str {
        // longest recorded prefix: a node inside an aliased subtree reports "alias"
        let mut best: Option<&NodeStyle> = None;
        for s in &self.styles {
            if s.doc == doc && s.is_key == is_key && s.path == path {
                return s.style;
            }
            if s.doc == doc && !s.is_key && s.style == "alias" && path.starts_with(&s.path) {
                best = Some(s);
            }
        }
        best.map(|s| s.style).unwrap_or("?")
    }

    /// `style` or `style(detail)` of the node at (doc, path).
    pub fn style_detail_at(&self, doc: usize, path: &[PathSeg], is_key: bool) -> String {
        for s in &self.styles {
            if s.doc == doc && s.is_key == is_key && s.path == path {
                return if s.detail.is_empty() { s.style.to_string() } else { format!("{}({})", s.style, s.detail) };
            }
        }
        self.style_at(doc, path, is_key).to_string()
    }
}

pub fn val_at<'a>(v: &'a Val, path: &[PathSeg]) -> Option<&'a Val> {
    let mut cur = v;
    for seg in path {
        cur = match (seg, cur) {
            (PathSeg::Idx(i), Val::Arr(xs)) => xs.get(*i)?,
            (PathSeg::Key(k), Val::Obj(kv)) => &kv.iter().find(|(k2, _)| k2 == k)?.1,
            _ => return None,
        };
    }
    Some(cur)
}

pub fn path_string(path: &[PathSeg]) -> String {
    let mut s = String::new();
    for p in path {
        match p {
            PathSeg::Idx(i) => s.push_str(&format!("[{i}]")),
            PathSeg::Key(k) => s.push_str(&format!("[{k:?}]")),
        }
    }
    if s.is_empty() {
        s.push('.');
    }
    s
}

/// Risk constructs (all well-formed YAML 1.2, all read correctly by libyaml). Each stream
/// contains at most one kind; the kind is recorded in `YamlStream::trigger`.
pub const TRIGGERS: &[(&str, &str)] = &[
    ("flow_key_colon", "plain key containing `:` in a flow mapping / single pair: `{a:b: 1}`"),
    ("compact_quoted_key_sp_colon", "quoted first key of a compact mapping with white space before the colon: `- \"a\" : 1`"),
    ("empty_then_quoted_key_col0", "empty (null) value followed by a quoted key at column 0: `a:\\n\"b\": 1`"),
    ("explicit_empty_value", "explicit entry with an empty value: `? k\\n:\\n`"),
    ("doc_start_anchor_comment", "`--- &a # comment` followed by the anchored node on the next lines"),
    ("doc_start_anchor_block_scalar", "`--- &a |` anchored block scalar on the document start line"),
    ("first_compact_indicator", "explicit indentation indicator on the first value of a compact collection: `- - |2`, `-   k: |2`"),
    ("next_line_plain_multiline", "multi-line plain scalar starting on the line after `-`, `:` or `key:`"),
    ("single_pair_special_value", "`[k: v]` single pair whose value is a flow collection, an alias or anchored"),
    ("flow_key_only_then_comment", "flow mapping key without `:` followed by a comment line: `{ k\\n# c\\n}`"),
    (
        "flow_entry_lookahead",
        "inside a flow collection: a comment holding a flow bracket (`[ [1, # ]: x\\n 2] ]`) or a plain scalar holding a quote character (`[ [it's, 'x]: y'] ]`) — the loader's implicit-entry look-ahead does not tokenize them",
    ),
    ("block_hash_first_line", "block scalar whose first content line starts with `#`"),
    ("alias_then_colon_comment", "alias as a sequence entry / document root followed by a comment containing `: `: `- *a # c: d`"),
];

// ---------------------------------------------------------------------------------------
// Tree generation

const YAML_WORDS: &[&str] = &[
    "null", "Null", "NULL", "~", "true", "True", "TRUE", "false", "False", "FALSE", "yes", "Yes", "no", "NO", "on",
    "off", "y", "n", "1e3", "0x1F", "0o17", "0b101", "1_000", ".5", "+1", "-1", "-", "?", ":", "- x", "? x", ": x",
    "a: b", "a:b", "a #b", "a#b", "#x", "[x]", "{x}", "[", "]", "{", "}", ",", "x,y", "&a", "*a", "!t", "|", ">",
    "|-", ">+", "%YAML", "@at", "`tick`", "'", "\"", "''", "it's", "say \"hi\"", "---", "...", "--- x", "<<", "=", "",
    " ", " lead", "trail ", "  two  ", "\ttab", "tab\t", "a\tb", "012", "1.0", ".inf", "-.INF", ".nan", ".NaN", "0",
    "-0", "00", "12:30:45", "2001-01-23", "0x", "0o8", "1e", "e3", "+", "-x", "?x", ":x", "x:", "x: ", "x -", "- - x",
    "key:", "http://h/p?q=1#f", "a::b", "a[0]", "f(x)", "50%", "a&b", "a*b", "a!b", "a|b", "a>b", "a@b", "a`b", "$v",
    "\\n", "a\\b", "C:\\dir", "q'uote", "q\"uote", "über", "日本語", "naïve café", "\u{a0}nbsp", "emoji 😀", "x\u{85}y",
    "x\u{2028}y", "\u{feff}bom", "a\u{7f}b", "9lives", "1.2.3", "-.5x", "+x", ".x", "..", ".", "nul", "nulll", "tru",
    "True1", "NaN", "inf", "Infinity", "0x1G",
];

const TEXT_WORDS: &[&str] = &[
    "alpha", "beta", "gamma", "delta", "lorem", "ipsum", "dolor", "sit", "amet", "x", "y", "word", "long-word",
    "a.b", "q", "été", "naïve", "über", "日本", "end.", "(paren)", "1st", "2nd", "it's", "\"q\"", "k:v", "#hash",
    "a#b", "- dash", "-", "[b]", "{c}", "a,b", "&amp", "*star", "!bang", "|pipe", ">gt", "%pct", "@at", "key: val",
    "# c", "'s", "?", ":", "--", "...", "~", "null", "true", "10", "0x1F",
];

fn gen_text(r: &mut Rng, max_lines: usize) -> String {
    // words separated by single spaces, lines separated by 1..3 newlines, optional leading
    // spaces on some lines, optional trailing/leading newlines
    let mut s = String::new();
    if r.chance(1, 8) {
        for _ in 0..r.range(1, 2) {
            s.push('\n');
        }
    }
    let lines = r.range(1, max_lines.max(1));
    for li in 0..lines {
        if li > 0 {
            for _ in 0..*r.pick(&[1usize, 1, 1, 2, 3]) {
                s.push('\n');
            }
        }
        if r.chance(1, 8) {
            for _ in 0..r.range(1, 3) {
                s.push(' ');
            }
        }
        let words = r.range(1, 7);
        for w in 0..words {
            if w > 0 {
                s.push(' ');
                if r.chance(1, 12) {
                    s.push(' ');
                }
            }
            s.push_str(*r.pick(TEXT_WORDS));
        }
        if r.chance(1, 14) {
            s.push(' ');
        }
    }
    match r.below(6) {
        0 | 1 => s.push('\n'),
        2 => {
            for _ in 0..r.range(2, 3) {
                s.push('\n');
            }
        }
        _ => {}
    }
    s
}

pub fn gen_yaml_string(r: &mut Rng, o: &YamlOpts) -> String {
    match r.below(12) {
        0..=3 => gen_string(r, o.str_class, o.max_str),
        4..=5 => (*r.pick(YAML_WORDS)).to_string(),
        6..=7 => gen_text(r, 4),
        8 => gen_text(r, 1),
        9 => {
            // simple identifier-like word
            let n = r.range(1, 8);
            (0..n).map(|_| *r.pick(b"abcdefghijklmnopqrstuvwxyzABCXYZ_0123456789") as char).collect()
        }
        10 => {
            // a word with decoration
            let base = *r.pick(TEXT_WORDS);
            match r.below(5) {
                0 => format!(" {base}"),
                1 => format!("{base} "),
                2 => format!("{base}: {}", r.pick(TEXT_WORDS)),
                3 => format!("{base} #{}", r.pick(TEXT_WORDS)),
                _ => format!("{base}{}", r.pick(&[":", "#", "-", "?", ",", "]", "}", "'", "\""])),
            }
        }
        _ => {
            // long single line (folding material)
            let n = r.range(4, 20);
            let mut s = String::new();
            for i in 0..n {
                if i > 0 {
                    s.push(' ');
                }
                s.push_str(*r.pick(&["alpha", "beta", "gamma", "delta", "x", "yy", "zzz", "été", "日本"]));
            }
            s
        }
    }
}

fn gen_yaml_key(r: &mut Rng, o: &YamlOpts) -> String {
    let mut k = match r.below(10) {
        0..=3 => {
            let n = r.range(1, 8);
            (0..n).map(|_| *r.pick(b"abcdefghijklmnopqrstuvwxyz_ABCXYZ0123456789-") as char).collect()
        }
        4..=5 => (*r.pick(YAML_WORDS)).to_string(),
        6 => gen_text(r, 1),
        _ => gen_string(r, o.str_class, o.max_str.min(16)),
    };
    if k.chars().count() > 60 {
        k = k.chars().take(60).collect();
    }
    if k == "<<" {
        // src/yaml/light.rs `is_merge_key_value` documents (and a unit test pins) that a key whose
        // decoded content is `<<` is treated as a merge key even when quoted, following yq.
        // Such keys are outside the space.
        k = "<<x".to_string();
    }
    k
}

fn gen_int(r: &mut Rng) -> i64 {
    match r.below(10) {
        0..=4 => r.range_i64(-20, 200),
        5 => r.range_i64(-100_000, 100_000),
        6 => r.u64() as i64,
        7 => *r.pick(&[i64::MAX, i64::MIN, i64::MAX - 1, i64::MIN + 1, 0, -1, 1 << 53, (1 << 53) + 1, -(1 << 53) - 1]),
        8 => (1i64 << r.range(20, 62)) + r.range_i64(-2, 2),
        _ => r.range_i64(0, 9),
    }
}

fn gen_leaf(r: &mut Rng, o: &YamlOpts) -> Val {
    match r.below(12) {
        0 => Val::Null,
        1 => Val::Bool(r.bool()),
        2..=4 => Val::int(gen_int(r)),
        _ => Val::Str(gen_yaml_string(r, o)),
    }
}

/// Random tree with string/int/bool/null leaves, unique string keys per mapping. With
/// `o.anchors`, later nodes are sometimes copies of earlier subtrees (alias material).
pub fn gen_yaml_tree(r: &mut Rng, o: &YamlOpts) -> Val {
    let mut budget = o.budget as isize;
    let mut pool: Vec<Val> = Vec::new();
    gen_node(r, o, o.max_depth, &mut budget, &mut pool)
}

fn gen_node(r: &mut Rng, o: &YamlOpts, depth_left: usize, budget: &mut isize, pool: &mut Vec<Val>) -> Val {
    *budget -= 1;
    if o.anchors && !pool.is_empty() && r.chance(1, 7) {
        let v = pool[r.below(pool.len())].clone();
        if v.depth() <= depth_left + 1 {
            return v;
        }
    }
    let v = if depth_left == 0 || *budget <= 0 || r.chance(3, 10) {
        gen_leaf(r, o)
    } else {
        let width = r.small_len(o.max_width);
        if r.bool() {
            Val::Arr((0..width).map(|_| gen_node(r, o, depth_left - 1, budget, pool)).collect())
        } else {
            let mut kv: Vec<(String, Val)> = Vec::new();
            for _ in 0..width {
                let mut k = gen_yaml_key(r, o);
                let mut tries = 0;
                while kv.iter().any(|(k2, _)| *k2 == k) && tries < 20 {
                    k = format!("{k}{}", r.below(100));
                    tries += 1;
                }
                if kv.iter().any(|(k2, _)| *k2 == k) {
                    continue;
                }
                let v = gen_node(r, o, depth_left - 1, budget, pool);
                kv.push((k, v));
            }
            Val::Obj(kv)
        }
    };
    if pool.len() < 32 {
        pool.push(v.clone());
    }
    v
}

// ---------------------------------------------------------------------------------------
// Character classes and conservative style predicates (YAML 1.2.2 productions)

/// [1] c-printable minus what YAML 1.1 readers treat as line breaks (NEL, LS, PS), minus the
/// BOM ([3] c-byte-order-mark is excluded from nb-char [27]), minus line breaks themselves.
/// Tab is included (nb-char); callers decide where a tab may stand.
pub fn printable_conservative(c: char) -> bool {
    matches!(c, '\t' | ' '..='~' | '\u{a0}'..='\u{d7ff}' | '\u{e000}'..='\u{fffd}' | '\u{10000}'..='\u{10ffff}')
        && c != '\u{feff}'
        && c != '\u{2028}'
        && c != '\u{2029}'
}

fn is_ws(c: char) -> bool {
    c == ' ' || c == '\t'
}

/// Could *any* YAML 1.1 / 1.2 resolver (core schema, go-yaml, PyYAML, libyaml-based readers)
/// read this plain text as something other than a string, or as a merge / value key?
/// Deliberately over-approximating: anything that starts like a number is included.
pub fn looks_special(s: &str) -> bool {
    if s.is_empty() {
        return true;
    }
    let l = s.to_ascii_lowercase();
    if matches!(
        l.as_str(),
        "null" | "~" | "true" | "false" | "yes" | "no" | "on" | "off" | "y" | "n" | "<<" | "=" | "nan" | "inf" | "infinity"
    ) {
        return true;
    }
    let t = s.strip_prefix(['+', '-']).unwrap_or(s);
    let mut it = t.chars();
    match (it.next(), it.next()) {
        (Some(c), _) if c.is_ascii_digit() => true,
        (Some('.'), Some(c)) if c.is_ascii_digit() => true,
        (Some('.'), Some(c)) if matches!(c, 'i' | 'I' | 'n' | 'N') => true,
        (None, _) => true, // a lone sign
        _ => false,
    }
}

/// YAML 1.1 boolean words that the 1.2 core schema reads as strings (adventurous plain class).
fn is_yaml11_word(s: &str) -> bool {
    matches!(s.to_ascii_lowercase().as_str(), "yes" | "no" | "on" | "off" | "y" | "n")
}

/// Starts with a digit but contains a character no number syntax (decimal, hex, octal, binary,
/// sexagesimal, underscores, exponent, date) uses -> no resolver reads it as a number.
fn digit_start_non_number(s: &str) -> bool {
    let t = s.strip_prefix(['+', '-']).unwrap_or(s);
    t.chars().next().is_some_and(|c| c.is_ascii_digit())
        && s.chars().any(|c| !matches!(c, '0'..='9' | 'a'..='f' | 'A'..='F' | 'x' | 'X' | 'o' | 'O' | '_' | '.' | ':' | '+' | '-' | ' ' | 'T' | 't' | 'Z' | 'z'))
}

#[derive(Clone, Copy, Debug, PartialEq, Eq)]
pub enum PlainCtx {
    /// value in block context (ns-plain(n, block-out / block-in... flow-out))
    BlockValue,
    /// implicit key in a block mapping (block-key: ns-plain-safe-out, single line)
    BlockKey,
    /// inside a flow collection (flow-in / flow-key: ns-plain-safe-in)
    Flow,
}

#[derive(Clone, Copy, Debug, PartialEq, Eq)]
pub enum PlainClass {
    No,
    Conservative,
    Adventurous,
}

fn safe_first(c: char) -> bool {
    c.is_ascii_alphanumeric() || c == '_' || ((c as u32) >= 0xa0 && printable_conservative(c))
}

/// One physical line of a plain scalar ([126] ns-plain-first, [130] ns-plain-char,
/// [127]/[128]/[129] ns-plain-safe). `first_line` = subject to ns-plain-first; continuation
/// lines are held to the same conservative first-character rule.
fn plain_line_class(s: &str, ctx: PlainCtx, first_line: bool) -> PlainClass {
    let cs: Vec<char> = s.chars().collect();
    if cs.is_empty() || is_ws(cs[0]) || is_ws(cs[cs.len() - 1]) {
        return PlainClass::No;
    }
    if cs.iter().any(|&c| !printable_conservative(c)) {
        return PlainClass::No;
    }
    if s.starts_with("---") || s.starts_with("...") {
        return PlainClass::No;
    }
    let mut adventurous = false;
    // first character
    let c0 = cs[0];
    if !safe_first(c0) {
        match c0 {
            // ns-plain-first: "-" | "?" | ":" followed by an ns-plain-safe character; we demand an
            // alphanumeric one. Not on continuation lines.
            // Block context only: libyaml (YAML 1.1) reads `?x` / `:x` inside a flow collection as
            // indicators, which would only produce generator-suspect cases.
            '-' | '?' | ':' if first_line && ctx != PlainCtx::Flow && cs.len() >= 2 && cs[1].is_ascii_alphanumeric() => {
                adventurous = true
            }
            // non-indicator punctuation
            '.' | '/' | '(' | ')' | '$' | '+' | '<' | '=' | ';' | '^' | '\\' | '~' if first_line => adventurous = true,
            _ => return PlainClass::No,
        }
    }
    let flow = ctx == PlainCtx::Flow;
    for i in 0..cs.len() {
        let c = cs[i];
        match c {
            '\t' => return PlainClass::No,
            ':' => {
                // [130]: ":" must be followed by an ns-plain-safe(c) character
                match cs.get(i + 1) {
                    None => return PlainClass::No,
                    Some(&n) if is_ws(n) => return PlainClass::No,
                    // (libyaml additionally refuses ":?" inside a flow collection)
                    Some(&n) if flow && matches!(n, ',' | '[' | ']' | '{' | '}' | '?') => return PlainClass::No,
                    Some(_) => adventurous = true,
                }
                if i == 0 && !first_line {
                    return PlainClass::No;
                }
            }
            '#' => {
                // [130]: "#" only when preceded by an ns-char
                if i == 0 || is_ws(cs[i - 1]) {
                    return PlainClass::No;
                }
                adventurous = true;
            }
            ',' | '[' | ']' | '{' | '}' => {
                if flow {
                    return PlainClass::No;
                }
                adventurous = true;
            }
            _ => {}
        }
    }
    if adventurous {
        PlainClass::Adventurous
    } else {
        PlainClass::Conservative
    }
}

/// Single-line plain scalar classification including the type-resolution guard.
pub fn plain_class(s: &str, ctx: PlainCtx) -> PlainClass {
    if s.contains('\n') || s.contains('\r') {
        return PlainClass::No;
    }
    let mut cls = plain_line_class(s, ctx, true);
    if cls == PlainClass::No {
        return cls;
    }
    if looks_special(s) {
        if is_yaml11_word(s) || digit_start_non_number(s) {
            cls = PlainClass::Adventurous;
        } else {
            return PlainClass::No;
        }
    }
    cls
}

/// Validator risk: inside a plain scalar, an indicator character that follows white space (the
/// strict validator reads `a "b" c`, `a &b c`, `a > b` as a quoted scalar / anchor / block
/// header), or a flow bracket anywhere.
pub fn validator_risk_plain(s: &str) -> bool {
    let cs: Vec<char> = s.chars().collect();
    (1..cs.len()).any(|i| {
        matches!(cs[i], '"' | '\'' | '&' | '*' | '!' | '|' | '>' | '%' | '@' | '`' | '?' | '-' | ':')
            && matches!(cs[i - 1], ' ' | '\t' | '\n' | ',')
    }) || s.contains(['[', ']', '{', '}'])
}

fn single_quotable_line(s: &str) -> bool {
    // [118]-[120]: nb-single-char = nb-json - "'" (plus ''), restricted to conservative printables
    s.chars().all(printable_conservative)
}

/// Content that can go into a block scalar at all (conservative): see `block_plan`.
fn block_line_ok(line: &str, folded: bool) -> bool {
    if line.is_empty() {
        return true;
    }
    let cs: Vec<char> = line.chars().collect();
    if !cs.iter().all(|&c| printable_conservative(c)) {
        return false;
    }
    // whitespace-only lines: limitations.md (L24T, JEF9) — excluded
    if cs.iter().all(|&c| is_ws(c)) {
        return false;
    }
    if cs[0] == '\t' {
        return false;
    }
    if folded && (is_ws(cs[0]) || is_ws(cs[cs.len() - 1])) {
        // more-indented lines and trailing white space interact with folding ([175]-[182])
        return false;
    }
    true
}

#[derive(Clone, Debug)]
struct BlockPlan {
    /// content lines (without trailing-newline bookkeeping); may contain empty lines
    lines: Vec<String>,
    /// 0 strip, 1 clip-or-keep, >=2 keep
    trailing_newlines: usize,
    needs_indicator: bool,
}

/// Split a string into block scalar content lines ([170] c-l+literal / [174] c-l+folded,
/// chomping [165]-[169]). None if the string is outside the conservative space.
fn block_plan(s: &str, folded: bool) -> Option<BlockPlan> {
    if s.is_empty() || s.contains('\r') {
        return None;
    }
    let body = s.trim_end_matches('\n');
    let trailing = s.len() - body.len();
    if body.is_empty() {
        return None; // content-less block scalars: excluded (limitations.md)
    }
    let lines: Vec<String> = body.split('\n').map(|l| l.to_string()).collect();
    if !lines.iter().all(|l| block_line_ok(l, folded)) {
        return None;
    }
    let first_nonempty = lines.iter().find(|l| !l.is_empty())?;
    let needs_indicator = first_nonempty.starts_with(' ');
    if folded && needs_indicator {
        return None;
    }
    Some(BlockPlan { lines, trailing_newlines: trailing, needs_indicator })
}

/// Pieces of a multi-line flow scalar (plain / single / double): physical segments and what
/// separates them ([71]-[74] line folding in flow scalars).
#[derive(Clone, Debug, PartialEq, Eq)]
enum Sep {
    /// a single break standing for one space
    Fold,
    /// a break followed by `k` empty lines standing for `k` newlines
    Newlines(usize),
    /// double-quoted only: `\` + break standing for nothing
    Continuation,
    End,
}

/// None if `s` cannot be written as a multi-line flow scalar conservatively: every text line
/// must be non-empty, must not start or end with white space, and `s` must not start or end with
/// a newline. Folding happens only at single spaces between two non-space characters.
fn fold_plan(r: &mut Rng, s: &str, continuation_ok: bool) -> Option<Vec<(String, Sep)>> {
    if s.is_empty() || s.starts_with('\n') || s.ends_with('\n') || s.contains('\r') {
        return None;
    }
    let mut out: Vec<(String, Sep)> = Vec::new();
    let logical: Vec<&str> = s.split('\n').collect();
    let mut i = 0;
    while i < logical.len() {
        let line = logical[i];
        if line.is_empty() {
            return None; // handled below via run counting; reaching here means leading empty
        }
        let cs: Vec<char> = line.chars().collect();
        if is_ws(cs[0]) || is_ws(cs[cs.len() - 1]) {
            return None;
        }
        // count following empty logical lines
        let mut j = i + 1;
        while j < logical.len() && logical[j].is_empty() {
            j += 1;
        }
        let newlines = j - i; // number of '\n' between this line and the next text line
        // split this logical line at some single spaces
        let mut seg = String::new();
        for k in 0..cs.len() {
            let c = cs[k];
            let foldable = c == ' ' && k > 0 && k + 1 < cs.len() && !is_ws(cs[k - 1]) && !is_ws(cs[k + 1]);
            if foldable && r.chance(1, 4) {
                out.push((std::mem::take(&mut seg), Sep::Fold));
            } else if continuation_ok && k > 0 && !is_ws(c) && !seg.is_empty() && r.chance(1, 30) {
                out.push((std::mem::take(&mut seg), Sep::Continuation));
                seg.push(c);
            } else {
                seg.push(c);
            }
        }
        if j >= logical.len() {
            out.push((seg, Sep::End));
        } else {
            out.push((seg, Sep::Newlines(newlines)));
        }
        i = j;
    }
    if out.len() < 2 {
        return None;
    }
    Some(out)
}

// ---------------------------------------------------------------------------------------
// Renderer

#[derive(Clone, Copy, Debug)]
enum Place {
    /// at the start of a fresh line (document root without `---` content on the line)
    LineStart,
    /// after an indicator (`-`, `key:`, `---`, `:`) on the current line; separation not yet written
    After { compact_ok: bool, same_indent_seq_ok: bool, on_doc_start: bool },
}

struct Rd<'a> {
    r: &'a mut Rng,
    o: &'a YamlOpts,
    out: Vec<u8>,
    nl: &'static [u8],
    line_start: usize,
    spans: Vec<Span>,
    styles: Vec<NodeStyle>,
    feats: BTreeSet<&'static str>,
    doc: usize,
    path: Vec<PathSeg>,
    anchors: Vec<(String, Val)>,
    anchor_seq: usize,
    /// Some(keep) right after a block scalar, until the next structural line
    after_block: Option<bool>,
    /// a block mapping value indicator `:` was written on the current line
    line_has_value_indicator: bool,
    /// the node about to be rendered is the first child of a compact (`- k: v`, `- - x`) collection
    first_compact_child: bool,
    /// the node about to be rendered is the value of an explicit `? k` / `: v` entry
    explicit_value_child: bool,
    /// index in `styles` of the previous mapping entry's value if it was an empty null
    prev_empty_null: Option<usize>,
    /// in a column-0 block mapping: the next entry's key cannot be written plain
    next_key_needs_quote_col0: bool,
    trigger: Option<&'static str>,
    multi_trigger: bool,
    /// no trailing / header comment may be written on the current line (`--- &a` lines when the
    /// stream already holds another risk construct)
    no_comment_on_this_line: bool,
    /// the current line is `--- &anchor ...`: a comment on it is a risk construct
    doc_start_anchor_line: bool,
    /// a block-context alias node was written on the current line
    block_alias_on_line: bool,
    /// the last token on the current (block context) line is a quoted scalar or a flow collection
    comment_colon_safe: bool,
    /// nesting depth of flow collections being rendered
    flow_depth: usize,
    /// the next `flow_node` must not anchor its node / reports an anchor as this risk construct
    single_pair_value_next: bool,
    /// the last flow token is a mapping key written without `:` (`{a, b: 1}`)
    after_flow_key_only: bool,
}

const COMMENT_BITS: &[&str] = &[
    "comment", "key: value", "- item", "\"quote", "'single", "{", "}", "[", "]", "|", ">", "&a", "*b", "!tag", "%YAML",
    "---", "...", "#", "##", ":", "?", "é", "日本", "TODO", "x", " ", "  ", "\t", "a: b: c", "@", "`",
];

impl<'a> Rd<'a> {
    fn put(&mut self, b: &[u8]) {
        self.out.extend_from_slice(b);
    }
    fn put_str(&mut self, s: &str) {
        self.out.extend_from_slice(s.as_bytes());
    }
    fn newline(&mut self) {
        let nl = self.nl;
        self.out.extend_from_slice(nl);
        self.line_start = self.out.len();
        self.line_has_value_indicator = false;
        self.no_comment_on_this_line = false;
        self.doc_start_anchor_line = false;
        self.block_alias_on_line = false;
        self.comment_colon_safe = false;
    }
    fn col(&self) -> usize {
        self.out.len() - self.line_start
    }
    fn spaces(&mut self, k: usize) {
        for _ in 0..k {
            self.out.push(b' ');
        }
    }
    fn feat(&mut self, f: &'static str) {
        self.feats.insert(f);
    }
    fn style(&mut self, style: &'static str, is_key: bool) {
        self.styles.push(NodeStyle { doc: self.doc, path: self.path.clone(), style, is_key, detail: String::new() });
    }
    /// Append a detail to the most recently recorded node style.
    fn detail(&mut self, d: &str) {
        if let Some(last) = self.styles.last_mut() {
            if !last.detail.is_empty() {
                last.detail.push('+');
            }
            last.detail.push_str(d);
        }
    }
    fn detail_at(&mut self, idx: usize, d: &str) {
        if let Some(st) = self.styles.get_mut(idx) {
            if !st.detail.is_empty() {
                st.detail.push('+');
            }
            st.detail.push_str(d);
        }
    }
    fn span(&mut self, start: usize, end: usize, is_key: bool, style: &'static str) {
        self.spans.push(Span { start, end, doc: self.doc, path: self.path.clone(), is_key, style });
        self.style(style, is_key);
    }

    fn comment_text(&mut self) -> String {
        let mut s = String::from("#");
        for _ in 0..self.r.below(5) {
            if self.r.chance(2, 3) {
                s.push(' ');
            }
            s.push_str(*self.r.pick(COMMENT_BITS));
        }
        s
    }

    /// limitations.md ("The other ways `YamlIndex::build` fails": `b #c: d` -> KeyWithoutValue):
    /// a comment holding a `: ` after an unquoted token that stands where a mapping key could
    /// start is documented as rejected. A trailing comment may therefore contain a `:` + white
    /// space (or end in `:`) only if the line already carries a real value indicator, or its
    /// last token is a quoted scalar, a flow collection or an alias.
    fn trailing_comment_text(&mut self) -> String {
        let mut c = self.comment_text();
        let line = &self.out[self.line_start..];
        let trimmed: &[u8] = {
            let mut e = line.len();
            while e > 0 && (line[e - 1] == b' ' || line[e - 1] == b'\t') {
                e -= 1;
            }
            &line[..e]
        };
        // `- *alias # c: d` is rejected too, with a different error; it is not covered by the
        // documented example and is kept as risk construct `alias_then_colon_comment`
        let alias_case = self.flow_depth == 0 && self.block_alias_on_line && !self.line_has_value_indicator;
        const QUOTED: &[&str] = &["single", "double", "single_multiline", "double_multiline"];
        let colon_ok = if self.flow_depth > 0 {
            // inside a flow collection plain scalars hold no `,[]{}` and never end in `:`, so
            // these bytes are real indicators; otherwise the last token is a scalar or alias
            matches!(trimmed.last(), Some(b',' | b'[' | b'{' | b']' | b'}' | b':') | None)
                || self.styles.last().is_some_and(|st| QUOTED.contains(&st.style))
        } else {
            self.line_has_value_indicator
                || trimmed.iter().all(|&b| b == b' ')
                || self.comment_colon_safe
                || (alias_case && self.trigger_ok("alias_then_colon_comment"))
        };
        if self.flow_depth > 0 {
            c = self.flow_comment_sanitize(c);
        }
        if !colon_ok {
            let cs: Vec<char> = c.chars().collect();
            let mut t = String::new();
            for (i, &ch) in cs.iter().enumerate() {
                if ch == ':' && matches!(cs.get(i + 1), None | Some(' ') | Some('\t')) {
                    t.push(';');
                } else {
                    t.push(ch);
                }
            }
            c = t;
        } else if c.contains(':') {
            self.feat("comment_trailing_with_colon");
            let cs: Vec<char> = c.chars().collect();
            let has_indicator_like = (0..cs.len()).any(|i| cs[i] == ':' && matches!(cs.get(i + 1), None | Some(' ') | Some('\t')));
            if alias_case && has_indicator_like {
                self.trigger_hit("alias_then_colon_comment");
            }
        }
        c
    }

    /// Inside a flow collection a comment holding a flow bracket is a risk construct
    /// (`flow_entry_lookahead`: the loader's bracket-matching look-ahead does not skip comments).
    fn flow_comment_sanitize(&mut self, c: String) -> String {
        if !c.contains(['[', ']', '{', '}']) {
            return c;
        }
        if self.trigger_ok("flow_entry_lookahead") {
            self.trigger_hit("flow_entry_lookahead");
            c
        } else {
            c.replace(['[', '{'], "(").replace([']', '}'], ")")
        }
    }

    /// Optional trailing comment, then the line break.
    fn end_line(&mut self, allow_comment: bool) -> bool {
        let mut wrote = false;
        if allow_comment && !self.no_comment_on_this_line && self.o.comments && self.r.chance(1, 7) {
            wrote = true;
            let k = self.r.range(1, 3);
            self.spaces(k);
            let c = self.trailing_comment_text();
            self.put_str(&c);
            self.feat("comment_trailing");
            if self.doc_start_anchor_line {
                self.trigger_hit("doc_start_anchor_comment");
            }
        }
        self.newline();
        wrote
    }

    /// Blank lines / comment lines between structural lines (called at a line start).
    fn interstitial(&mut self) {
        match self.after_block {
            Some(true) => return, // keep chomping: following blank lines would be content
            Some(false) => {
                // [167]/[168] l-strip-empty / l-trail-comments: only zero-width blank lines and
                // less-indented comments; we use column 0.
                if self.o.blank_lines && self.r.chance(1, 8) {
                    self.newline();
                    self.feat("blank_after_block_scalar");
                }
                if self.o.comments && self.r.chance(1, 10) {
                    let c = self.comment_text();
                    self.put_str(&c);
                    self.newline();
                    self.feat("comment_after_block_scalar");
                }
                return;
            }
            None => {}
        }
        if self.o.blank_lines && self.r.chance(1, 10) {
            for _ in 0..self.r.range(1, 2) {
                if self.r.chance(1, 4) {
                    let k = self.r.range(1, 6);
                    self.spaces(k);
                    self.feat("blank_line_spaces");
                }
                self.newline();
            }
            self.feat("blank_line");
        }
        if self.o.comments && self.r.chance(1, 10) {
            for _ in 0..self.r.range(1, 2) {
                let k = *self.r.pick(&[0usize, 0, 1, 2, 4, 7]);
                self.spaces(k);
                let c = self.comment_text();
                self.put_str(&c);
                self.newline();
            }
            self.feat("comment_line");
        }
    }

    fn structural(&mut self) {
        self.after_block = None;
    }

    /// May this stream (still) contain risk construct `t`?
    fn trigger_ok(&self, t: &'static str) -> bool {
        if self.o.avoid_risks {
            return false;
        }
        match self.trigger {
            None => true,
            Some(x) => x == t,
        }
    }
    /// Risk construct `t` was emitted.
    fn trigger_hit(&mut self, t: &'static str) {
        match self.trigger {
            None => self.trigger = Some(t),
            Some(x) if x == t => {}
            Some(_) => self.multi_trigger = true,
        }
    }

    // ---- scalars -------------------------------------------------------------------------

    fn null_text(&mut self) -> &'static str {
        if self.o.json_scalars {
            return "null";
        }
        let t = *self.r.pick(&["null", "null", "null", "~", "~", "Null", "NULL"]);
        match t {
            "~" => self.feat("null_tilde"),
            "Null" | "NULL" => self.feat("null_case"),
            _ => {}
        }
        t
    }
    fn bool_text(&mut self, b: bool) -> &'static str {
        if self.o.json_scalars {
            return if b { "true" } else { "false" };
        }
        let t = if b {
            *self.r.pick(&["true", "true", "true", "True", "TRUE"])
        } else {
            *self.r.pick(&["false", "false", "false", "False", "FALSE"])
        };
        if t != "true" && t != "false" {
            self.feat("bool_case");
        }
        t
    }
    fn int_text(&mut self, lit: &str) -> String {
        if self.o.adventurous && !self.o.json_scalars {
            if let Ok(i) = lit.parse::<i64>() {
                if i >= 0 && self.r.chance(1, 10) {
                    return match self.r.below(3) {
                        0 => {
                            self.feat("int_plus");
                            format!("+{i}")
                        }
                        1 => {
                            self.feat("int_hex");
                            if self.r.bool() {
                                format!("0x{i:x}")
                            } else {
                                format!("0x{i:X}")
                            }
                        }
                        _ => {
                            self.feat("int_octal");
                            format!("0o{i:o}")
                        }
                    };
                }
            }
        }
        lit.to_string()
    }

    /// Double-quoted rendering of one physical segment ([107]-[116], escapes [41]-[62]).
    fn dq_segment(&mut self, s: &str, out: &mut String) {
        let json_only = self.o.json_scalars;
        for ch in s.chars() {
            let c = ch as u32;
            let must = ch == '"' || ch == '\\' || !printable_conservative(ch);
            let want = must || (!json_only && self.r.chance(1, 9));
            if !want {
                out.push(ch);
                continue;
            }
            let short: Option<&str> = match ch {
                '\0' if !json_only => Some("\\0"),
                '\u{7}' if !json_only => Some("\\a"),
                '\u{8}' => Some("\\b"),
                '\t' => Some("\\t"),
                '\n' => Some("\\n"),
                '\u{b}' if !json_only => Some("\\v"),
                '\u{c}' => Some("\\f"),
                '\r' => Some("\\r"),
                '\u{1b}' if !json_only => Some("\\e"),
                ' ' if !json_only => Some("\\ "),
                '"' => Some("\\\""),
                '/' => Some("\\/"),
                '\\' => Some("\\\\"),
                '\u{85}' if !json_only => Some("\\N"),
                '\u{a0}' if !json_only => Some("\\_"),
                '\u{2028}' if !json_only => Some("\\L"),
                '\u{2029}' if !json_only => Some("\\P"),
                _ => None,
            };
            if let Some(sc) = short {
                if json_only || self.r.chance(3, 4) {
                    out.push_str(sc);
                    if !matches!(ch, '"' | '\\' | '\n' | '\t') {
                        self.feat("dq_escape_named");
                    }
                    continue;
                }
            }
            if json_only {
                // JSON-compatible: \uXXXX only for the BMP; astral characters are printable
                if c <= 0xffff {
                    out.push_str(&format!("\\u{c:04x}"));
                } else {
                    out.push(ch);
                }
                continue;
            }
            let upper = self.r.bool();
            let form = if c <= 0xff {
                self.r.below(3)
            } else if c <= 0xffff {
                1 + self.r.below(2)
            } else {
                2
            };
            let h = match (form, upper) {
                (0, false) => format!("\\x{c:02x}"),
                (0, true) => format!("\\x{c:02X}"),
                (1, false) => format!("\\u{c:04x}"),
                (1, true) => format!("\\u{c:04X}"),
                (_, false) => format!("\\U{c:08x}"),
                (_, true) => format!("\\U{c:08X}"),
            };
            self.feat(match form {
                0 => "dq_escape_x",
                1 => "dq_escape_u",
                _ => "dq_escape_U8",
            });
            out.push_str(&h);
        }
    }

    /// Candidate styles for string `s`. `block_n`: Some(n) where block scalars are allowed
    /// (n = indentation of the enclosing block collection, -1 at the root).
    fn choose_string_style(
        &mut self,
        s: &str,
        ctx: PlainCtx,
        multiline_ok: bool,
        block_ok: bool,
        root_doc_start: bool,
    ) -> &'static str {
        self.choose_string_style_x(s, ctx, multiline_ok, block_ok, root_doc_start, false)
    }

    /// `no_indicator`: block scalars that need an explicit indentation indicator are excluded.
    fn choose_string_style_x(
        &mut self,
        s: &str,
        ctx: PlainCtx,
        multiline_ok: bool,
        block_ok: bool,
        root_doc_start: bool,
        no_indicator: bool,
    ) -> &'static str {
        if self.o.json_scalars {
            return "double";
        }
        let mut cands: Vec<(&'static str, u32)> = vec![("double", 3)];
        let single_line = !s.contains('\n') && !s.contains('\r');
        if single_line && single_quotable_line(s) {
            cands.push(("single", 3));
        }
        // validator risks: a quote after white space, or a flow bracket, inside a plain scalar
        let vrisk = validator_risk_plain(s);
        let plain_allowed = !(self.o.avoid_risks && vrisk);
        if vrisk && !self.o.avoid_risks {
            self.feat("vrisk_plain_candidate");
        }
        match plain_class(s, ctx) {
            PlainClass::Conservative if plain_allowed => cands.push(("plain", 6)),
            PlainClass::Adventurous if self.o.adventurous && plain_allowed => cands.push(("plain_adventurous", 5)),
            _ => {}
        }
        if multiline_ok && self.o.multiline_scalars && s.chars().count() >= 3 {
            let lines_ok_single = s.split('\n').all(single_quotable_line);
            // cheap pre-checks; the actual plan is drawn when rendering and may still fail ->
            // the renderer falls back to "double"
            if !s.starts_with('\n') && !s.ends_with('\n') && !s.contains('\r') && (s.contains(' ') || s.contains('\n')) {
                cands.push(("double_multiline", 2));
                if lines_ok_single {
                    cands.push(("single_multiline", 2));
                    let plain_ok = !looks_special(s)
                        && s.split('\n').filter(|l| !l.is_empty()).enumerate().all(|(i, l)| {
                            l.split(' ').filter(|w| !w.is_empty()).enumerate().all(|(j, w)| {
                                // every word could start a physical line
                                let first = i == 0 && j == 0;
                                plain_line_class(w, ctx, first) != PlainClass::No
                                    && (first || w.chars().next().is_some_and(|c| c.is_alphanumeric()))
                            }) && plain_line_class(l, ctx, i == 0) != PlainClass::No
                        });
                    if plain_ok && plain_allowed {
                        cands.push(("plain_multiline", 3));
                    }
                }
            }
        }
        if block_ok && self.o.block_scalars {
            let hash_ok = |p: &BlockPlan, me: &Self| {
                !p.lines.iter().find(|l| !l.is_empty()).is_some_and(|l| l.starts_with('#')) || me.trigger_ok("block_hash_first_line")
            };
            if let Some(p) = block_plan(s, false) {
                let ok = (!root_doc_start || (!p.needs_indicator && p.trailing_newlines <= 1))
                    && !(no_indicator && p.needs_indicator)
                    && hash_ok(&p, self);
                if ok {
                    cands.push(("literal", 4));
                }
            }
            if let Some(p) = block_plan(s, true) {
                let ok = (!root_doc_start || p.trailing_newlines <= 1) && hash_ok(&p, self);
                if ok {
                    cands.push(("folded", 4));
                }
            }
        }
        let total: u32 = cands.iter().map(|c| c.1).sum();
        let mut x = self.r.below(total as usize) as u32;
        for (name, w) in cands {
            if x < w {
                return name;
            }
            x -= w;
        }
        "double"
    }

    /// Write a flow-style scalar token (plain / single / double, possibly multi-line) for `s`.
    /// `cont_indent`: indentation for continuation lines. Returns the style actually used.
    fn put_flow_scalar(&mut self, s: &str, style: &'static str, cont_indent: usize) -> &'static str {
        match style {
            "plain" | "plain_adventurous" => {
                self.put_str(s);
                self.feat(style);
                if is_yaml11_word(s) {
                    self.feat("plain_yaml11_word");
                }
                style
            }
            "single" => {
                self.out.push(b'\'');
                let t = s.replace('\'', "''");
                self.put_str(&t);
                self.out.push(b'\'');
                self.feat("single");
                if s.contains('\'') {
                    self.feat("single_escaped_quote");
                }
                "single"
            }
            "plain_multiline" | "single_multiline" | "double_multiline" => {
                let dq = style == "double_multiline";
                let Some(plan) = fold_plan(self.r, s, dq) else {
                    return self.put_flow_scalar(s, "double", cont_indent);
                };
                match style {
                    "single_multiline" => self.out.push(b'\''),
                    "double_multiline" => self.out.push(b'"'),
                    _ => {}
                }
                for (seg, sep) in &plan {
                    match style {
                        "single_multiline" => {
                            let t = seg.replace('\'', "''");
                            self.put_str(&t);
                        }
                        "double_multiline" => {
                            let mut t = String::new();
                            self.dq_segment(seg, &mut t);
                            self.put_str(&t);
                        }
                        _ => self.put_str(seg),
                    }
                    match sep {
                        Sep::End => {}
                        Sep::Fold => {
                            self.newline();
                            self.spaces(cont_indent);
                            self.feat("scalar_fold_space");
                        }
                        Sep::Continuation => {
                            self.out.push(b'\\');
                            self.newline();
                            self.spaces(cont_indent);
                            self.feat("dq_line_continuation");
                        }
                        Sep::Newlines(k) => {
                            self.newline();
                            for _ in 0..*k {
                                self.newline();
                            }
                            self.spaces(cont_indent);
                            self.feat("scalar_fold_newline");
                        }
                    }
                }
                match style {
                    "single_multiline" => self.out.push(b'\''),
                    "double_multiline" => self.out.push(b'"'),
                    _ => {}
                }
                self.feat(style);
                style
            }
            _ => {
                let mut t = String::new();
                self.dq_segment(s, &mut t);
                self.out.push(b'"');
                self.put_str(&t);
                self.out.push(b'"');
                self.feat("double");
                "double"
            }
        }
    }

    /// Block scalar after an indicator; `n` = indentation of the enclosing block collection.
    fn put_block_scalar(&mut self, s: &str, folded: bool, n: isize, on_doc_start: bool, first_compact: bool) {
        let plan = block_plan(s, folded).expect("block plan checked by chooser");
        let indicator_allowed = !first_compact || self.trigger_ok("first_compact_indicator");
        let start = self.out.len();
        self.out.push(if folded { b'>' } else { b'|' });
        // content indentation n + m, m >= 1 (and >= 1 absolute at the root)
        let use_indicator = plan.needs_indicator || (!on_doc_start && n >= 0 && indicator_allowed && self.r.chance(1, 5));
        if use_indicator && first_compact {
            self.trigger_hit("first_compact_indicator");
        }
        if plan.lines.iter().find(|l| !l.is_empty()).is_some_and(|l| l.starts_with('#')) {
            self.trigger_hit("block_hash_first_line");
        }
        let m_max = if use_indicator { 9 } else { 6 };
        let mut m = *self.r.pick(&[1usize, 2, 2, 2, 3, 4, 4, 6, 8]);
        m = m.min(m_max);
        let mut ci = (n + m as isize) as usize;
        if n < 0 {
            // root: n = -1; keep the content indented by at least one space (limitations.md:
            // zero-indented block scalars) and never use an indicator here
            ci = m;
        }
        let chomp: &str = match plan.trailing_newlines {
            0 => "-",
            1 => {
                if !on_doc_start && self.r.chance(1, 3) {
                    "+"
                } else {
                    ""
                }
            }
            _ => "+",
        };
        let ind = if use_indicator && n >= 0 { format!("{m}") } else { String::new() };
        if self.r.bool() {
            self.put_str(&ind);
            self.put_str(chomp);
        } else {
            self.put_str(chomp);
            self.put_str(&ind);
        }
        if !ind.is_empty() {
            self.feat("block_indent_indicator");
        }
        self.feat(match (folded, chomp) {
            (false, "-") => "literal_strip",
            (false, "+") => "literal_keep",
            (false, _) => "literal_clip",
            (true, "-") => "folded_strip",
            (true, "+") => "folded_keep",
            (true, _) => "folded_clip",
        });
        if self.o.comments && !self.no_comment_on_this_line && self.r.chance(1, 10) {
            self.put_str(" ");
            let c = self.trailing_comment_text();
            self.put_str(&c);
            self.feat("block_header_comment");
            if self.doc_start_anchor_line {
                self.trigger_hit("doc_start_anchor_comment");
            }
        }
        self.newline();
        let mut last_content_end = self.out.len();
        if folded {
            // [175]-[182]: a break between two text lines folds to a space, `k` empty lines give
            // `k` newlines. Text lines here never start/end with white space.
            let lines = &plan.lines;
            let mut i = 0;
            // leading empty lines: each is one newline
            while i < lines.len() && lines[i].is_empty() {
                self.newline();
                self.feat("block_leading_blank");
                i += 1;
            }
            while i < lines.len() {
                // a text line, optionally folded at single spaces
                let cs: Vec<char> = lines[i].chars().collect();
                self.spaces(ci);
                for k in 0..cs.len() {
                    let c = cs[k];
                    let foldable = c == ' ' && k > 0 && k + 1 < cs.len() && !is_ws(cs[k - 1]) && !is_ws(cs[k + 1]);
                    if foldable && self.r.chance(1, 4) {
                        self.newline();
                        self.spaces(ci);
                        self.feat("folded_fold_space");
                    } else {
                        let mut b = [0u8; 4];
                        self.put(c.encode_utf8(&mut b).as_bytes());
                    }
                }
                last_content_end = self.out.len();
                self.newline();
                // count empty lines up to the next text line
                let mut j = i + 1;
                while j < lines.len() && lines[j].is_empty() {
                    j += 1;
                }
                if j < lines.len() {
                    // (j - i) newlines in the value -> (j - i) empty lines in the text
                    for _ in 0..(j - i) {
                        self.newline();
                    }
                    self.feat("folded_newline");
                }
                i = j;
            }
        } else {
            for (i, l) in plan.lines.iter().enumerate() {
                if l.is_empty() {
                    if i == 0 || plan.lines[..i].iter().all(|x| x.is_empty()) {
                        self.feat("block_leading_blank");
                    }
                    self.newline();
                } else {
                    self.spaces(ci);
                    self.put_str(l);
                    last_content_end = self.out.len();
                    self.newline();
                    if l.starts_with('#') {
                        self.feat("block_line_hash");
                    }
                    if l.starts_with(' ') {
                        self.feat("literal_more_indented");
                    }
                }
            }
        }
        for _ in 1..plan.trailing_newlines {
            self.newline();
            self.feat("block_keep_trailing_blank");
        }
        self.after_block = Some(chomp == "+");
        self.span(start, last_content_end, false, if folded { "folded" } else { "literal" });
        self.detail(match chomp {
            "-" => "strip",
            "+" => "keep",
            _ => "clip",
        });
        if !ind.is_empty() {
            self.detail("ind");
        }
        if on_doc_start {
            self.detail("doc_start_line");
        }
        if plan.lines.iter().find(|l| !l.is_empty()).is_some_and(|l| l.starts_with('#')) {
            self.detail("hash_first_line");
        }
    }

    // ---- anchors -------------------------------------------------------------------------

    fn find_alias(&mut self, v: &Val) -> Option<String> {
        if !self.o.anchors || self.anchors.is_empty() {
            return None;
        }
        // the most recent anchor with an equal value (names are unique, so any would do)
        let hit = self.anchors.iter().rev().find(|(_, av)| av == v).map(|(n, _)| n.clone())?;
        if self.r.chance(2, 3) {
            Some(hit)
        } else {
            None
        }
    }

    fn new_anchor(&mut self, v: &Val) -> String {
        self.anchor_seq += 1;
        let stem = *self.r.pick(&["a", "anchor", "A1", "x-y", "x_y", "0", "n"]);
        let name = format!("{stem}{}", self.anchor_seq);
        self.anchors.push((name.clone(), v.clone()));
        self.feat("anchor");
        name
    }

    // ---- flow ----------------------------------------------------------------------------

    /// Possibly break the line inside a flow collection.
    fn flow_gap(&mut self, min_indent: usize, multiline: bool, need_space: bool) {
        // a key without `:` directly followed by a comment is a risk construct
        let key_only = std::mem::take(&mut self.after_flow_key_only);
        let comments_ok = !key_only || self.trigger_ok("flow_key_only_then_comment");
        if multiline && self.r.chance(1, 5) {
            // does the break directly follow a scalar token (not `,` `[` `{` `:` `]` `}`)?
            let prev = self.out.iter().rev().find(|&&b| b != b' ').copied();
            let after_scalar = !matches!(prev, Some(b',' | b'[' | b'{' | b':' | b']' | b'}') | None)
                && self.styles.last().is_some_and(|s| !s.is_key && !matches!(s.style, "flow_seq" | "flow_map" | "alias"));
            let scalar_idx = self.styles.len().saturating_sub(1);
            if after_scalar {
                self.detail_at(scalar_idx, "then_break");
            }
            // `{ k # c` (trailing comment before the key reached a `:`) is rejected on purpose
            // (src/yaml/parser.rs parse_flow_unquoted_key, #437, pinned by regression tests): not
            // generated. A comment on the *next* line is the risk construct.
            self.end_line(!key_only);
            if self.o.comments && comments_ok && self.r.chance(1, 12) {
                if key_only {
                    self.trigger_hit("flow_key_only_then_comment");
                }
                let k = self.r.range(0, 4);
                self.spaces(k);
                let c = self.comment_text();
                let c = self.flow_comment_sanitize(c);
                self.put_str(&c);
                self.newline();
                self.feat("comment_line_in_flow");
            }
            let unquoted = after_scalar
                && self
                    .styles
                    .get(scalar_idx)
                    .is_some_and(|s| matches!(s.style, "plain" | "plain_adventurous" | "plain_multiline" | "int" | "bool" | "null"));
            if self.o.blank_lines && self.r.chance(1, 12) {
                self.newline();
                self.feat("blank_line_in_flow");
                if after_scalar {
                    self.detail_at(scalar_idx, "then_blank_line");
                }
                if unquoted {
                    // was a risk construct until /repo 0931377 fixed it; kept as a coverage counter
                    self.feat("flow_unquoted_then_blank");
                }
            }
            let k = min_indent + self.r.below(4);
            self.spaces(k);
            self.feat("flow_multiline");
        } else {
            let k = if need_space { self.r.range(1, 2) } else { self.r.below(2) };
            self.spaces(k);
        }
    }

    fn flow_scalar(&mut self, v: &Val, min_indent: usize, multiline: bool, as_key: bool) {
        let start = self.out.len();
        let style: &'static str = match v {
            Val::Null => {
                let t = self.null_text();
                self.put_str(t);
                "null"
            }
            Val::Bool(b) => {
                let t = self.bool_text(*b);
                self.put_str(t);
                "bool"
            }
            Val::Num(t) => {
                let t = self.int_text(t);
                self.put_str(&t);
                "int"
            }
            Val::Str(s) => {
                let mut st = self.choose_string_style(s, PlainCtx::Flow, multiline && !as_key, false, false);
                if matches!(st, "plain" | "plain_adventurous" | "plain_multiline") && s.contains(['\'', '"']) {
                    if self.trigger_ok("flow_entry_lookahead") {
                        self.trigger_hit("flow_entry_lookahead");
                    } else {
                        st = "double";
                    }
                }
                if as_key && s.contains(':') && matches!(st, "plain" | "plain_adventurous") {
                    if self.trigger_ok("flow_key_colon") {
                        self.trigger_hit("flow_key_colon");
                    } else {
                        st = "double";
                    }
                }
                self.put_flow_scalar(s, st, min_indent.max(1) + 1)
            }
            _ => unreachable!(),
        };
        let end = self.out.len();
        self.span(start, end, as_key, style);
    }

    fn flow_node(&mut self, v: &Val, min_indent: usize, multiline: bool) {
        if let Some(name) = self.find_alias(v) {
            self.put_str("*");
            self.put_str(&name);
            self.feat("alias");
            self.feat("alias_in_flow");
            self.style("alias", false);
            return;
        }
        let sp_value = std::mem::take(&mut self.single_pair_value_next);
        if self.o.anchors && self.r.chance(1, 10) && (!sp_value || self.trigger_ok("single_pair_special_value")) {
            let name = self.new_anchor(v);
            self.put_str("&");
            self.put_str(&name);
            self.put_str(" ");
            self.feat("anchor_in_flow");
            if sp_value {
                self.trigger_hit("single_pair_special_value");
            }
        }
        self.flow_body(v, min_indent, multiline);
    }

    /// A flow node without the alias / anchor prologue.
    fn flow_body(&mut self, v: &Val, min_indent: usize, multiline: bool) {
        if v.is_container() {
            self.flow_depth += 1;
            self.flow_body_inner(v, min_indent, multiline);
            self.flow_depth -= 1;
        } else {
            self.flow_body_inner(v, min_indent, multiline);
        }
    }

    fn flow_body_inner(&mut self, v: &Val, min_indent: usize, multiline: bool) {
        match v {
            Val::Arr(xs) => {
                self.style("flow_seq", false);
                self.feat("flow_seq");
                self.out.push(b'[');
                if xs.is_empty() {
                    let k = self.r.below(2);
                    self.spaces(k);
                    self.feat("flow_seq_empty");
                } else {
                    self.flow_gap(min_indent, multiline, false);
                    for (i, x) in xs.iter().enumerate() {
                        self.path.push(PathSeg::Idx(i));
                        // single pair `[k: v]`
                        let single_pair = match x {
                            Val::Obj(kv)
                                if kv.len() == 1 && self.o.adventurous && self.r.chance(1, 6) && self.find_alias(x).is_none() =>
                            {
                                let special = kv[0].1.is_container() || self.anchors.iter().any(|(_, av)| *av == kv[0].1);
                                if !special {
                                    Some(&kv[0])
                                } else if self.trigger_ok("single_pair_special_value") {
                                    self.trigger_hit("single_pair_special_value");
                                    Some(&kv[0])
                                } else {
                                    None
                                }
                            }
                            _ => None,
                        };
                        if let Some((k, val)) = single_pair {
                            self.style("flow_single_pair", false);
                            self.feat("flow_single_pair");
                            self.path.push(PathSeg::Key(k.clone()));
                            self.flow_scalar(&Val::Str(k.clone()), min_indent, false, true);
                            self.put_str(":");
                            self.spaces(1);
                            self.single_pair_value_next = true;
                            self.flow_node(val, min_indent, multiline);
                            self.single_pair_value_next = false;
                            self.path.pop();
                        } else {
                            self.flow_node(x, min_indent, multiline);
                        }
                        self.path.pop();
                        let last = i + 1 == xs.len();
                        if !last {
                            let k = if self.r.chance(1, 10) { 1 } else { 0 };
                            self.spaces(k);
                            self.out.push(b',');
                            self.flow_gap(min_indent, multiline, false);
                        } else if self.o.adventurous && self.r.chance(1, 12) {
                            self.out.push(b',');
                            self.feat("flow_trailing_comma");
                            self.flow_gap(min_indent, multiline, false);
                        } else {
                            self.flow_gap(min_indent, multiline, false);
                        }
                    }
                }
                self.out.push(b']');
            }
            Val::Obj(kv) => {
                self.style("flow_map", false);
                self.feat("flow_map");
                self.out.push(b'{');
                if kv.is_empty() {
                    let k = self.r.below(2);
                    self.spaces(k);
                    self.feat("flow_map_empty");
                } else {
                    self.flow_gap(min_indent, multiline, false);
                    for (i, (k, val)) in kv.iter().enumerate() {
                        self.path.push(PathSeg::Key(k.clone()));
                        let key_start = self.out.len();
                        self.flow_scalar(&Val::Str(k.clone()), min_indent, false, true);
                        let key_quoted = matches!(self.out[key_start], b'"' | b'\'');
                        let last = i + 1 == kv.len();
                        let null_short = matches!(val, Val::Null)
                            && self.o.adventurous
                            && self.o.empty_nulls
                            && self.find_alias(val).is_none()
                            && self.r.chance(1, 4);
                        if null_short {
                            // [147]/[148]: a key with an empty value / no value indicator at all
                            if self.r.bool() {
                                self.put_str(":");
                                self.spaces(1);
                                self.feat("flow_empty_value");
                            } else {
                                self.spaces(1);
                                self.feat("flow_key_only");
                                self.after_flow_key_only = true;
                            }
                            self.style("null_empty", false);
                        } else {
                            if self.r.chance(1, 12) {
                                self.spaces(1);
                                self.feat("space_before_colon");
                            }
                            self.put_str(":");
                            let adjacent = key_quoted
                                && self.o.adventurous
                                && self.r.chance(1, 8)
                                && self.find_alias(val).is_none();
                            if adjacent {
                                // [153] c-ns-flow-map-adjacent-value after a JSON-like key
                                self.feat("flow_json_key_adjacent");
                                // anchors need no separation either, but keep it simple
                                self.flow_node(val, min_indent, multiline);
                            } else {
                                let ml = multiline && self.r.chance(1, 3);
                                self.flow_gap(min_indent, ml, true);
                                self.flow_node(val, min_indent, multiline);
                            }
                        }
                        self.path.pop();
                        if !last {
                            let sp = if self.r.chance(1, 10) { 1 } else { 0 };
                            self.spaces(sp);
                            self.out.push(b',');
                            self.flow_gap(min_indent, multiline, false);
                        } else if self.o.adventurous && self.r.chance(1, 12) {
                            self.out.push(b',');
                            self.feat("flow_trailing_comma");
                            self.flow_gap(min_indent, multiline, false);
                        } else {
                            self.flow_gap(min_indent, multiline, false);
                        }
                    }
                }
                self.out.push(b'}');
            }
            scalar => self.flow_scalar(scalar, min_indent, multiline, false),
        }
    }

    // ---- block ---------------------------------------------------------------------------

    fn key_token(&mut self, k: &str, ctx: PlainCtx) {
        let start = self.out.len();
        let mut st = self.choose_string_style(k, ctx, false, false, false);
        if ctx == PlainCtx::BlockKey && self.prev_empty_null.is_some() && self.col() == 0 && matches!(st, "single" | "double") {
            if self.trigger_ok("empty_then_quoted_key_col0") {
                self.trigger_hit("empty_then_quoted_key_col0");
            } else if plain_class(k, ctx) == PlainClass::Conservative && !(self.o.avoid_risks && validator_risk_plain(k)) {
                st = "plain";
            } else {
                // cannot be avoided any more (the empty value is already written)
                self.trigger_hit("empty_then_quoted_key_col0");
            }
        }
        let used = self.put_flow_scalar(k, st, 0);
        let end = self.out.len();
        self.span(start, end, true, used);
        if ctx == PlainCtx::BlockKey {
            if let Some(idx) = self.prev_empty_null.take() {
                if used == "single" || used == "double" {
                    self.detail_at(idx, "then_quoted_key");
                }
            }
        }
    }

    fn block_node(&mut self, v: &Val, n: isize, place: Place) {
        let (compact_ok, same_indent_seq_ok, on_doc_start, after) = match place {
            Place::LineStart => (false, false, false, false),
            Place::After { compact_ok, same_indent_seq_ok, on_doc_start } => (compact_ok, same_indent_seq_ok, on_doc_start, true),
        };
        let first_compact = std::mem::take(&mut self.first_compact_child);
        let explicit_value = std::mem::take(&mut self.explicit_value_child);
        // alias
        if after {
            if let Some(name) = self.find_alias(v) {
                let k = self.r.range(1, 2);
                self.spaces(k);
                self.put_str("*");
                self.put_str(&name);
                self.feat("alias");
                self.style("alias", false);
                self.structural();
                self.block_alias_on_line = true;
                self.end_line(true);
                return;
            }
        }
        // anchor
        let mut anchored = false;
        if after && self.o.anchors && self.r.chance(1, 6) {
            let name = self.new_anchor(v);
            let k = self.r.range(1, 2);
            self.spaces(k);
            self.put_str("&");
            self.put_str(&name);
            anchored = true;
            if on_doc_start {
                if self.trigger_ok("doc_start_anchor_comment") {
                    self.doc_start_anchor_line = true;
                } else {
                    self.no_comment_on_this_line = true;
                }
            }
        }
        let want_flow = match (self.o.collections, v) {
            (_, Val::Arr(xs)) if xs.is_empty() => true,
            (_, Val::Obj(kv)) if kv.is_empty() => true,
            (Collections::FlowOnly, _) => true,
            (Collections::BlockOnly, _) => false,
            (Collections::Mixed, _) => self.r.chance(1, 4),
        };
        match v {
            Val::Arr(_) | Val::Obj(_) if want_flow => {
                self.structural();
                if after {
                    let k = self.r.range(1, 2);
                    self.spaces(k);
                }
                let min_indent = (n + 1).max(0) as usize;
                let ml = self.o.multiline_scalars || self.r.bool();
                self.flow_body(v, min_indent, ml);
                self.comment_colon_safe = true;
                self.end_line(true);
            }
            Val::Obj(kv) => {
                self.feat("block_map");
                self.style("block_map", false);
                let compact_safe = !self.o.avoid_risks
                    || kv.len() == 1
                    || kv[..kv.len() - 1].iter().all(|(_, x)| matches!(x, Val::Null | Val::Bool(_) | Val::Num(_)));
                let compact = after && compact_ok && !anchored && compact_safe && self.r.chance(1, 2);
                let indent: usize;
                if compact {
                    let k = self.r.range(1, 3);
                    self.spaces(k);
                    indent = self.col();
                    self.feat("compact_map_in_seq");
                    self.detail("compact");
                } else {
                    if after {
                        self.end_line(true);
                    }
                    indent = self.pick_indent(n, false);
                }
                for (i, (k, val)) in kv.iter().enumerate() {
                    if !(compact && i == 0) {
                        self.interstitial();
                        self.spaces(indent);
                    }
                    self.structural();
                    self.first_compact_child = compact && i == 0;
                    if i == 0 {
                        self.prev_empty_null = None;
                    }
                    self.next_key_needs_quote_col0 = indent == 0
                        && kv.get(i + 1).is_some_and(|(nk, _)| {
                            plain_class(nk, PlainCtx::BlockKey) != PlainClass::Conservative
                                || (self.o.avoid_risks && validator_risk_plain(nk))
                        });
                    self.map_entry(k, val, indent, compact && i == 0);
                    self.next_key_needs_quote_col0 = false;
                }
            }
            Val::Arr(xs) => {
                self.feat("block_seq");
                self.style("block_seq", false);
                let compact_safe = !self.o.avoid_risks
                    || xs.len() == 1
                    || xs[..xs.len() - 1].iter().all(|x| matches!(x, Val::Null | Val::Bool(_) | Val::Num(_)));
                let compact = after && compact_ok && !anchored && compact_safe && self.r.chance(1, 3);
                let indent: usize;
                if compact {
                    let k = self.r.range(1, 3);
                    self.spaces(k);
                    indent = self.col();
                    self.feat("compact_seq_in_seq");
                    self.detail("compact");
                } else {
                    if after {
                        self.end_line(true);
                    }
                    indent = self.pick_indent(n, same_indent_seq_ok && !anchored);
                    if n >= 0 && indent == n as usize {
                        self.feat("seq_same_indent_as_key");
                    }
                }
                for (i, x) in xs.iter().enumerate() {
                    if !(compact && i == 0) {
                        self.interstitial();
                        self.spaces(indent);
                    }
                    self.structural();
                    self.out.push(b'-');
                    self.prev_empty_null = None;
                    self.path.push(PathSeg::Idx(i));
                    self.first_compact_child = compact && i == 0;
                    self.block_node(
                        x,
                        indent as isize,
                        Place::After { compact_ok: true, same_indent_seq_ok: false, on_doc_start: false },
                    );
                    self.path.pop();
                }
            }
            scalar => self.block_scalar_value(scalar, n, after, anchored, on_doc_start, first_compact, explicit_value),
        }
    }

    fn pick_indent(&mut self, n: isize, same_ok: bool) -> usize {
        if n < 0 {
            // document root: any indentation >= 0
            return if self.r.chance(5, 6) {
                0
            } else {
                self.feat("root_indented");
                self.r.range(1, 3)
            };
        }
        if same_ok && self.r.chance(1, 3) {
            return n as usize;
        }
        let m = *self.r.pick(&[1usize, 2, 2, 2, 2, 3, 4, 4, 4, 5, 6, 7, 8]);
        n as usize + m
    }

    fn map_entry(&mut self, k: &str, val: &Val, indent: usize, first_compact: bool) {
        self.path.push(PathSeg::Key(k.to_string()));
        let explicit = self.o.explicit_keys && !first_compact && self.r.chance(1, 12);
        if explicit {
            // [190] c-l-block-map-explicit-key / [191] l-block-map-explicit-value
            self.feat("explicit_key");
            // recorded before the key token's own style so that `style_at(.., is_key)` reports
            // the entry form
            self.style("explicit_key", true);
            self.put_str("?");
            let sp = self.r.range(1, 2);
            self.spaces(sp);
            self.key_token(k, PlainCtx::BlockKey);
            self.end_line(true);
            self.spaces(indent);
            self.put_str(":");
            // not a `key: value` line: limitations.md `b #c: d` applies to the value here
            self.explicit_value_child = true;
            self.block_node(
                val,
                indent as isize,
                Place::After { compact_ok: false, same_indent_seq_ok: false, on_doc_start: false },
            );
        } else {
            // [193] ns-s-block-map-implicit-key, [194] c-l-block-map-implicit-value
            self.key_token(k, PlainCtx::BlockKey);
            if first_compact {
                self.detail("first_compact");
            }
            let quoted_key = matches!(self.out.last(), Some(b'"' | b'\''));
            let risky = first_compact && quoted_key;
            if self.r.chance(1, 12) && (!risky || self.trigger_ok("compact_quoted_key_sp_colon")) {
                let sp = self.r.range(1, 3);
                self.spaces(sp);
                self.feat("space_before_colon");
                self.detail("sp_colon");
                if risky {
                    self.trigger_hit("compact_quoted_key_sp_colon");
                }
            }
            self.put_str(":");
            self.line_has_value_indicator = true;
            self.block_node(
                val,
                indent as isize,
                Place::After { compact_ok: false, same_indent_seq_ok: true, on_doc_start: false },
            );
        }
        self.path.pop();
    }

    fn block_scalar_value(
        &mut self,
        v: &Val,
        n: isize,
        after: bool,
        anchored: bool,
        on_doc_start: bool,
        first_compact: bool,
        explicit_value: bool,
    ) {
        self.structural();
        // empty null
        if let Val::Null = v {
            let allowed = (!explicit_value || self.trigger_ok("explicit_empty_value"))
                && (!self.next_key_needs_quote_col0 || self.trigger_ok("empty_then_quoted_key_col0"));
            if after && !anchored && allowed && self.o.empty_nulls && !self.o.json_scalars && self.r.chance(1, 3) {
                if explicit_value {
                    self.trigger_hit("explicit_empty_value");
                }
                self.feat("null_empty");
                self.style("null_empty", false);
                if explicit_value {
                    self.detail("explicit_value");
                }
                if first_compact {
                    self.detail("first_compact");
                }
                self.prev_empty_null = Some(self.styles.len() - 1);
                self.end_line(true);
                return;
            }
        }
        // scalars on the next line (not after an anchor, not on the `---` line)
        let mut next_line = after && !anchored && !on_doc_start && self.r.chance(1, 14);
        let cont_indent = ((n + 1).max(1)) as usize + self.r.below(3);
        if let Val::Str(s) = v {
            let mut block_ok = after && !next_line;
            if on_doc_start && anchored && !self.trigger_ok("doc_start_anchor_block_scalar") {
                block_ok = false;
            }
            let no_indicator = first_compact && !self.trigger_ok("first_compact_indicator");
            let st = self.choose_string_style_x(s, PlainCtx::BlockValue, true, block_ok, on_doc_start, no_indicator);
            if st == "plain_multiline" && next_line {
                if self.trigger_ok("next_line_plain_multiline") {
                    self.trigger_hit("next_line_plain_multiline");
                } else {
                    next_line = false;
                }
            }
            if st == "literal" || st == "folded" {
                if on_doc_start && anchored {
                    self.trigger_hit("doc_start_anchor_block_scalar");
                }
                let k = self.r.range(1, 2);
                self.spaces(k);
                self.put_block_scalar(s, st == "folded", n, on_doc_start, first_compact);
                if first_compact {
                    self.detail("first_compact");
                }
                if explicit_value {
                    self.detail("explicit_value");
                }
                return;
            }
            self.lead_in(after, next_line, n);
            let start = self.out.len();
            // continuation lines must be indented deeper than the parent collection AND deeper
            // than nothing else; for next-line scalars use the scalar's own column as a floor
            let ci = if next_line { cont_indent.max(self.col()) } else { cont_indent };
            let used = self.put_flow_scalar(s, st, ci);
            let end = self.out.len();
            self.span(start, end, false, used);
            if next_line {
                self.detail("next_line");
            }
            if matches!(used, "single" | "double" | "single_multiline" | "double_multiline") {
                self.comment_colon_safe = true;
            }
            self.end_line(true);
            return;
        }
        self.lead_in(after, next_line, n);
        let start = self.out.len();
        let style = match v {
            Val::Null => {
                let t = self.null_text();
                self.put_str(t);
                "null"
            }
            Val::Bool(b) => {
                let t = self.bool_text(*b);
                self.put_str(t);
                "bool"
            }
            Val::Num(t) => {
                let t = self.int_text(t);
                self.put_str(&t);
                "int"
            }
            _ => unreachable!(),
        };
        let end = self.out.len();
        self.span(start, end, false, style);
        if next_line {
            self.detail("next_line");
        }
        self.end_line(true);
    }

    fn lead_in(&mut self, after: bool, next_line: bool, n: isize) {
        if !after {
            return;
        }
        if next_line {
            self.end_line(true);
            let k = ((n + 1).max(0)) as usize + self.r.below(4);
            self.spaces(k);
            self.feat("scalar_on_next_line");
        } else {
            let k = self.r.range(1, 3);
            self.spaces(k);
        }
    }
}

// ---------------------------------------------------------------------------------------
// Streams

/// Render the given documents as one YAML stream.
pub fn render_docs(r: &mut Rng, o: &YamlOpts, docs: &[Val]) -> YamlStream {
    let lb = o.line_break.unwrap_or_else(|| *r.pick(&[LineBreak::Lf, LineBreak::Lf, LineBreak::Lf, LineBreak::CrLf, LineBreak::Cr]));
    let mut rd = Rd {
        r,
        o,
        out: Vec::new(),
        nl: lb.bytes(),
        line_start: 0,
        spans: Vec::new(),
        styles: Vec::new(),
        feats: BTreeSet::new(),
        doc: 0,
        path: Vec::new(),
        anchors: Vec::new(),
        anchor_seq: 0,
        after_block: None,
        line_has_value_indicator: false,
        first_compact_child: false,
        explicit_value_child: false,
        prev_empty_null: None,
        next_key_needs_quote_col0: false,
        trigger: None,
        multi_trigger: false,
        no_comment_on_this_line: false,
        doc_start_anchor_line: false,
        block_alias_on_line: false,
        comment_colon_safe: false,
        flow_depth: 0,
        single_pair_value_next: false,
        after_flow_key_only: false,
    };
    let mut all: BTreeSet<&'static str> = BTreeSet::new();
    let mut doc_features: Vec<Vec<&'static str>> = Vec::new();
    let mut directive = false;
    if o.doc_markers && rd.r.chance(1, 14) {
        rd.put_str("%YAML 1.2");
        rd.end_line(true);
        directive = true;
    }
    for (i, d) in docs.iter().enumerate() {
        rd.doc = i;
        rd.anchors.clear();
        rd.feats.clear();
        rd.path.clear();
        if directive && i == 0 {
            rd.feat("yaml_directive");
        }
        rd.feat(lb.name());
        if docs.len() > 1 {
            rd.feat("multi_doc");
        }
        rd.interstitial();
        rd.structural();
        let explicit = i > 0 || directive || (o.doc_markers && rd.r.chance(1, 3));
        if explicit {
            let marker_at = rd.out.len();
            rd.put_str("---");
            rd.feat("doc_start_marker");
            if rd.r.bool() {
                rd.block_node(d, -1, Place::After { compact_ok: false, same_indent_seq_ok: false, on_doc_start: true });
                // what stands on the `---` line: `--- &anchor # comment` is tagged for signatures
                let line_end = rd.out[marker_at..]
                    .iter()
                    .position(|&b| b == b'\n' || b == b'\r')
                    .map(|p| marker_at + p)
                    .unwrap_or(rd.out.len());
                let line = String::from_utf8_lossy(&rd.out[marker_at..line_end]).into_owned();
                let toks: Vec<&str> = line.split_whitespace().collect();
                if toks.get(1).is_some_and(|t| t.starts_with('&')) {
                    rd.feat("doc_start_anchor");
                    if toks.get(2).is_some_and(|t| t.starts_with('|') || t.starts_with('>')) {
                        rd.feat("doc_start_anchor_block_scalar");
                    }
                    if toks.get(2).is_some_and(|t| t.starts_with('#')) || toks.get(3).is_some_and(|t| t.starts_with('#') && matches!(toks[2].as_bytes()[0], b'|' | b'>')) {
                        rd.feat("doc_start_anchor_then_comment");
                    }
                }
            } else {
                rd.end_line(true);
                if matches!(d, Val::Null) && o.empty_nulls && !o.json_scalars && rd.r.chance(1, 2) {
                    // an empty document is null
                    rd.feat("empty_document");
                    rd.styles.push(NodeStyle {
                        doc: i,
                        path: Vec::new(),
                        style: "null_empty",
                        is_key: false,
                        detail: "empty_document".into(),
                    });
                } else {
                    rd.interstitial();
                    rd.block_node(d, -1, Place::LineStart);
                }
            }
        } else {
            rd.block_node(d, -1, Place::LineStart);
        }
        if o.doc_markers && rd.r.chance(1, 5) {
            rd.structural();
            rd.put_str("...");
            rd.end_line(true);
            rd.feat("doc_end_marker");
        }
        all.extend(rd.feats.iter().copied());
        doc_features.push(rd.feats.iter().copied().collect());
    }
    // trailing comment / blank lines at the very end
    rd.interstitial();
    YamlStream {
        bytes: rd.out,
        docs: docs.to_vec(),
        spans: rd.spans,
        features: all.into_iter().collect(),
        doc_features,
        styles: rd.styles,
        line_break: lb,
        trigger: if rd.multi_trigger { Some("multi") } else { rd.trigger },
        clean: o.avoid_risks,
    }
}

/// Random stream: 1..=max_docs random trees rendered with `o`.
pub fn gen_stream(r: &mut Rng, o: &YamlOpts) -> YamlStream {
    let n = if o.max_docs <= o.min_docs {
        o.min_docs.max(1)
    } else if r.chance(1, 2) {
        o.min_docs.max(1)
    } else {
        r.range(o.min_docs.max(1), o.max_docs)
    };
    let docs: Vec<Val> = (0..n).map(|_| gen_yaml_tree(r, o)).collect();
    render_docs(r, o, &docs)
}

/// JSON-compatible flow YAML (one line per document, `---` between documents): only `[]`, `{}`,
/// double-quoted strings with JSON escapes, `null`/`true`/`false`, decimal integers.
pub fn render_flow_json_compatible(r: &mut Rng, docs: &[Val]) -> YamlStream {
    let mut o = YamlOpts::flow_only_plain();
    o.json_scalars = true;
    o.multiline_scalars = false;
    render_docs(r, &o, docs)
}

// ---------------------------------------------------------------------------------------
// Generator self-check against serde_yaml (libyaml)

fn from_serde_yaml(v: &serde_yaml::Value) -> Result<Val, String> {
    Ok(match v {
        serde_yaml::Value::Null => Val::Null,
        serde_yaml::Value::Bool(b) => Val::Bool(*b),
        serde_yaml::Value::Number(n) => {
            if let Some(i) = n.as_i64() {
                Val::int(i)
            } else if let Some(u) = n.as_u64() {
                Val::Num(u.to_string())
            } else {
                return Err(format!("float {n}"));
            }
        }
        serde_yaml::Value::String(s) => Val::Str(s.clone()),
        serde_yaml::Value::Sequence(xs) => Val::Arr(xs.iter().map(from_serde_yaml).collect::<Result<Vec<_>, _>>()?),
        serde_yaml::Value::Mapping(m) => {
            let mut kv = Vec::new();
            for (k, v) in m.iter() {
                let serde_yaml::Value::String(k) = k else {
                    return Err(format!("non-string key {k:?}"));
                };
                kv.push((k.clone(), from_serde_yaml(v)?));
            }
            Val::Obj(kv)
        }
        serde_yaml::Value::Tagged(t) => return Err(format!("tagged {:?}", t.tag)),
    })
}

/// Load `bytes` with serde_yaml as a multi-document stream.
pub fn load_with_serde_yaml(bytes: &[u8]) -> Result<Vec<Val>, String> {
    let mut docs = Vec::new();
    for de in serde_yaml::Deserializer::from_slice(bytes) {
        // `singleton_map::deserialize` forwards `deserialize_any` untouched; it is used only
        // because it is a public generic entry point that does not need the `serde` traits in
        // scope (serde is not a direct dependency of this crate).
        let v: serde_yaml::Value =
            serde_yaml::with::singleton_map::deserialize(de).map_err(|e| format!("serde_yaml: {e}"))?;
        docs.push(from_serde_yaml(&v)?);
    }
    Ok(docs)
}

/// Ok(()) if libyaml reads exactly the ground truth; Err(reason) marks the case generator-suspect.
pub fn self_check(st: &YamlStream) -> Result<(), String> {
    let got = load_with_serde_yaml(&st.bytes)?;
    if got.len() != st.docs.len() {
        return Err(format!("serde_yaml read {} documents, ground truth has {}", got.len(), st.docs.len()));
    }
    for (i, (g, w)) in got.iter().zip(&st.docs).enumerate() {
        if g != w {
            let p = first_diff(w, g).unwrap_or_default();
            return Err(format!(
                "serde_yaml disagrees with ground truth in document {i} at {} (style {})",
                path_string(&p),
                st.style_at(i, &p, false)
            ));
        }
    }
    Ok(())
}

/// Path of the first (deepest) difference between two trees, None if equal.
pub fn first_diff(want: &Val, got: &Val) -> Option<Vec<PathSeg>> {
    fn go(w: &Val, g: &Val, path: &mut Vec<PathSeg>) -> bool {
        match (w, g) {
            (Val::Arr(a), Val::Arr(b)) if a.len() == b.len() => {
                for (i, (x, y)) in a.iter().zip(b).enumerate() {
                    path.push(PathSeg::Idx(i));
                    if go(x, y, path) {
                        return true;
                    }
                    path.pop();
                }
                false
            }
            (Val::Obj(a), Val::Obj(b)) if a.len() == b.len() && a.iter().zip(b).all(|(x, y)| x.0 == y.0) => {
                for ((k, x), (_, y)) in a.iter().zip(b) {
                    path.push(PathSeg::Key(k.clone()));
                    if go(x, y, path) {
                        return true;
                    }
                    path.pop();
                }
                false
            }
            (a, b) => a != b,
        }
    }
    let mut p = Vec::new();
    if go(want, got, &mut p) {
        Some(p)
    } else {
        None
    }
}

// ---------------------------------------------------------------------------------------
// Arbitrary-byte workloads

/// Bytes that matter to YAML scanners.
pub const YAML_HOT_BYTES: &[u8] =
    b":-?#&*!|>'\"%@`{}[],\\ \t\n\r~.0123456789abefnltux<=+\x00\x1f\x7f\x80\x85\xc2\xe2\xef\xf0\xff";

/// Byte soup over the YAML indicator alphabet.
pub fn yaml_soup(r: &mut Rng, len: usize) -> Vec<u8> {
    const TOKENS: &[&[u8]] = &[
        b"- ", b"-", b": ", b":", b"? ", b"?", b"# ", b"#", b" #", b"&a ", b"&", b"*a", b"*", b"!", b"!!str ", b"!<",
        b"|", b"|-", b"|+", b"|2", b">", b">-", b">+1", b"|0", b"|10", b"'", b"''", b"\"", b"\\\"", b"\\", b"\\x4", b"\\u00e9",
        b"\\U0001", b"\\N", b"\\q", b"%YAML 1.2", b"%TAG ! tag:x,2000:", b"%", b"@", b"`", b"{", b"}", b"[", b"]", b",",
        b" ", b"  ", b"    ", b"\t", b"\n", b"\r\n", b"\r", b"\n\n", b"---", b"--- ", b"...", b"... ", b"~", b"null",
        b"true", b"a", b"key", b"key: ", b"k: v", b"- a", b"<<", b"<<: *a", b"0x1F", b"1e3", b".inf", b"\xc3\xa9", b"\xe2\x82",
        b"\xef\xbb\xbf", b"\xc2\x85", b"\xe2\x80\xa8", b"\xff", b"\x00", b"\x7f", b"a:b", b"a #b", b"a: b: c", b"[a, b]",
        b"{a: 1}", b"? a\n: b", b"- - x", b"-\n", b":\n", b"\"a\\\n  b\"", b"'a\n\n b'",
    ];
    let mut out = Vec::with_capacity(len + 16);
    while out.len() < len {
        if r.chance(1, 12) {
            out.push(r.byte());
        } else {
            let t: &[u8] = TOKENS[r.below(TOKENS.len())];
            out.extend_from_slice(t);
        }
    }
    out.truncate(len);
    out
}

/// Line-structured soup: indented lines built from YAML line shapes (reaches the structural
/// code paths more often than a flat soup).
pub fn yaml_line_soup(r: &mut Rng, lines: usize) -> Vec<u8> {
    const SHAPES: &[&str] = &[
        "k: v", "k:", "- x", "-", "- k: v", "- - x", "? k", ": v", "k: |", "k: >-", "k: |2", "- |+", "text", "\"q\": 1",
        "'s': 2", "k: \"open", "k: 'open", "k: [a, b", "k: {a: 1", "]", "}", "k: &a v", "k: *a", "<<: *a", "# c", "k: v # c",
        "k: v#c", "---", "...", "--- x", "%YAML 1.2", "k: !!str 1", "k: ! v", "a: b: c", "- - - x", "k :  v", "*a : v",
        "&a k: v", "k: - x", "[a, b]: v", "{a: b}: v", "k: \"a\\qb\"", "k: 'it''s'", "\tk: v", "k:\tv", "k: v\t# c", "",
        "   ", "k: [a,\n b]", "k: \"a\n  b\"", "k: a\n  b",
    ];
    let nl: &[u8] = *r.pick(&[&b"\n"[..], b"\n", b"\r\n", b"\r"]);
    let mut out = Vec::new();
    let mut indent = 0usize;
    for _ in 0..lines {
        match r.below(6) {
            0 => indent = indent.saturating_sub(r.range(1, 3)),
            1 | 2 => indent += r.range(1, 4),
            _ => {}
        }
        if indent > 24 {
            indent = 0;
        }
        for _ in 0..indent {
            out.push(b' ');
        }
        let s = *r.pick(SHAPES);
        for &b in s.as_bytes() {
            if b == b'\n' {
                out.extend_from_slice(nl);
            } else {
                out.push(b);
            }
        }
        out.extend_from_slice(nl);
    }
    out
}

/// 1..=3 random byte-level mutations biased towards YAML-significant bytes.
pub fn mutate_yaml(r: &mut Rng, doc: &[u8]) -> Vec<u8> {
    let mut v = doc.to_vec();
    for _ in 0..r.range(1, 3) {
        let len = v.len();
        let b = if r.chance(3, 4) { *r.pick(YAML_HOT_BYTES) } else { r.byte() };
        match r.below(10) {
            0..=2 => {
                if len > 0 {
                    let i = r.below(len);
                    v[i] = b;
                }
            }
            3..=4 => {
                let i = r.below(len + 1);
                v.insert(i, b);
            }
            5..=6 => {
                if len > 0 {
                    let i = r.below(len);
                    v.remove(i);
                }
            }
            7 => v.truncate(r.below(len + 1)),
            8 => {
                if len > 1 {
                    let (i, j) = (r.below(len), r.below(len));
                    v.swap(i, j);
                }
            }
            _ => {
                // duplicate or delete a whole line
                if len > 0 {
                    let i = r.below(len);
                    let ls = v[..i].iter().rposition(|&c| c == b'\n' || c == b'\r').map(|p| p + 1).unwrap_or(0);
                    let le = v[i..].iter().position(|&c| c == b'\n' || c == b'\r').map(|p| i + p + 1).unwrap_or(len);
                    if r.bool() {
                        let line = v[ls..le].to_vec();
                        let at = le;
                        for (k, c) in line.into_iter().enumerate() {
                            v.insert(at + k, c);
                        }
                    } else {
                        v.drain(ls..le);
                    }
                }
            }
        }
    }
    v
}
